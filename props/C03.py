"""C03 — compiled evaluation implements the core-language semantics.
   (T) coq/Properties_C03.v
   (K-inner, translation validation) for every generated program the real compiler is asked (harness/embed_c03.c)
       for the analysed AST, the AST sexp_generate saw (params/locals/sv/fv as the C code holds them) and the
       bytecode; the extracted model recomputes the free-variable lists ([annotate]) and the code
       ([compile_toplevel]) from that AST and both must agree exactly; the AST must satisfy [wf_program]
       (the hypothesis of the theorems).
   (K-outer) printed value / error class of the real run vs the SPEC interpreter [eval_program] on the AST this
       file derives from the program text by its own desugaring (R7RS 7.3) and scope resolution.
   Shared with props/C05.py: s-expression tools, the harness runner, the surface language."""
import os, re, subprocess, json
from vlib import build as B

HERE = os.path.dirname(os.path.abspath(__file__))
HARNESS = os.path.join(HERE, "..", "harness", "embed_c03.c")
PRIMS = {"+": 2, "-": 2, "*": 2, "<": 2, "<=": 2, ">": 2, ">=": 2, "=": 2, "eq?": 2, "cons": 2,
         "car": 1, "cdr": 1, "null?": 1, "pair?": 1}       # `not` is an ordinary procedure in chibi (init-7.scm)
FUEL = 3000

# ------------------------------------------------------------------ s-expressions

TOK = re.compile(r'\s*(\(|\)|"(?:\\.|[^"\\])*"|[^\s()"]+)')


def sx_parse_all(s):
    toks = TOK.findall(s)
    pos = 0

    def one():
        nonlocal pos
        t = toks[pos]
        pos += 1
        if t == "(":
            l = []
            while toks[pos] != ")":
                l.append(one())
            pos += 1
            return l
        if t == ")":
            raise ValueError("unexpected )")
        return t
    out = []
    while pos < len(toks):
        out.append(one())
    return out


def sx_parse(s):
    r = sx_parse_all(s)
    if len(r) != 1:
        raise ValueError("expected one s-expression")
    return r[0]


def sx_str(x):
    if isinstance(x, list):
        return "(" + " ".join(sx_str(y) for y in x) + ")"
    return str(x)


class Names:
    """symbol <-> number; the model's variables and symbols are numbered"""
    def __init__(self):
        self.ids, self.rev = {}, []

    def id(self, s):
        if s not in self.ids:
            self.ids[s] = len(self.rev)
            self.rev.append(s)
        return self.ids[s]

    def name(self, i):
        return self.rev[i] if 0 <= i < len(self.rev) else "?%d" % i


class Unsupported(Exception):
    pass


def wire_lit(l, names):
    k = l[0]
    if k in ("int", "bool"):
        return [k, l[1]]
    if k in ("nil", "void", "undef"):
        return [k]
    if k == "sym":
        return ["sym", str(names.id(l[1]))]
    raise Unsupported("literal " + sx_str(l))


def wire_ast(a, names):
    """harness AST (symbols by name) -> model wire format (numbers); raises Unsupported"""
    k = a[0]
    if k == "lit":
        return ["lit", wire_lit(a[1], names)]
    if k == "ref":
        return ["ref", str(names.id(a[1])), a[2]]
    if k == "set":
        return ["set", str(names.id(a[1])), a[2], wire_ast(a[3], names)]
    if k == "cnd":
        return ["cnd"] + [wire_ast(x, names) for x in a[1:4]]
    if k == "seq":
        return ["seq"] + [wire_ast(x, names) for x in a[1:]]
    if k == "lam":
        _, lid, ps, rest, ls, sv, fv, body = a
        return ["lam", lid, [str(names.id(p)) for p in ps], "#f" if rest == "#f" else str(names.id(rest)),
                [str(names.id(p)) for p in ls], [str(names.id(p)) for p in sv],
                [[str(names.id(n)), o] for n, o in fv], wire_ast(body, names)]
    if k == "app":
        return ["app"] + [wire_ast(x, names) for x in a[1:]]
    if k == "op":
        op = a[1].strip('"')
        if op not in PRIMS:
            raise Unsupported("primitive " + op)
        return ["op", op] + [wire_ast(x, names) for x in a[2:]]
    raise Unsupported("node " + str(k))


OPMAP = {"ADD": "ADD", "SUB": "SUB", "MUL": "MUL", "LT": "LT", "LE": "LE", "EQN": "EQN", "EQ": "EQ", "CONS": "CONS",
         "CAR": "CAR", "CDR": "CDR", "NULL?": "NULL?", "NOT": "NOT", "SET-CDR": "SET-CDR", "MAKE-VECTOR": "MAKE-VECTOR",
         "VECTOR-SET": "VECTOR-SET", "DROP": "DROP", "RET": "RET", "DONE": "DONE"}


def wire_code(c, names, pair_type):
    """harness (code len (off NAME args..)..) -> the model's printed form; jumps become instruction counts"""
    if c[0] != "code":
        raise Unsupported("code " + sx_str(c)[:60])
    ins = c[2:]
    offs = [int(i[0]) for i in ins]
    index_of = {o: n for n, o in enumerate(offs)}
    index_of[int(c[1])] = len(ins)
    out = ["code"]
    for n, i in enumerate(ins):
        off, op, args = int(i[0]), i[1], i[2:]
        if op in ("JUMP", "JUMP-UNLESS"):
            target = off + 1 + int(args[0])
            if target not in index_of:
                raise Unsupported("jump into the middle of an instruction")
            out.append([op, str(index_of[target] - (n + 1))])
        elif op == "PUSH":
            a = args[0]
            if a[0] == "proc":
                out.append(["PUSH", ["proc", a[1], a[2], wire_code(a[3], names, pair_type)]])
            elif a[0] == "cell":
                out.append(["PUSH", ["cell", str(names.id(a[1]))]])
            else:
                out.append(["PUSH", wire_lit(a, names)])
        elif op == "MAKE-PROCEDURE":
            out.append([op, args[0], args[1], wire_code(args[2], names, pair_type)])
        elif op in ("GLOBAL-REF", "GLOBAL-KNOWN-REF"):
            out.append(["GLOBAL-REF", str(names.id(args[0]))])
        elif op in ("LOCAL-REF", "LOCAL-SET", "CLOSURE-REF", "STACK-REF", "CALL", "TAIL-CALL"):
            out.append([op, args[0]])
        elif op == "TYPEP":
            if int(args[0]) != pair_type:
                raise Unsupported("TYPEP %s" % args[0])
            out.append(["PAIR?"])
        elif op in OPMAP and not args:
            out.append([OPMAP[op]])
        else:
            raise Unsupported("opcode " + op)
    return out


# ------------------------------------------------------------------ the harness

class Harness:
    def __init__(self, d):
        self.d = d
        self.exe = B.cc_embed(d, HARNESS, os.path.join(d, "embed_c03"), extra=["-I" + d])

    def run(self, lines, timeout=None, extra_env=None):
        """lines: requests.  Returns (header dict, list of per-request dict(lines=[(tag, text)], crashed=bool))"""
        if not lines:
            return {}, []
        tmo = timeout if timeout else 60 + 0.2 * len(lines)
        try:
            r = subprocess.run([self.exe], input="\n".join(lines) + "\n", capture_output=True, text=True,
                               env=B.chibi_env(self.d, extra_env), timeout=tmo)
            stdout, rc, stderr = r.stdout, r.returncode, r.stderr
        except subprocess.TimeoutExpired as e:
            stdout = e.stdout.decode(errors="replace") if isinstance(e.stdout, bytes) else (e.stdout or "")
            rc, stderr = "TIMEOUT", "no answer within %ds" % tmo
        hdr, res = self._parse(stdout)
        if len(res) < len(lines):
            # the request after the last complete answer killed (or hung) the process: record it, restart for the rest
            res.append(dict(lines=[], crashed=True, rc=rc, stderr=(stderr or "")[-400:]))
            if len(res) < len(lines):
                hdr2, more = self.run(lines[len(res):], timeout=timeout, extra_env=extra_env)
                res += more
                hdr = hdr or hdr2
        return hdr, res

    @staticmethod
    def _parse(stdout):
        out = stdout.split("\n")
        hdr = {}
        while out and not out[0].startswith("READY"):
            out = out[1:]
        if out and out[0].startswith("READY"):
            for kv in out[0].split()[1:]:
                k, v = kv.split("=")
                hdr[k] = int(v)
            out = out[1:]
        res, cur = [], []
        for l in out:
            if l == "END":
                res.append(dict(lines=cur, crashed=False))
                cur = []
            elif l:
                sp = l.find(" ")
                cur.append((l[:sp], l[sp + 1:]) if sp > 0 else (l, ""))
        return hdr, res


ERRCLASS = [("not enough args", "not-enough-args"), ("too many args", "too-many-args"),
            ("non procedure application", "not-procedure"), ("undefined variable", "undefined-variable"),
            ("not a pair", "type"), ("not a number", "type"), ("invalid type", "type"), ("out-of-stack", "out-of-stack")]


def impl_outcome(req):
    """canonical outcome of a harness answer: 'V text' | 'E class' | 'CRASH ..'"""
    if req["crashed"]:
        return "CRASH rc=%s %s" % (req.get("rc"), req.get("stderr", "")[-200:])
    for tag, text in reversed(req["lines"]):
        if tag == "V":
            return "V " + re.sub(r"#<procedure[^>]*>", "#<procedure>", text)
        if tag == "E":
            for pat, cls in ERRCLASS:
                if pat in text:
                    return "E " + cls
            return "E other:" + text[:80]
    return "CRASH no-result"


# ------------------------------------------------------------------ surface language -> core AST (independent of chibi)

UNDEF = object()
_fresh = [0]


def fresh(prefix):
    _fresh[0] += 1
    return "%%%s%d" % (prefix, _fresh[0])


def scm(x):
    """surface tree -> Scheme text"""
    if isinstance(x, list):
        return "(" + " ".join(scm(y) for y in x) + ")"
    if x is True:
        return "#t"
    if x is False:
        return "#f"
    return str(x)


def desugar(x):
    """derived forms of R7RS 7.3 -> lambda / if / set! / begin / define / quote / application"""
    if not isinstance(x, list) or not x:
        return x
    h = x[0]
    if h == "quote":
        return x
    if h == "let":
        if isinstance(x[1], str):                      # named let
            tag, bs, body = x[1], x[2], x[3:]
            return desugar([["letrec", [[tag, ["lambda", [b[0] for b in bs]] + body]], tag]] + [b[1] for b in bs])
        bs, body = x[1], x[2:]
        return [["lambda", [b[0] for b in bs]] + [desugar(b) for b in body]] + [desugar(b[1]) for b in bs]
    if h == "let*":
        bs, body = x[1], x[2:]
        if not bs:
            return desugar(["let", []] + body)
        return desugar(["let", [bs[0]], ["let*", bs[1:]] + body])
    if h in ("letrec", "letrec*"):
        bs, body = x[1], x[2:]
        return [["lambda", [b[0] for b in bs]] + [["set!", b[0], desugar(b[1])] for b in bs]
                + [desugar(["let", []] + body)]] + [UNDEF for b in bs]
    if h == "do":
        specs, (test, *res), cmds = x[1], x[2], x[3:]
        loop = fresh("do")
        step = [s[2] if len(s) > 2 else s[0] for s in specs]
        return desugar(["letrec", [[loop, ["lambda", [s[0] for s in specs],
                                          ["if", test, ["begin"] + (res or [["if", False, False]]),
                                           ["begin"] + cmds + [[loop] + step]]]]],
                        [loop] + [s[1] for s in specs]])
    if h == "cond":
        cl = x[1]
        if cl[0] == "else":
            return desugar(["begin"] + cl[1:])
        rest = ["cond"] + x[2:] if len(x) > 2 else ["if", False, False]
        if len(cl) == 1:
            return desugar(["or", cl[0], rest])
        return ["if", desugar(cl[0]), desugar(["begin"] + cl[1:]), desugar(rest)]
    if h == "case":
        k = fresh("key")
        clauses = []
        for cl in x[2:]:
            if cl[0] == "else":
                clauses.append(cl)
            else:
                t = False
                for d in reversed(cl[0]):
                    t = ["if", ["eq?", k, ["quote", d]], True, t]
                clauses.append([t] + cl[1:])
        return desugar(["let", [[k, x[1]]], ["cond"] + clauses])
    if h == "and":
        if len(x) == 1:
            return True
        if len(x) == 2:
            return desugar(x[1])
        return ["if", desugar(x[1]), desugar(["and"] + x[2:]), False]
    if h == "or":
        if len(x) == 1:
            return False
        if len(x) == 2:
            return desugar(x[1])
        t = fresh("or")
        return desugar(["let", [[t, x[1]]], ["if", t, t, ["or"] + x[2:]]])
    if h == "when":
        return ["if", desugar(x[1]), desugar(["begin"] + x[2:])]
    if h == "unless":
        return ["if", desugar(x[1]), ["if", False, False], desugar(["begin"] + x[2:])]
    if h == "lambda":
        return ["lambda", x[1]] + [desugar(b) for b in x[2:]]
    if h == "define":
        return ["define", x[1]] + [desugar(b) for b in x[2:]]
    return [desugar(y) for y in x]


class LamObj:
    def __init__(self, params, rest):
        self.params, self.rest, self.locals, self.sv, self.body, self.id = params, rest, [], [], None, None

    def frame(self):
        return self.params + ([self.rest] if self.rest else []) + self.locals


def split_params(ps):
    if isinstance(ps, str):
        return [], ps
    if "." in ps:
        i = ps.index(".")
        return ps[:i], ps[i + 1]
    return list(ps), None


def analyze(x, env, user_globals):
    """core surface -> tree of tuples with LamObj owners.  env: list of LamObj, innermost first."""
    def lookup(n):
        for l in env:
            if n in l.frame():
                return l
        return None
    if x is UNDEF:
        return ("lit", ["undef"])
    if x is True or x is False:
        return ("lit", ["bool", "1" if x else "0"])
    if isinstance(x, int):
        return ("lit", ["int", str(x)])
    if isinstance(x, str):
        return ("ref", x, lookup(x))
    h = x[0]
    if h == "quote":
        d = x[1]
        if d == []:
            return ("lit", ["nil"])
        if isinstance(d, bool):
            return ("lit", ["bool", "1" if d else "0"])
        if isinstance(d, int):
            return ("lit", ["int", str(d)])
        if isinstance(d, str):
            return ("lit", ["sym", d])
        raise Unsupported("quoted datum")
    if isinstance(h, str) and lookup(h) is None and h not in user_globals:
        if h == "if":
            return ("cnd", analyze(x[1], env, user_globals), analyze(x[2], env, user_globals),
                    analyze(x[3], env, user_globals) if len(x) > 3 else ("lit", ["void"]))
        if h == "set!":
            o = lookup(x[1])
            if o is not None and x[1] not in o.sv:
                o.sv.append(x[1])
            return ("set", x[1], o, analyze(x[2], env, user_globals))
        if h == "begin":
            return analyze_seq(x[1:], env, user_globals)
        if h == "lambda":
            ps, rest = split_params(x[1])
            l = LamObj(ps, rest)
            body, defs = [], []
            for f in x[2:]:
                if isinstance(f, list) and f and f[0] == "define" and not any("define" in e.frame() for e in [l] + env):
                    if isinstance(f[1], list):
                        name, val = f[1][0], ["lambda", f[1][1:]] + f[2:]
                    else:
                        name, val = f[1], f[2]
                    l.locals.insert(0, name)          # sexp_push
                    defs.append((name, val))
                    body.append(("lit", ["void"]))
                else:
                    body.append(f)
            env2 = [l] + env
            body = [b if isinstance(b, tuple) else analyze(b, env2, user_globals) for b in body]
            sets = []
            for name, val in defs:
                sets.append(("set", name, l, analyze(val, env2, user_globals)))
                if name not in l.sv:
                    l.sv.append(name)
            allb = sets + body
            l.body = allb[0] if len(allb) == 1 else ("seq", allb)
            return ("lam", l)
        if h in PRIMS and len(x) - 1 == PRIMS[h]:
            return ("op", h, [analyze(a, env, user_globals) for a in x[1:]])
    return ("app", analyze(h, env, user_globals), [analyze(a, env, user_globals) for a in x[1:]])


def analyze_seq(forms, env, ug):
    if not forms:
        return ("lit", ["void"])
    if len(forms) == 1:
        return analyze(forms[0], env, ug)
    return ("seq", [analyze(f, env, ug) for f in forms])


def analyze_toplevel(form, user_globals):
    if isinstance(form, list) and form and form[0] == "define":
        if isinstance(form[1], list):
            name, val = form[1][0], ["lambda", form[1][1:]] + form[2:]
        else:
            name, val = form[1], form[2]
        user_globals.add(name)
        return ("set", name, None, analyze(val, [], user_globals))
    return analyze(form, [], user_globals)


def number_lambdas(t, counter):
    k = t[0]
    if k == "lam":
        t[1].id = counter[0]
        counter[0] += 1
        number_lambdas(t[1].body, counter)
    elif k == "set":
        number_lambdas(t[3], counter)
    elif k == "cnd":
        for y in t[1:4]:
            number_lambdas(y, counter)
    elif k == "seq":
        for y in t[1]:
            number_lambdas(y, counter)
    elif k == "app":
        number_lambdas(t[1], counter)
        for y in t[2]:
            number_lambdas(y, counter)
    elif k == "op":
        for y in t[2]:
            number_lambdas(y, counter)


def tree_wire(t, names, sort_sv=False):
    k = t[0]
    own = lambda o: "g" if o is None else str(o.id)
    if k == "lit":
        return ["lit", wire_lit(t[1], names)]
    if k == "ref":
        return ["ref", str(names.id(t[1])), own(t[2])]
    if k == "set":
        return ["set", str(names.id(t[1])), own(t[2]), tree_wire(t[3], names, sort_sv)]
    if k == "cnd":
        return ["cnd"] + [tree_wire(y, names, sort_sv) for y in t[1:4]]
    if k == "seq":
        return ["seq"] + [tree_wire(y, names, sort_sv) for y in t[1]]
    if k == "lam":
        l = t[1]
        sv = [str(names.id(p)) for p in l.sv]
        return ["lam", str(l.id), [str(names.id(p)) for p in l.params], str(names.id(l.rest)) if l.rest else "#f",
                [str(names.id(p)) for p in l.locals], sorted(sv) if sort_sv else sv, [], tree_wire(l.body, names, sort_sv)]
    if k == "app":
        return ["app", tree_wire(t[1], names, sort_sv)] + [tree_wire(y, names, sort_sv) for y in t[2]]
    if k == "op":
        return ["op", t[1]] + [tree_wire(y, names, sort_sv) for y in t[2]]
    raise Unsupported(k)


def strip_for_a0(w):
    """A0 comparison: sv as a set, fv ignored"""
    if not isinstance(w, list):
        return w
    if w and w[0] == "lam":
        return ["lam", w[1], w[2], w[3], w[4], sorted(w[5]), [], strip_for_a0(w[7])]
    return [strip_for_a0(y) for y in w]


def program_to_model(forms, names):
    """surface program -> list of wire ASTs (one per top-level form), by this file's own desugaring + analysis"""
    ug, out = set(), []
    for f in forms:
        t = analyze_toplevel(desugar(f), ug)
        number_lambdas(t, [0])
        out.append(tree_wire(t, names))
    return out


def model_value_to_text(s, names):
    return re.sub(r"sym:(\d+)", lambda m: names.name(int(m.group(1))), s)


# ------------------------------------------------------------------ generators

class Gen:
    """typed random programs: operands are always pure (no set!, no call of an effectful procedure), so the
    value does not depend on the order of argument evaluation; loops count down from small literals."""
    def __init__(self, rng, derived=True):
        self.rng, self.derived, self.n = rng, derived, 0

    def var(self, p="v"):
        self.n += 1
        return "%s%d" % (p, self.n)

    @staticmethod
    def fz(env):
        """environment for an operand position: nothing may be assigned, only pure procedures may be called"""
        return [(n, t, False) for n, t, m in env if not (isinstance(t, tuple) and not t[2])]

    def pick(self, env, ty, mutable=None):
        c = [n for n, t, m in env if t == ty and (mutable is None or m == mutable)]
        return self.rng.choice(c) if c else None

    def int_(self, env, d):
        r, v = self.rng, self.pick(env, "int")
        k = r.random()
        if d <= 0 or k < 0.25:
            return v if v and r.random() < 0.7 else r.randrange(-3, 10)
        if k < 0.55:
            return [r.choice(["+", "-", "+", "*"]), self.int_(self.fz(env), d - 1), self.int_(self.fz(env), d - 2)]
        if k < 0.65:
            return ["if", self.bool_(env, d - 1), self.int_(env, d - 1), self.int_(env, d - 1)]
        if k < 0.75:
            l = self.list_(self.fz(env), d - 1)
            t = self.var("t")
            return [["lambda", [t], ["if", ["pair?", t], ["car", t], 0]], l]
        if k < 0.9:
            return self.call(env, d - 1, "int")
        if self.derived:
            return self.derived_int(env, d - 1)
        return self.call(env, d - 1, "int")

    def bool_(self, env, d):
        r = self.rng
        k = r.random()
        if d <= 0 or k < 0.15:
            return r.choice([True, False])
        if k < 0.6:
            return [r.choice(["<", "<=", ">", ">=", "="]), self.int_(self.fz(env), d - 1), self.int_(self.fz(env), d - 1)]
        if k < 0.7:
            return ["if", self.bool_(env, d - 1), False, True]
        if k < 0.8:
            return [r.choice(["null?", "pair?"]), self.list_(self.fz(env), d - 1)]
        if k < 0.9:
            return ["eq?", ["quote", r.choice(["a", "b"])], ["quote", r.choice(["a", "b"])]]
        if self.derived:
            return [r.choice(["and", "or"])] + [self.bool_(env, d - 1) for _ in range(r.randrange(0, 4))]
        return ["if", self.bool_(env, d - 1), False, True]

    def list_(self, env, d):
        r, v = self.rng, self.pick(env, "list")
        k = r.random()
        if d <= 0 or k < 0.3:
            return v if v and r.random() < 0.7 else ["quote", []]
        if k < 0.7:
            return ["cons", self.int_(self.fz(env), d - 1), self.list_(self.fz(env), d - 1)]
        if k < 0.8:
            t = self.var("t")
            return [["lambda", [t], ["if", ["pair?", t], ["cdr", t], t]], self.list_(self.fz(env), d - 1)]
        if k < 0.9:
            return ["if", self.bool_(env, d - 1), self.list_(env, d - 1), self.list_(env, d - 1)]
        return self.call(env, d - 1, "list")

    def expr(self, env, d, ty):
        return {"int": self.int_, "bool": self.bool_, "list": self.list_}[ty](env, d)

    def call(self, env, d, ty):
        """application of a lambda expression (fixed or rest parameters) to pure operands; the body may have
        internal defines, assignments to any mutable variable in scope, and nested closures"""
        r = self.rng
        nfix = r.randrange(0, 3)
        ps = [(self.var(), r.choice(["int", "int", "list"])) for _ in range(nfix)]
        rest = self.var("r") if r.random() < 0.3 else None
        nextra = r.randrange(0, 3) if rest else 0
        args = [self.expr(self.fz(env), d - 1, t) for _, t in ps] + [self.int_(self.fz(env), d - 1) for _ in range(nextra)]
        env2 = [(n, t, True) for n, t in ps] + ([(rest, "list", True)] if rest else []) + env
        body = self.body(env2, d, ty)
        params = [n for n, _ in ps] + ([".", rest] if rest else [])
        if rest and not ps:
            params = rest
        return [["lambda", params] + body] + args

    def body(self, env, d, ty):
        r = self.rng
        forms = []
        env = list(env)
        for _ in range(r.choice([0, 0, 1, 2]) if d > 0 else 0):      # internal defines
            if r.random() < 0.5:
                n, t = self.var("d"), r.choice(["int", "list"])
                forms.append(["define", n, self.expr(self.fz(env), d - 1, t)])
                env.insert(0, (n, t, True))
            else:                                                        # a local procedure closing over env
                n, p = self.var("f"), self.var()
                rt = r.choice(["int", "list"])
                pure = r.random() < 0.5
                forms.append(["define", [n, p]] + self.body([(p, "int", True)] + (self.fz(env) if pure else env), d - 1, rt))
                env.insert(0, (n, ("fn", rt, pure), False))
        for _ in range(r.choice([0, 1, 1, 2]) if d > 0 else 0):          # statements
            forms.append(self.stmt(env, d - 1))
        fs = [n for n, t, m in env if isinstance(t, tuple) and t[1] == ty]
        if fs and r.random() < 0.5:
            forms.append([r.choice(fs), self.int_pure(self.fz(env), d - 1)])
        else:
            forms.append(self.expr(env, d - 1, ty))
        return forms

    def int_pure(self, env, d):
        return self.int_(env, min(d, 1))

    def stmt(self, env, d):
        r = self.rng
        v = self.pick(env, "int", True)
        l = self.pick(env, "list", True)
        k = r.random()
        if v and k < 0.4:
            return ["set!", v, self.int_(env, d)]
        if l and k < 0.6:
            return ["set!", l, self.list_(env, d)]
        if v and k < 0.75:                                              # a closure that mutates, called twice
            f, p = self.var("m"), self.var()
            return [["lambda", [f], [f, 1], [f, self.int_pure(self.fz(env), d)]],
                    ["lambda", [p], ["set!", v, ["+", v, p]]]]
        if self.derived and v and k < 0.85:
            return [r.choice(["when", "unless"]), self.bool_(env, d), ["set!", v, self.int_(env, d)]]
        if self.derived and v and k < 0.95:
            i = self.var("i")
            return ["do", [[i, r.randrange(0, 4), ["-", i, 1]]], [["<", i, 1]], ["set!", v, ["+", v, i]]]
        fs = [n for n, t, m in env if isinstance(t, tuple)]
        if fs:
            return [r.choice(fs), self.int_pure(self.fz(env), d)]
        return self.int_(env, d)

    def derived_int(self, env, d):
        r = self.rng
        k = r.randrange(7)
        if k == 0:
            a, b = self.var(), self.var()
            return ["let", [[a, self.int_(self.fz(env), d)], [b, self.list_(self.fz(env), d)]]] + self.body([(a, "int", True), (b, "list", True)] + env, d, "int")
        if k == 1:
            a, b = self.var(), self.var()
            return ["let*", [[a, self.int_(self.fz(env), d)], [b, ["+", a, 1]]]] + self.body([(a, "int", True), (b, "int", True)] + env, d, "int")
        if k == 2:                                                       # named let accumulating
            lp, i, acc = self.var("lp"), self.var("i"), self.var("a")
            e2 = [(i, "int", False), (acc, "int", False)] + env
            return ["let", lp, [[i, r.randrange(0, 5)], [acc, self.int_(self.fz(env), d)]],
                    ["if", ["<", i, 1], acc, [lp, ["-", i, 1], ["+", acc, self.int_(self.fz(e2), min(d, 1))]]]]
        if k == 3:                                                       # letrec: mutual recursion even/odd
            ev, od, n = self.var("ev"), self.var("od"), self.var("n")
            return ["letrec", [[ev, ["lambda", [n], ["if", ["=", n, 0], 1, [od, ["-", n, 1]]]]],
                               [od, ["lambda", [n], ["if", ["=", n, 0], 0, [ev, ["-", n, 1]]]]]],
                    [ev, r.randrange(0, 6)]]
        if k == 4:
            return ["cond", [self.bool_(env, d), self.int_(env, d)], [self.bool_(env, d), self.int_(env, d)],
                    ["else", self.int_(env, d)]]
        if k == 5:
            return ["case", self.int_(self.fz(env), min(d, 1)), [[0, 1], self.int_(env, d)], [[2, "a"], self.int_(env, d)],
                    ["else", self.int_(env, d)]]
        i, acc = self.var("i"), self.var("a")
        return ["do", [[i, r.randrange(0, 5), ["-", i, 1]], [acc, 0, ["+", acc, i]]], [["<", i, 1], acc]]

    def program(self, d=4):
        r = self.rng
        forms, env = [], []
        for _ in range(r.choice([0, 1, 2])):                             # top-level defines
            if r.random() < 0.5:
                n, t = self.var("g"), r.choice(["int", "list"])
                forms.append(["define", n, self.expr(self.fz(env), 2, t)])
                env.insert(0, (n, t, True))
            else:
                n, p = self.var("gf"), self.var()
                rt = r.choice(["int", "list"])
                pure = r.random() < 0.5
                forms.append(["define", [n, p]] + self.body([(p, "int", True)] + (self.fz(env) if pure else env), d - 1, rt))
                env.insert(0, (n, ("fn", rt, pure), False))
        ty = r.choice(["int", "list", "int"])
        forms.append(self.call(env, d, ty))
        return forms


def capture_family():
    """exhaustive capture patterns: kind of binding x how it is used x nesting depth x how the closure
    is reached x number of extra arguments for rest parameters"""
    out = []
    kinds = ["p0", "p1", "plast", "rest0", "rest1", "rest3", "local1", "local2", "let"]
    uses = ["cap-read", "cap-write", "cap-rw", "own-write", "own-write-cap-read", "shadow", "unused", "fwd"]
    for kind in kinds:
        for use in uses:
            for depth in (1, 2, 3, 4):
                for esc in ("imm", "esc"):
                    p = capture_case(kind, use, depth, esc)
                    if p is not None:
                        out.append(("%s/%s/d%d/%s" % (kind, use, depth, esc), p))
    return out


def capture_case(kind, use, depth, esc):
    X = "x"

    def inner(d):
        """expression evaluated d lambdas below the binder of X, observing / changing X"""
        if d == depth:
            if use == "cap-read":
                return X
            if use == "cap-write":
                return ["begin", ["set!", X, ["cons", d, X]], 0]
            if use == "cap-rw":
                return ["begin", ["set!", X, ["cons", d, X]], X]
            if use == "own-write-cap-read":
                return X
            if use == "shadow":
                return [["lambda", [X], ["cons", X, X]], d]
            if use in ("own-write", "unused", "fwd"):
                return d
        y = "y%d" % d
        if esc == "imm":
            return [["lambda", [y], ["cons", y, inner(d + 1)]], d]
        f = "f%d" % d
        return [["lambda", [f], ["cons", [f, 1], ["cons", [f, 2], ["quote", []]]]],
                ["lambda", [y], ["cons", y, inner(d + 1)]]]

    own = []
    if use in ("own-write", "own-write-cap-read"):
        own = [["set!", X, ["cons", 7, X]]]
    if use == "fwd":
        if not kind.startswith("local"):
            return None
        body = [["define", ["fa"], ["fb"]], ["define", X, 5], ["define", ["fb"], X], ["cons", ["fa"], ["cons", inner(1), ["quote", []]]]]
        return [[["lambda", ["a"]] + body, 1]]
    tail = [["lambda", ["r"], ["cons", "r", ["cons", X if use != "unused" or kind in () else 0, ["quote", []]]]], inner(1)]
    if use == "unused":
        tail = [["lambda", ["r"], ["cons", "r", ["quote", []]]], inner(1)]
    if kind in ("p0", "p1", "plast"):
        ps = {"p0": [X, "b", "c"], "p1": ["a", X, "c"], "plast": ["a", "b", X]}[kind]
        return [[["lambda", ps] + own + [tail], 10, 20, 30]]
    if kind.startswith("rest"):
        n = int(kind[4:])
        return [["define", ["h", "a", ".", X]] + own + [tail], ["cons", ["h", 1] + list(range(2, 2 + n)), ["cons", 99, ["quote", []]]]]
    if kind == "local1":
        return [[["lambda", ["a"], ["define", X, ["cons", "a", ["quote", []]]]] + own + [tail], 4]]
    if kind == "local2":
        return [[["lambda", ["a"], ["define", "w", 3], ["define", X, ["cons", "w", ["quote", []]]], ["define", ["k"], "w"]] + own + [tail], 4]]
    if kind == "let":
        return [["let", [["q", 1], [X, ["cons", 2, ["quote", []]]]]] + own + [tail]]
    return None


FIXED_CASES = [
    ("rest-assigned-F-C03-1", [["define", ["f", "a", ".", "rest"], ["set!", "rest", 5], "a"], ["cons", ["f", 3], ["cons", 2, ["cons", 1, ["quote", []]]]]]),
    ("rest-assigned-extra", [["define", ["f", "a", ".", "rest"], ["set!", "rest", 5], "a"], ["cons", ["f", 3, 4, 5], ["cons", 2, ["quote", []]]]]),
    ("rest-captured-only", [["define", ["f", "a", ".", "rest"], ["lambda", [], "rest"]], ["cons", [["f", 3, 4]], ["cons", [["f", 3]], ["quote", []]]]]),
    ("rest-unused-extra", [["define", ["f", "a", ".", "rest"], "a"], ["cons", ["f", 3, 4, 5], ["cons", ["f", 6], ["quote", []]]]]),
    ("rest-only", [[["lambda", "r", "r"], 1, 2, 3]]),
    ("too-many", [[["lambda", ["a"], "a"], 1, 2]]),
    ("too-few", [[["lambda", ["a", "b"], "a"], 1]]),
    ("too-few-rest", [[["lambda", ["a", "b", ".", "r"], "a"], 1]]),
    ("not-proc", [[5, 1]]),
    ("car-int", [["car", 5]]),
    ("add-sym", [["+", ["quote", "a"], 1]]),
    ("undefined", [["cons", "nosuchvar", 1]]),
    ("set-returns", [[["lambda", ["a"], ["set!", "a", 2], "a"], 1]]),
    ("shadow-prim", [[["lambda", ["car"], ["car", 1]], ["lambda", ["z"], ["cons", "z", "z"]]]]),
    ("counter", [["define", ["mk"], ["define", "n", 0], ["lambda", [], ["set!", "n", ["+", "n", 1]], "n"]],
                 [["lambda", ["c1", "c2"], ["c1"], ["c1"], ["c2"], ["cons", ["c1"], ["cons", ["c2"], ["quote", []]]]], ["mk"], ["mk"]]]),
]


# ------------------------------------------------------------------ the check

def model_requests(ctx, exe, reqs):
    return ctx.run_model(exe, reqs, timeout=1500)


def check_programs(ctx, h, exe, progs, pair_type_hint=None, outer=True, label="C03"):
    """progs: list of (key, forms).  Runs everything; reports through ctx.  Returns list of per-program dicts."""
    texts = [" ".join(scm(f) for f in forms) for _, forms in progs]
    hdr, answers = h.run(["PROG " + t for t in texts])
    pair_type = hdr.get("pair-type", 6)
    names = Names()
    mreq, plan = [], []
    for (key, forms), text, ans in zip(progs, texts, answers):
        ent = dict(key=key, text=text, impl=impl_outcome(ans), inner=[], spec=None, unsupported=None)
        plan.append(ent)
        # ---- outer: spec on this file's own AST
        try:
            wires = program_to_model(forms, names)
            ent["spec_req"] = len(mreq)
            mreq.append("sem %d %s" % (FUEL, " ".join(sx_str(w) for w in wires)))
            ent["vm_req"] = len(mreq)
            mreq.append("vm %d %s" % (60000, " ".join(sx_str(w) for w in wires)))
            ent["own"] = wires
        except Unsupported as e:
            ent["unsupported"] = str(e)
        # ---- inner: what the compiler produced for each form
        a0s = [t for tag, t in ans["lines"] if tag == "A0"]
        a2s = [t for tag, t in ans["lines"] if tag == "A2"]
        bs = [t for tag, t in ans["lines"] if tag == "B"]
        ent["a0"] = a0s
        for a2, b in zip(a2s, bs):
            try:
                w = wire_ast(sx_parse(a2), names)
                cw = wire_code(sx_parse(b), names, pair_type)
            except (Unsupported, ValueError, IndexError) as e:
                ent["inner"].append(dict(unsupported=str(e)))
                continue
            ent["inner"].append(dict(a2=w, code=cw, r_annot=len(mreq), r_code=len(mreq) + 1, r_wf=len(mreq) + 2))
            s = sx_str(w)
            mreq += ["annot " + s, "code " + s, "wf " + s]
    mout = model_requests(ctx, exe, mreq) if mreq else []
    for ent in plan:
        ent["names"] = names
        if "spec_req" in ent:
            ent["spec"] = model_value_to_text(mout[ent["spec_req"]], names)
            ent["vm"] = model_value_to_text(mout[ent["vm_req"]], names)
        for i in ent["inner"]:
            if "a2" in i:
                i["m_annot"], i["m_code"], i["m_wf"] = mout[i["r_annot"]], mout[i["r_code"]], mout[i["r_wf"]]
    return plan


def first_diff(a, b, path=""):
    if isinstance(a, list) and isinstance(b, list):
        for n, (x, y) in enumerate(zip(a, b)):
            d = first_diff(x, y, path + "/%d" % n)
            if d:
                return d
        if len(a) != len(b):
            return "%s: lengths %d vs %d" % (path, len(a), len(b))
        return None
    return None if a == b else "%s: %s vs %s" % (path, sx_str(a)[:80], sx_str(b)[:80])


def judge(ctx, plan, d, label="C03"):
    """compare; violations only when the real outcome contradicts the SPEC"""
    nviol = 0
    for ent in plan:
        key, text = ent["key"], ent["text"]
        nontriv = "lambda" in text or "define" in text
        ctx.count(1, key=text, nontrivial=nontriv)
        replay = "echo 'PROG %s' | LD_LIBRARY_PATH=%s %s/embed_c03 | grep '^[VE] '" % (text.replace("'", "'\\''"), d, d)
        outer_bad = False
        if ent["spec"] is not None:
            spec, impl = ent["spec"], ent["impl"]
            if spec.startswith("ERR") or spec == "OUT" or spec == "E STUCK":
                ctx.note("spec gave no verdict for %s (%s): %s" % (key, spec, text[:200]))
            elif spec != impl:
                outer_bad = True
                nviol += 1
                ctx.violation("eval:" + key.split("#")[0].split("/")[0] + ":" + classify(text),
                              input=text, expected=spec, observed=impl, replay=replay)
            if ent["vm"] != ent["spec"] and not ent["spec"].startswith("ERR") and ent["spec"] not in ("OUT", "E STUCK"):
                ctx.broken("model-compile-correct", "model compiler+VM and SPEC disagree on %s: vm=%s spec=%s" % (text[:300], ent["vm"], ent["spec"]))
        # analyser output vs this file's own analysis (core-only programs give identical trees)
        if ent.get("own") and len(ent["a0"]) == len(ent["own"]) and ent.get("compare_a0", True):
            for a0, own in zip(ent["a0"], ent["own"]):
                try:
                    w = strip_for_a0(wire_ast(sx_parse(a0), ent["names"]))
                except (Unsupported, ValueError, IndexError):
                    continue
                if ent.get("core_only"):
                    df = first_diff(w, strip_for_a0(own))
                    if df and not outer_bad:
                        ctx.broken("correspondence:analyze", "analyser output differs from independent scope resolution on %s at %s" % (text[:300], df))
        for i in ent["inner"]:
            if "a2" not in i:
                ctx.note("outside the modelled fragment (%s): %s" % (i["unsupported"], text[:120]))
                continue
            ctx.cov["traces_validated_against_impl"] += 1
            if i["m_wf"] != "1":
                if not outer_bad:
                    ctx.broken("correspondence:wf", "analyser output violates wf_program (theorem hypothesis) on %s" % text[:300])
                continue
            try:
                ma = sx_parse(i["m_annot"])
                mc = sx_parse(i["m_code"])
            except (ValueError, IndexError):
                ctx.broken("correspondence:model-output", "unparsable model output %s / %s" % (i["m_annot"][:100], i["m_code"][:100]))
                continue
            df = first_diff(ma, i["a2"])
            if df and not outer_bad:
                ctx.broken("correspondence:free-vars", "sexp_free_vars and the model's annotate differ on %s at %s" % (text[:300], df))
            dc = first_diff(mc, i["code"])
            if dc and not outer_bad:
                ent["code_diff"] = dc
                ctx.broken("correspondence:generate", "bytecode differs from the model's generate on %s at %s" % (text[:300], dc),
                           impl_code=sx_str(i["code"])[:1500], model_code=sx_str(mc)[:1500])
    return nviol


def classify(text):
    c = []
    if ". " in text:
        c.append("rest")
    if "set!" in text:
        c.append("set")
    if "define" in text:
        c.append("define")
    return "+".join(c) or "plain"


def targeted_search(ctx, h, exe, d, plan):
    """inner disagreement without an outer one: hunt for a program whose value is wrong
    (variants of the disagreeing programs: more arguments, more nesting, observed twice)"""
    bad = [e for e in plan if e.get("code_diff")]
    if not bad:
        return
    progs = []
    for e in bad[:40]:
        forms = e["forms"]
        progs.append((e["key"] + "#twice", forms[:-1] + [["cons", forms[-1], ["cons", forms[-1], ["quote", []]]]]))
        progs.append((e["key"] + "#wrapped", forms[:-1] + [[["lambda", ["a", "b", "c"], ["cons", "a", ["cons", forms[-1], ["cons", "c", ["quote", []]]]]], 1, 2, 3]]))
    plan2 = check_programs(ctx, h, exe, progs)
    for e, (k, f) in zip(plan2, progs):
        e["forms"] = f
    judge_outer_only(ctx, plan2, d)


def judge_outer_only(ctx, plan, d):
    for ent in plan:
        if ent["spec"] is None:
            continue
        spec, impl = ent["spec"], ent["impl"]
        if spec.startswith("ERR") or spec in ("OUT", "E STUCK"):
            continue
        ctx.count(1, key=ent["text"], nontrivial=True)
        if spec != impl:
            replay = "echo 'PROG %s' | LD_LIBRARY_PATH=%s %s/embed_c03 | grep '^[VE] '" % (ent["text"].replace("'", "'\\''"), d, d)
            ctx.violation("eval:" + ent["key"].split("#")[0].split("/")[0] + ":" + classify(ent["text"]),
                          input=ent["text"], expected=spec, observed=impl, replay=replay)


def load_corpus():
    out = []
    cdir = os.path.join(HERE, "..", "corpus", "C03")
    if os.path.isdir(cdir):
        for f in sorted(os.listdir(cdir)):
            if f.endswith(".json"):
                j = json.load(open(os.path.join(cdir, f)))
                out.append(("corpus:" + f[:-5], j["forms"]))
    return out


def run(ctx):
    ctx.cov["rule"] = ("programs = (a) corpus, (b) fixed call-protocol / error cases, (c) exhaustive capture family: binding kind "
                       "{param 0/1/last, rest with 0/1/3 extra args, internal define 1st/2nd, let} x use {captured read, captured "
                       "write, captured read+write, own write, own write + captured read, shadowed, unused, forward reference} x "
                       "nesting depth 1-4 x {immediate, escaping closure}, (d) seeded random typed programs (pure operands, so "
                       "argument order cannot matter) over core and derived forms; a case is distinct by program text and "
                       "non-trivial when it contains a lambda or define")
    ctx.coq_obligations("Properties_C03")
    partial = False
    try:
        d = ctx.build("default")
    except B.BuildError:
        # the tree's own build runs the freshly built chibi-scheme on its .stub files; a broken compiler makes that
        # step fail.  If the core library was linked, go on with it (core forms only) to find a concrete failing program.
        d = os.path.join(B.SCRATCH, "default-" + B.source_hash())
        if not os.path.exists(os.path.join(d, "libchibi-scheme.so")):
            raise
        partial = True
        ctx.note("build of the tree failed after libchibi-scheme was linked; continued with the core library only")
    exe = ctx.extract("C03")
    if exe is None:
        return
    h = Harness(d)
    rng = ctx.rng
    progs = load_corpus() + [(k, f) for k, f in FIXED_CASES]
    fam = capture_family()
    if not ctx.thorough:
        keep = 320
        fam = [fam[i] for i in sorted(rng.sample(range(len(fam)), min(keep, len(fam))))]
    core_keys = set(k for k, _ in fam) | set(k for k, _ in FIXED_CASES)
    progs += fam
    nrand = 500 if not ctx.thorough else 20000
    for i in range(nrand):
        if partial and i % 2 == 1:
            continue
        g = Gen(rng, derived=(i % 2 == 1))
        progs.append(("rand-%s#%d" % ("derived" if i % 2 else "core", i), g.program(rng.choice([2, 3, 4]))))
    plan = []
    CH = 2500
    for lo in range(0, len(progs), CH):
        part = check_programs(ctx, h, exe, progs[lo:lo + CH])
        for e, (k, f) in zip(part, progs[lo:lo + CH]):
            e["forms"] = f
            e["core_only"] = (k in core_keys and "let" not in k) or k.startswith("rand-core")
        plan += part
        nv = judge(ctx, part, d)
    targeted_search(ctx, h, exe, d, plan)
    dist = {}
    for e in plan:
        c = e["key"].split("#")[0].split("/")[0]
        dist[c] = dist.get(c, 0) + 1
    ctx.cov["generator_distribution"] = dict(by_family=dict(sorted(dist.items(), key=lambda kv: -kv[1])[:30]),
                                             with_rest=sum(1 for e in plan if ". " in e["text"]),
                                             with_set=sum(1 for e in plan if "set!" in e["text"]),
                                             with_internal_define=sum(1 for e in plan if "(define" in e["text"][1:]),
                                             errors_expected=sum(1 for e in plan if (e["spec"] or "").startswith("E ")))
    for e in plan[:1] + plan[len(FIXED_CASES) + 3:len(FIXED_CASES) + 5] + plan[-2:]:
        ctx.sample(dict(program=e["text"][:400], spec=e["spec"], impl=e["impl"],
                        inner_forms=len(e["inner"])))
    ctx.assume("operands of applications are evaluated right to left by the SPEC (R7RS leaves the order open; generated programs have pure operands)")
    ctx.assume("primitives' own semantics on fixnum-sized integers, pairs and symbols are taken from the SPEC table prim_sem; bignum arithmetic is C04")
    ctx.assume("macro expansion is validated per program (outer comparison with this file's R7RS 7.3 desugaring), hygiene is C07")
    ctx.trust("props/C03.py desugarer + scope resolution (independent front end used as the SPEC's input), harness/embed_c03.c AST / bytecode dumper")


def replay(ctx, j):
    """./check C03 --replay evidence/replay/C03-n.json : re-run the recorded failing programs on the current tree"""
    d = ctx.build("default")
    h = Harness(d)
    still = 0
    for c in j.get("failing_cases", []):
        _, ans = h.run(["PROG " + c["input"]])
        out = impl_outcome(ans[0])
        bad = out != c.get("expected")
        still += bad
        print("%s\n   expected %s\n   observed %s   %s" % (c["input"][:500], c.get("expected"), out, "STILL FAILS" if bad else "passes now"))
    for u in j.get("no_longer_checks", []):
        print("no failing input recorded: %s: %s" % (u.get("name"), str(u.get("reason"))[:400]))
        still += 1
    return 1 if still else 0
