"""C03 — compiled evaluation implements the core-language semantics.
   (T) coq/Properties_C03.v
   (K-inner, translation validation) for every generated program the real compiler is asked (harness/embed_c03.c)
       for the analysed AST, the AST sexp_generate saw (params/locals/sv/fv as the C code holds them) and the
       bytecode; the extracted model recomputes the free-variable lists ([annotate]) and the code
       ([compile_toplevel]) from that AST and both must agree exactly; the AST must satisfy [wf_program]
       (the hypothesis of the theorems).
   (K-outer) printed value / error class of the real run vs the SPEC interpreter [eval_program] on the AST this
       file derives from the program text by its own desugaring (R7RS 7.3) and scope resolution.
   (K-inner, rest flag) the real sexp_rest_unused_p of every lambda (harness F line) vs the model's rest_unused.
   Round 2: programs run in a fresh top-level environment each (PROGF); families for top-level define / re-define /
   set! sequences, rest parameters and captured variables in every syntactic position class, forward references to later
   internal defines / letrec bindings, closure chains, derived-form scoping cases, variadic arithmetic / comparison chains,
   apply / values / quasiquote (SPEC-side emulations); inner disagreement => targeted failing-input search over the
   families in full; every violation is shrunk; the partially built tree is used when the tree's own build breaks.
   Round 3: literal NODES vs bare immediates / objects (harness request PROGQ, model lit constructors LNode / LOpaque, this
   file's analysis of quote); constants family (every constant spelling x every position class x context), operand
   evaluation family, tail-call argument-copy family; per-request watchdog (harness request LIMIT) so that a program sent
   into a loop by a broken compiler costs 10 s, not the batch timeout.
   Shared with props/C05.py: s-expression tools, the harness runner, the surface language (Gen, Harness, wire_ast keep
   their behaviour on PROG output)."""
import os, re, subprocess, json
from vlib import build as B

HERE = os.path.dirname(os.path.abspath(__file__))
HARNESS = os.path.join(HERE, "..", "harness", "embed_c03.c")
PRIMS = {"+": 2, "-": 2, "*": 2, "<": 2, "<=": 2, ">": 2, ">=": 2, "=": 2, "eq?": 2, "cons": 2,
         "car": 1, "cdr": 1, "null?": 1, "pair?": 1}       # `not` is an ordinary procedure in chibi (init-7.scm)
FUEL = 3000

# ------------------------------------------------------------------ s-expressions

TOK = re.compile(r'\s*(\(|\)|"(?:\\.|[^"\\])*"|[^\s()"]+)')


def sx_parse_all(s):
    toks = TOK.findall(s)
    pos = 0

    def one():
        nonlocal pos
        t = toks[pos]
        pos += 1
        if t == "(":
            l = []
            while toks[pos] != ")":
                l.append(one())
            pos += 1
            return l
        if t == ")":
            raise ValueError("unexpected )")
        return t
    out = []
    while pos < len(toks):
        out.append(one())
    return out


def sx_parse(s):
    r = sx_parse_all(s)
    if len(r) != 1:
        raise ValueError("expected one s-expression")
    return r[0]


def sx_str(x):
    if isinstance(x, list):
        return "(" + " ".join(sx_str(y) for y in x) + ")"
    return str(x)


class Names:
    """symbol <-> number; the model's variables and symbols are numbered"""
    def __init__(self):
        self.ids, self.rev = {}, []

    def id(self, s):
        if s not in self.ids:
            self.ids[s] = len(self.rev)
            self.rev.append(s)
        return self.ids[s]

    def name(self, i):
        return self.rev[i] if 0 <= i < len(self.rev) else "?%d" % i

    def opq(self, text):
        """number of an uninterpreted constant (string, char, flonum, bignum, vector, quoted pair), by its written form"""
        if not hasattr(self, "oids"):
            self.oids, self.otext = {}, []
        k = opq_key(text)
        if k not in self.oids:
            self.oids[k] = len(self.otext)
            self.otext.append(text)
        return self.oids[k]

    def opq_text(self, i):
        t = getattr(self, "otext", [])
        return t[i] if 0 <= i < len(t) else "?opq%d" % i


def QNames():
    """Names for C03's own requests: uninterpreted constants are numbered instead of refused"""
    n = Names()
    n.opaque_ok = True
    return n


def opq_key(text):
    """written form of a constant, insensitive to how the s-expression tools split it"""
    try:
        return " ".join(sx_str(y) for y in sx_parse_all(text))
    except (ValueError, IndexError):
        return text


class Const:
    """a constant of the surface language that the model does not interpret (string, character, flonum, bignum, vector):
    `text` is its Scheme spelling, which is also how `write` prints it"""
    def __init__(self, text):
        self.text = text

    def __repr__(self):
        return "Const(%r)" % self.text

    def __eq__(self, o):
        return isinstance(o, Const) and o.text == self.text

    def __hash__(self):
        return hash(self.text)

    def immediate(self):
        return self.text.startswith("#\\")          # characters are immediates; the others are heap objects


class Unsupported(Exception):
    pass


def wire_lit(l, names):
    k = l[0]
    if k in ("int", "bool"):
        return [k, l[1]]
    if k in ("nil", "void", "undef"):
        return [k]
    if k == "sym":
        return ["sym", str(names.id(l[1]))]
    if k == "node":                                      # a SEXP_LIT node (harness PROGQ / this file's analysis of quote)
        if l[1][0] == "node":
            raise Unsupported("nested literal node")
        return ["node", wire_lit(l[1], names)]
    if k == "other":                                     # uninterpreted constant, identified by its written form
        if not getattr(names, "opaque_ok", False):       # props/C05.py (its driver has no opaque constants): as before
            raise Unsupported("literal " + sx_str(l))
        if str(l[1]).startswith("#<"):
            raise Unsupported("unwritable object " + sx_str(l)[:40])      # e.g. a syntactic closure as the name of a box
        return ["opq", str(names.opq(" ".join(sx_str(y) for y in l[1:])))]
    raise Unsupported("literal " + sx_str(l))


def raw_object_lit(a):
    """(lit (other X)) that is neither a node nor an immediate: a string / flonum / bignum / vector standing bare in the AST"""
    return (isinstance(a, list) and len(a) == 2 and a[0] == "lit" and isinstance(a[1], list) and a[1] and a[1][0] == "other"
            and not str(a[1][1]).startswith("#\\"))


def wire_ast(a, names):
    """harness AST (symbols by name) -> model wire format (numbers); raises Unsupported"""
    k = a[0]
    if k == "lit":
        return ["lit", wire_lit(a[1], names)]
    if k == "ref":
        return ["ref", str(names.id(a[1])), a[2]]
    if k == "set":
        return ["set", str(names.id(a[1])), a[2], wire_ast(a[3], names)]
    if k == "cnd":
        return ["cnd"] + [wire_ast(x, names) for x in a[1:4]]
    if k == "seq":
        # vm.c:238 generate_seq skips a non-final element unless it is a pointer that is not a literal NODE: a bare string /
        # flonum / bignum / vector there is generated and DROPped, where the model (is_lit, shared with C05's proofs) skips it
        if any(raw_object_lit(x) for x in a[1:-1]):
            raise Unsupported("bare constant object as a non-final sequence element")
        return ["seq"] + [wire_ast(x, names) for x in a[1:]]
    if k == "lam":
        _, lid, ps, rest, ls, sv, fv, body = a
        return ["lam", lid, [str(names.id(p)) for p in ps], "#f" if rest == "#f" else str(names.id(rest)),
                [str(names.id(p)) for p in ls], [str(names.id(p)) for p in sv],
                [[str(names.id(n)), o] for n, o in fv], wire_ast(body, names)]
    if k == "app":
        return ["app"] + [wire_ast(x, names) for x in a[1:]]
    if k == "op":
        op = a[1].strip('"')
        if op not in PRIMS:
            raise Unsupported("primitive " + op)
        if len(a) - 2 != PRIMS[op]:
            raise Unsupported("n-ary application of " + op)      # folded arithmetic / comparison chains: outer comparison only
        return ["op", op] + [wire_ast(x, names) for x in a[2:]]
    raise Unsupported("node " + str(k))


OPMAP = {"ADD": "ADD", "SUB": "SUB", "MUL": "MUL", "LT": "LT", "LE": "LE", "EQN": "EQN", "EQ": "EQ", "CONS": "CONS",
         "CAR": "CAR", "CDR": "CDR", "NULL?": "NULL?", "NOT": "NOT", "SET-CDR": "SET-CDR", "MAKE-VECTOR": "MAKE-VECTOR",
         "VECTOR-SET": "VECTOR-SET", "DROP": "DROP", "RET": "RET", "DONE": "DONE"}


def wire_code(c, names, pair_type):
    """harness (code len (off NAME args..)..) -> the model's printed form; jumps become instruction counts"""
    if c[0] != "code":
        raise Unsupported("code " + sx_str(c)[:60])
    ins = c[2:]
    # vm.c:325-329: a set! of a global that is still unbound when the code is generated is preceded by GLOBAL-REF x; DROP
    # (forces the undefined-variable error at run time).  The model AST has no "bound at compile time" bit; the pair is
    # removed here and the generated programs never assign an unbound global.
    drop = set()
    for n in range(len(ins) - 3):
        a, b, c2, e = ins[n:n + 4]
        if (a[1] in ("GLOBAL-REF", "GLOBAL-KNOWN-REF") and b[1] == "DROP" and c2[1] == "PUSH" and isinstance(c2[2], list)
                and c2[2][0] == "cell" and c2[2][1] == a[2] and e[1] == "SET-CDR"):
            drop |= {n, n + 1}
    index_of, k = {}, 0
    for n, i in enumerate(ins):
        index_of[int(i[0])] = k
        if n not in drop:
            k += 1
    index_of[int(c[1])] = k
    ins = [i for n, i in enumerate(ins) if n not in drop]
    out = ["code"]
    for n, i in enumerate(ins):
        off, op, args = int(i[0]), i[1], i[2:]
        if op in ("JUMP", "JUMP-UNLESS"):
            target = off + 1 + int(args[0])
            if target not in index_of:
                raise Unsupported("jump into the middle of an instruction")
            out.append([op, str(index_of[target] - (n + 1))])
        elif op == "PUSH":
            a = args[0]
            if a[0] == "proc":
                out.append(["PUSH", ["proc", a[1], a[2], wire_code(a[3], names, pair_type)]])
            elif a[0] == "cell":
                out.append(["PUSH", ["cell", str(names.id(a[1]))]])
            else:
                out.append(["PUSH", wire_lit(a, names)])
        elif op == "MAKE-PROCEDURE":
            out.append([op, args[0], args[1], wire_code(args[2], names, pair_type)])
        elif op in ("GLOBAL-REF", "GLOBAL-KNOWN-REF"):
            out.append(["GLOBAL-REF", str(names.id(args[0]))])
        elif op in ("LOCAL-REF", "LOCAL-SET", "CLOSURE-REF", "STACK-REF", "CALL", "TAIL-CALL"):
            out.append([op, args[0]])
        elif op == "TYPEP":
            if int(args[0]) != pair_type:
                raise Unsupported("TYPEP %s" % args[0])
            out.append(["PAIR?"])
        elif op in OPMAP and not args:
            out.append([OPMAP[op]])
        else:
            raise Unsupported("opcode " + op)
    return out


# ------------------------------------------------------------------ the harness

class Harness:
    def __init__(self, d, limit=None):
        """limit: per-request watchdog in seconds (harness request LIMIT); None = no watchdog (props/C05.py)"""
        self.d = d
        self.limit = limit
        self.exe = B.cc_embed(d, HARNESS, os.path.join(d, "embed_c03"), extra=["-I" + d])

    def run(self, lines, timeout=None, extra_env=None):
        """lines: requests.  Returns (header dict, list of per-request dict(lines=[(tag, text)], crashed=bool))"""
        if not lines:
            return {}, []
        prefix = ["LIMIT %d" % self.limit] if self.limit else []
        tmo = timeout if timeout else 60 + 0.2 * len(lines)
        try:
            r = subprocess.run([self.exe], input="\n".join(prefix + lines) + "\n", capture_output=True, text=True,
                               env=B.chibi_env(self.d, extra_env), timeout=tmo)
            stdout, rc, stderr = r.stdout, r.returncode, r.stderr
        except subprocess.TimeoutExpired as e:
            stdout = e.stdout.decode(errors="replace") if isinstance(e.stdout, bytes) else (e.stdout or "")
            rc, stderr = "TIMEOUT", "no answer within %ds" % tmo
        hdr, res = self._parse(stdout)
        res = res[len(prefix):]
        if len(res) < len(lines):
            # the request after the last complete answer killed (or hung) the process: record it, restart for the rest
            res.append(dict(lines=[], crashed=True, rc=rc, stderr=(stderr or "")[-400:]))
            if len(res) < len(lines):
                hdr2, more = self.run(lines[len(res):], timeout=timeout, extra_env=extra_env)
                res += more
                hdr = hdr or hdr2
        return hdr, res

    @staticmethod
    def _parse(stdout):
        out = stdout.split("\n")
        hdr = {}
        while out and not out[0].startswith("READY"):
            out = out[1:]
        if out and out[0].startswith("READY"):
            for kv in out[0].split()[1:]:
                k, v = kv.split("=")
                hdr[k] = int(v)
            out = out[1:]
        res, cur = [], []
        for l in out:
            if l == "END":
                res.append(dict(lines=cur, crashed=False))
                cur = []
            elif l:
                sp = l.find(" ")
                cur.append((l[:sp], l[sp + 1:]) if sp > 0 else (l, ""))
        return hdr, res


ERRCLASS = [("not enough args", "not-enough-args"), ("too many args", "too-many-args"),
            ("non procedure application", "not-procedure"), ("undefined variable", "undefined-variable"),
            ("not a pair", "type"), ("not a number", "type"), ("invalid type", "type"), ("out-of-stack", "out-of-stack")]


def impl_outcome(req):
    """canonical outcome of a harness answer: 'V text' | 'E class' | 'CRASH ..'"""
    if req["crashed"]:
        if req.get("rc") == 3:
            return "CRASH rc=3 (watchdog: no answer within the per-request time limit)"
        return "CRASH rc=%s %s" % (req.get("rc"), req.get("stderr", "")[-200:])
    for tag, text in reversed(req["lines"]):
        if tag == "V":
            return "V " + re.sub(r"#<procedure[^>]*>", "#<procedure>", text)
        if tag == "E":
            for pat, cls in ERRCLASS:
                if pat in text:
                    return "E " + cls
            return "E other:" + text[:80]
    return "CRASH no-result"


# ------------------------------------------------------------------ surface language -> core AST (independent of chibi)

UNDEF = object()
_fresh = [0]


def fresh(prefix):
    _fresh[0] += 1
    return "%%%s%d" % (prefix, _fresh[0])


def scm(x):
    """surface tree -> Scheme text"""
    if isinstance(x, list):
        return "(" + " ".join(scm(y) for y in x) + ")"
    if x is True:
        return "#t"
    if x is False:
        return "#f"
    if isinstance(x, Const):
        return x.text
    return str(x)


def desugar(x):
    """derived forms of R7RS 7.3 -> lambda / if / set! / begin / define / quote / application"""
    if not isinstance(x, list) or not x:
        return x
    h = x[0]
    if h == "quote":
        return x
    if h == "let":
        if isinstance(x[1], str):                      # named let
            tag, bs, body = x[1], x[2], x[3:]
            return desugar([["letrec", [[tag, ["lambda", [b[0] for b in bs]] + body]], tag]] + [b[1] for b in bs])
        bs, body = x[1], x[2:]
        return [["lambda", [b[0] for b in bs]] + [desugar(b) for b in splice_define_values(body)]] + [desugar(b[1]) for b in bs]
    if h == "let*":
        bs, body = x[1], x[2:]
        if not bs:
            return desugar(["let", []] + body)
        return desugar(["let", [bs[0]], ["let*", bs[1:]] + body])
    if h in ("letrec", "letrec*"):
        bs, body = x[1], x[2:]
        return [["lambda", [b[0] for b in bs]] + [["set!", b[0], desugar(b[1])] for b in bs]
                + [desugar(["let", []] + body)]] + [UNDEF for b in bs]
    if h == "do":
        specs, (test, *res), cmds = x[1], x[2], x[3:]
        loop = fresh("do")
        step = [s[2] if len(s) > 2 else s[0] for s in specs]
        return desugar(["letrec", [[loop, ["lambda", [s[0] for s in specs],
                                          ["if", test, ["begin"] + (res or [["if", False, False]]),
                                           ["begin"] + cmds + [[loop] + step]]]]],
                        [loop] + [s[1] for s in specs]])
    if h == "cond":
        cl = x[1]
        if cl[0] == "else":
            return desugar(["begin"] + cl[1:])
        rest = ["cond"] + x[2:] if len(x) > 2 else ["if", False, False]
        if len(cl) == 1:
            return desugar(["or", cl[0], rest])
        if len(cl) == 3 and cl[1] == "=>":                  # (test => receiver): test once, receiver only when true
            t = fresh("ct")
            return desugar(["let", [[t, cl[0]]], ["if", t, [cl[2], t], rest]])
        return ["if", desugar(cl[0]), desugar(["begin"] + cl[1:]), desugar(rest)]
    if h == "case":
        k = fresh("key")
        clauses = []
        for cl in x[2:]:
            body = [[cl[2], k]] if len(cl) == 3 and cl[1] == "=>" else cl[1:]      # (=> receiver): applied to the KEY
            if cl[0] == "else":
                clauses.append(["else"] + body)
            else:
                t = False
                for d in reversed(cl[0]):
                    t = ["if", ["eq?", k, ["quote", d]], True, t]
                clauses.append([t] + body)
        return desugar(["let", [[k, x[1]]], ["cond"] + clauses])
    if h == "and":
        if len(x) == 1:
            return True
        if len(x) == 2:
            return desugar(x[1])
        return ["if", desugar(x[1]), desugar(["and"] + x[2:]), False]
    if h == "or":
        if len(x) == 1:
            return False
        if len(x) == 2:
            return desugar(x[1])
        t = fresh("or")
        return desugar(["let", [[t, x[1]]], ["if", t, t, ["or"] + x[2:]]])
    if h == "when":
        return ["if", desugar(x[1]), desugar(["begin"] + x[2:])]
    if h == "unless":
        return ["if", desugar(x[1]), ["if", False, False], desugar(["begin"] + x[2:])]
    if h == "apply" and len(x) >= 3:
        # SPEC side of `apply`: the argument list is spread by a 5-way dispatch on its length (APPLY_DEF, prepended to the
        # SPEC's program only); exact for lists of at most 4 elements, which is all the generators build
        l = desugar(x[-1])
        for a in reversed(x[2:-1]):
            l = ["cons", desugar(a), l]
        return ["%apply", desugar(x[1]), l]
    if h in ("+", "*", "-") and len(x) != 3:
        # SPEC side of variadic arithmetic (R7RS 6.2.6): left fold; (+) = 0, (*) = 1, (- a) = 0 - a
        args = [desugar(a) for a in x[1:]]
        if not args:
            if h == "-":
                raise Unsupported("(-) without arguments")
            return 0 if h == "+" else 1
        if len(args) == 1:
            return ["-", 0, args[0]] if h == "-" else [h, 0 if h == "+" else 1, args[0]]
        acc = [h, args[0], args[1]]
        for a in args[2:]:
            acc = [h, acc, a]
        return acc
    if h in ("<", "<=", ">", ">=", "=") and len(x) > 3:
        # SPEC side of comparison chains: every adjacent pair (operands are variables / literals in the generated programs)
        args = [desugar(a) for a in x[1:]]
        out = [h, args[-2], args[-1]]
        for i in range(len(args) - 3, -1, -1):
            out = ["if", [h, args[i], args[i + 1]], out, False]
        return out
    if h == "quasiquote" and len(x) == 2:
        return qq(x[1])
    if h == "values":
        # SPEC side of multiple values: one value is itself; otherwise a tagged list that only call-with-values opens
        # (generated programs never return or inspect multiple values in any other way)
        if len(x) == 2:
            return desugar(x[1])
        l = ["quote", []]
        for a in reversed(x[1:]):
            l = ["cons", desugar(a), l]
        return ["cons", ["quote", "%mv"], l]
    if h == "call-with-values" and len(x) == 3:
        r = fresh("mv")
        return [["lambda", [r], ["if", ["if", ["pair?", r], ["eq?", ["car", r], ["quote", "%mv"]], False],
                                 ["%apply", desugar(x[2]), ["cdr", r]], [desugar(x[2]), r]]], [desugar(x[1])]]
    if h == "let-values":
        # R7RS 7.3 / SRFI 11: every init is evaluated OUTSIDE the scope of all the variables; formals of any lambda shape.
        # The values are received into fresh temporaries first, the variables are bound together at the end.
        bs, body = x[1], x[2:]
        m = {}
        for fm, _ in bs:
            for v in formals_vars(fm):
                m[v] = fresh("lv")
        allv = [v for fm, _ in bs for v in formals_vars(fm)]
        inner = [["lambda", allv] + body] + [m[v] for v in allv]
        for fm, e in reversed(bs):
            inner = ["call-with-values", ["lambda", [], e], ["lambda", rename_formals(fm, m), inner]]
        return desugar(inner)
    if h == "let*-values":
        bs, body = x[1], x[2:]
        if not bs:
            return desugar(["let", []] + body)
        return desugar(["let-values", [bs[0]], ["let*-values", bs[1:]] + body])
    if h == "lambda":
        return ["lambda", x[1]] + [desugar(b) for b in splice_define_values(x[2:])]
    if h == "define":
        return ["define", x[1]] + [desugar(b) for b in (splice_define_values(x[2:]) if isinstance(x[1], list) else x[2:])]
    return [desugar(y) for y in x]


def formals_vars(f):
    return [f] if isinstance(f, str) else [v for v in f if v != "."]


def rename_formals(f, m):
    return m[f] if isinstance(f, str) else [v if v == "." else m[v] for v in f]


def splice_define_values(forms):
    """R7RS 5.3.3: (define-values formals e) = e evaluated once, the variables defined in order; SPEC side: the values are
    received as a list into a fresh variable and taken apart (the real macro, lib/scheme/define-values.scm, stores the list in
    the first variable and destructively unlinks it)"""
    out = []
    for f in forms:
        if isinstance(f, list) and f and f[0] == "define-values":
            fm, e = f[1], f[2]
            t = fresh("dv")
            out.append(["define", t, ["call-with-values", ["lambda", [], e], ["lambda", "%dvargs", "%dvargs"]]])
            cur = t
            if isinstance(fm, str):
                out.append(["define", fm, t])
                continue
            i = 0
            while i < len(fm):
                if fm[i] == ".":
                    out.append(["define", fm[i + 1], cur])
                    break
                out.append(["define", fm[i], ["car", cur]])
                cur = ["cdr", cur]
                i += 1
        else:
            out.append(f)
    return out


def qq(t):
    """R7RS 4.2.8, nesting level 1, lists only: the template as cons / %append (APPEND_DEF, SPEC side only) calls"""
    if not isinstance(t, list):
        return ["quote", t] if isinstance(t, str) else t
    if not t:
        return ["quote", []]
    if t[0] == "unquote" and len(t) == 2:
        return desugar(t[1])
    if t[0] in ("quasiquote", "unquote-splicing"):
        raise Unsupported("nested quasiquote / splicing outside a list")
    if "." in t:
        i = t.index(".")
        out = qq(t[i + 1])
        t = t[:i]
    else:
        out = ["quote", []]
    for el in reversed(t):
        if isinstance(el, list) and el and el[0] == "unquote-splicing":
            out = ["%append", desugar(el[1]), out]
        else:
            out = ["cons", qq(el), out]
    return out


APPEND_DEF = ["define", ["%append", "a", "b"], ["if", ["pair?", "a"], ["cons", ["car", "a"], ["%append", ["cdr", "a"], "b"]], "b"]]


class LamObj:
    def __init__(self, params, rest):
        self.params, self.rest, self.locals, self.sv, self.body, self.id = params, rest, [], [], None, None

    def frame(self):
        return self.params + ([self.rest] if self.rest else []) + self.locals


def split_params(ps):
    if isinstance(ps, str):
        return [], ps
    if "." in ps:
        i = ps.index(".")
        return ps[:i], ps[i + 1]
    return list(ps), None


def analyze(x, env, user_globals):
    """core surface -> tree of tuples with LamObj owners.  env: list of LamObj, innermost first."""
    def lookup(n):
        for l in env:
            if n in l.frame():
                return l
        return None
    if x is UNDEF:
        return ("lit", ["undef"])
    if x is True or x is False:
        return ("lit", ["bool", "1" if x else "0"])
    if isinstance(x, int):
        return ("lit", ["int", str(x)])
    if isinstance(x, Const):
        return ("lit", ["other", x.text])                # self-evaluating: stands bare in the AST (eval.c:1229-1234)
    if isinstance(x, str):
        return ("ref", x, lookup(x))
    h = x[0]
    if h == "quote":
        # eval.c:1151-1160: (quote d) is ALWAYS a literal node, also for #f, (), 0 ...; a bare #f is the immediate
        return quoted(x[1])
    if isinstance(h, str) and lookup(h) is None and h not in user_globals:
        if h == "if":
            return ("cnd", analyze(x[1], env, user_globals), analyze(x[2], env, user_globals),
                    analyze(x[3], env, user_globals) if len(x) > 3 else ("lit", ["void"]))
        if h == "set!":
            o = lookup(x[1])
            if o is not None and x[1] not in o.sv:
                o.sv.append(x[1])
            return ("set", x[1], o, analyze(x[2], env, user_globals))
        if h == "begin":
            return analyze_seq(x[1:], env, user_globals)
        if h == "lambda":
            ps, rest = split_params(x[1])
            l = LamObj(ps, rest)
            body, defs = [], []
            bforms = []
            for f in x[2:]:                                   # R7RS 5.3.2 / 4.2.3: a begin of definitions in a body is spliced
                if isinstance(f, list) and f and f[0] == "begin" and any(isinstance(g, list) and g and g[0] == "define" for g in f[1:]):
                    bforms += f[1:]
                else:
                    bforms.append(f)
            for f in bforms:
                if isinstance(f, list) and f and f[0] == "define" and not any("define" in e.frame() for e in [l] + env):
                    if isinstance(f[1], list):
                        name, val = f[1][0], ["lambda", f[1][1:]] + f[2:]
                    else:
                        name, val = f[1], f[2]
                    l.locals.insert(0, name)          # sexp_push
                    defs.append((name, val))
                    body.append(("lit", ["void"]))
                else:
                    body.append(f)
            env2 = [l] + env
            body = [b if isinstance(b, tuple) else analyze(b, env2, user_globals) for b in body]
            sets = []
            for name, val in defs:
                sets.append(("set", name, l, analyze(val, env2, user_globals)))
                if name not in l.sv:
                    l.sv.append(name)
            allb = sets + body
            l.body = allb[0] if len(allb) == 1 else ("seq", allb)
            return ("lam", l)
        if h in PRIMS and len(x) - 1 == PRIMS[h]:
            return ("op", h, [analyze(a, env, user_globals) for a in x[1:]])
    return ("app", analyze(h, env, user_globals), [analyze(a, env, user_globals) for a in x[1:]])


def quoted(d):
    """SPEC-side meaning of (quote d): an atom is a literal node; a pair is built from its quoted parts (pairs are immutable
    and eq? is never asked about them, so a fresh pair per evaluation is not observable)"""
    if d == []:
        return ("lit", ["node", ["nil"]])
    if isinstance(d, bool):
        return ("lit", ["node", ["bool", "1" if d else "0"]])
    if isinstance(d, int):
        return ("lit", ["node", ["int", str(d)]])
    if isinstance(d, Const):
        return ("lit", ["node", ["other", d.text]])
    if isinstance(d, str):
        return ("lit", ["node", ["sym", d]])
    if isinstance(d, list):
        if "." in d:
            i = d.index(".")
            out, d = quoted(d[i + 1]), d[:i]
        else:
            out = quoted([])
        for el in reversed(d):
            out = ("op", "cons", [quoted(el), out])
        return out
    raise Unsupported("quoted datum")


def has_quoted_pair(x):
    if isinstance(x, list):
        if len(x) == 2 and x[0] == "quote":
            return isinstance(x[1], list) and bool(x[1])
        return any(has_quoted_pair(y) for y in x)
    return False


def analyze_seq(forms, env, ug):
    if not forms:
        return ("lit", ["void"])
    if len(forms) == 1:
        return analyze(forms[0], env, ug)
    return ("seq", [analyze(f, env, ug) for f in forms])


def analyze_toplevel(form, user_globals):
    if isinstance(form, list) and form and form[0] == "define":
        if isinstance(form[1], list):
            name, val = form[1][0], ["lambda", form[1][1:]] + form[2:]
        else:
            name, val = form[1], form[2]
        user_globals.add(name)
        return ("set", name, None, analyze(val, [], user_globals))
    return analyze(form, [], user_globals)


def number_lambdas(t, counter):
    k = t[0]
    if k == "lam":
        t[1].id = counter[0]
        counter[0] += 1
        number_lambdas(t[1].body, counter)
    elif k == "set":
        number_lambdas(t[3], counter)
    elif k == "cnd":
        for y in t[1:4]:
            number_lambdas(y, counter)
    elif k == "seq":
        for y in t[1]:
            number_lambdas(y, counter)
    elif k == "app":
        number_lambdas(t[1], counter)
        for y in t[2]:
            number_lambdas(y, counter)
    elif k == "op":
        for y in t[2]:
            number_lambdas(y, counter)


def tree_wire(t, names, sort_sv=False):
    k = t[0]
    own = lambda o: "g" if o is None else str(o.id)
    if k == "lit":
        return ["lit", wire_lit(t[1], names)]
    if k == "ref":
        return ["ref", str(names.id(t[1])), own(t[2])]
    if k == "set":
        return ["set", str(names.id(t[1])), own(t[2]), tree_wire(t[3], names, sort_sv)]
    if k == "cnd":
        return ["cnd"] + [tree_wire(y, names, sort_sv) for y in t[1:4]]
    if k == "seq":
        return ["seq"] + [tree_wire(y, names, sort_sv) for y in t[1]]
    if k == "lam":
        l = t[1]
        sv = [str(names.id(p)) for p in l.sv]
        return ["lam", str(l.id), [str(names.id(p)) for p in l.params], str(names.id(l.rest)) if l.rest else "#f",
                [str(names.id(p)) for p in l.locals], sorted(sv) if sort_sv else sv, [], tree_wire(l.body, names, sort_sv)]
    if k == "app":
        return ["app", tree_wire(t[1], names, sort_sv)] + [tree_wire(y, names, sort_sv) for y in t[2]]
    if k == "op":
        return ["op", t[1]] + [tree_wire(y, names, sort_sv) for y in t[2]]
    raise Unsupported(k)


def strip_for_a0(w):
    """A0 comparison: sv as a set, fv ignored"""
    if not isinstance(w, list):
        return w
    if w and w[0] == "lam":
        return ["lam", w[1], w[2], w[3], w[4], sorted(w[5]), [], strip_for_a0(w[7])]
    return [strip_for_a0(y) for y in w]


def _nth(l, n):
    for _ in range(n):
        l = ["cdr", l]
    return ["car", l]


def _apply_def():
    body = ["f"] + [_nth("l", i) for i in range(4)]
    for n in (3, 2, 1, 0):
        t = "l"
        for _ in range(n):
            t = ["cdr", t]
        body = ["if", ["null?", t], ["f"] + [_nth("l", i) for i in range(n)], body]
    return ["define", ["%apply", "f", "l"], body]


APPLY_DEF = _apply_def()


def uses_apply(x):
    return isinstance(x, list) and (bool(x) and x[0] in ("apply", "call-with-values", "let-values", "let*-values", "define-values") or any(uses_apply(y) for y in x))


def uses_head(x, h):
    return isinstance(x, list) and (bool(x) and x[0] == h or any(uses_head(y, h) for y in x))


def program_to_model(forms, names):
    """surface program -> list of wire ASTs (one per top-level form), by this file's own desugaring + analysis"""
    ug, out = set(), []
    flat = ([APPLY_DEF] if uses_apply(forms) else []) + ([APPEND_DEF] if uses_head(forms, "unquote-splicing") else [])
    for f in forms:                                        # R7RS 5.1: a top-level begin is spliced
        if isinstance(f, list) and f and f[0] == "begin" and len(f) > 1:
            flat += f[1:]
        else:
            flat.append(f)
    for f in splice_define_values(flat):
        t = analyze_toplevel(desugar(f), ug)
        number_lambdas(t, [0])
        out.append(tree_wire(t, names))
    return out


def model_value_to_text(s, names):
    s = re.sub(r"opq:(\d+);", lambda m: names.opq_text(int(m.group(1))), s)
    return re.sub(r"sym:(\d+)", lambda m: names.name(int(m.group(1))), s)


# ------------------------------------------------------------------ generators

class Gen:
    """typed random programs: operands are always pure (no set!, no call of an effectful procedure), so the
    value does not depend on the order of argument evaluation; loops count down from small literals."""
    def __init__(self, rng, derived=True):
        self.rng, self.derived, self.n = rng, derived, 0

    def var(self, p="v"):
        self.n += 1
        return "%s%d" % (p, self.n)

    @staticmethod
    def fz(env):
        """environment for an operand position: nothing may be assigned, only pure procedures may be called"""
        return [(n, t, False) for n, t, m in env if not (isinstance(t, tuple) and not t[2])]

    def pick(self, env, ty, mutable=None):
        c = [n for n, t, m in env if t == ty and (mutable is None or m == mutable)]
        return self.rng.choice(c) if c else None

    def int_(self, env, d):
        r, v = self.rng, self.pick(env, "int")
        k = r.random()
        if d <= 0 or k < 0.25:
            return v if v and r.random() < 0.7 else r.randrange(-3, 10)
        if k < 0.55:
            return [r.choice(["+", "-", "+", "*"]), self.int_(self.fz(env), d - 1), self.int_(self.fz(env), d - 2)]
        if k < 0.65:
            return ["if", self.bool_(env, d - 1), self.int_(env, d - 1), self.int_(env, d - 1)]
        if k < 0.75:
            l = self.list_(self.fz(env), d - 1)
            t = self.var("t")
            return [["lambda", [t], ["if", ["pair?", t], ["car", t], 0]], l]
        if k < 0.9:
            return self.call(env, d - 1, "int")
        if self.derived:
            return self.derived_int(env, d - 1)
        return self.call(env, d - 1, "int")

    def bool_(self, env, d):
        r = self.rng
        k = r.random()
        if d <= 0 or k < 0.15:
            return r.choice([True, False])
        if k < 0.6:
            return [r.choice(["<", "<=", ">", ">=", "="]), self.int_(self.fz(env), d - 1), self.int_(self.fz(env), d - 1)]
        if k < 0.7:
            return ["if", self.bool_(env, d - 1), False, True]
        if k < 0.8:
            return [r.choice(["null?", "pair?"]), self.list_(self.fz(env), d - 1)]
        if k < 0.9:
            return ["eq?", ["quote", r.choice(["a", "b"])], ["quote", r.choice(["a", "b"])]]
        if self.derived:
            return [r.choice(["and", "or"])] + [self.bool_(env, d - 1) for _ in range(r.randrange(0, 4))]
        return ["if", self.bool_(env, d - 1), False, True]

    def list_(self, env, d):
        r, v = self.rng, self.pick(env, "list")
        k = r.random()
        if d <= 0 or k < 0.3:
            return v if v and r.random() < 0.7 else ["quote", []]
        if k < 0.7:
            return ["cons", self.int_(self.fz(env), d - 1), self.list_(self.fz(env), d - 1)]
        if k < 0.8:
            t = self.var("t")
            return [["lambda", [t], ["if", ["pair?", t], ["cdr", t], t]], self.list_(self.fz(env), d - 1)]
        if k < 0.9:
            return ["if", self.bool_(env, d - 1), self.list_(env, d - 1), self.list_(env, d - 1)]
        return self.call(env, d - 1, "list")

    def expr(self, env, d, ty):
        return {"int": self.int_, "bool": self.bool_, "list": self.list_}[ty](env, d)

    def call(self, env, d, ty):
        """application of a lambda expression (fixed or rest parameters) to pure operands; the body may have
        internal defines, assignments to any mutable variable in scope, and nested closures"""
        r = self.rng
        nfix = r.randrange(0, 3)
        ps = [(self.var(), r.choice(["int", "int", "list"])) for _ in range(nfix)]
        rest = self.var("r") if r.random() < 0.3 else None
        nextra = r.randrange(0, 3) if rest else 0
        args = [self.expr(self.fz(env), d - 1, t) for _, t in ps] + [self.int_(self.fz(env), d - 1) for _ in range(nextra)]
        env2 = [(n, t, True) for n, t in ps] + ([(rest, "list", True)] if rest else []) + env
        body = self.body(env2, d, ty)
        params = [n for n, _ in ps] + ([".", rest] if rest else [])
        if rest and not ps:
            params = rest
        return [["lambda", params] + body] + args

    def body(self, env, d, ty):
        r = self.rng
        forms = []
        env = list(env)
        for _ in range(r.choice([0, 0, 1, 2]) if d > 0 else 0):      # internal defines
            if r.random() < 0.5:
                n, t = self.var("d"), r.choice(["int", "list"])
                forms.append(["define", n, self.expr(self.fz(env), d - 1, t)])
                env.insert(0, (n, t, True))
            else:                                                        # a local procedure closing over env
                n, p = self.var("f"), self.var()
                rt = r.choice(["int", "list"])
                pure = r.random() < 0.5
                forms.append(["define", [n, p]] + self.body([(p, "int", True)] + (self.fz(env) if pure else env), d - 1, rt))
                env.insert(0, (n, ("fn", rt, pure), False))
        for _ in range(r.choice([0, 1, 1, 2]) if d > 0 else 0):          # statements
            forms.append(self.stmt(env, d - 1))
        fs = [n for n, t, m in env if isinstance(t, tuple) and t[1] == ty]
        if fs and r.random() < 0.5:
            forms.append([r.choice(fs), self.int_pure(self.fz(env), d - 1)])
        else:
            forms.append(self.expr(env, d - 1, ty))
        return forms

    def int_pure(self, env, d):
        return self.int_(env, min(d, 1))

    def stmt(self, env, d):
        r = self.rng
        v = self.pick(env, "int", True)
        l = self.pick(env, "list", True)
        k = r.random()
        if v and k < 0.4:
            return ["set!", v, self.int_(env, d)]
        if l and k < 0.6:
            return ["set!", l, self.list_(env, d)]
        if v and k < 0.75:                                              # a closure that mutates, called twice
            f, p = self.var("m"), self.var()
            return [["lambda", [f], [f, 1], [f, self.int_pure(self.fz(env), d)]],
                    ["lambda", [p], ["set!", v, ["+", v, p]]]]
        if self.derived and v and k < 0.85:
            return [r.choice(["when", "unless"]), self.bool_(env, d), ["set!", v, self.int_(env, d)]]
        if self.derived and v and k < 0.95:
            i = self.var("i")
            return ["do", [[i, r.randrange(0, 4), ["-", i, 1]]], [["<", i, 1]], ["set!", v, ["+", v, i]]]
        fs = [n for n, t, m in env if isinstance(t, tuple)]
        if fs:
            return [r.choice(fs), self.int_pure(self.fz(env), d)]
        return self.int_(env, d)

    def derived_int(self, env, d):
        r = self.rng
        k = r.randrange(7)
        if k == 0:
            a, b = self.var(), self.var()
            return ["let", [[a, self.int_(self.fz(env), d)], [b, self.list_(self.fz(env), d)]]] + self.body([(a, "int", True), (b, "list", True)] + env, d, "int")
        if k == 1:
            a, b = self.var(), self.var()
            return ["let*", [[a, self.int_(self.fz(env), d)], [b, ["+", a, 1]]]] + self.body([(a, "int", True), (b, "int", True)] + env, d, "int")
        if k == 2:                                                       # named let accumulating
            lp, i, acc = self.var("lp"), self.var("i"), self.var("a")
            e2 = [(i, "int", False), (acc, "int", False)] + env
            return ["let", lp, [[i, r.randrange(0, 5)], [acc, self.int_(self.fz(env), d)]],
                    ["if", ["<", i, 1], acc, [lp, ["-", i, 1], ["+", acc, self.int_(self.fz(e2), min(d, 1))]]]]
        if k == 3:                                                       # letrec: mutual recursion even/odd
            ev, od, n = self.var("ev"), self.var("od"), self.var("n")
            return ["letrec", [[ev, ["lambda", [n], ["if", ["=", n, 0], 1, [od, ["-", n, 1]]]]],
                               [od, ["lambda", [n], ["if", ["=", n, 0], 0, [ev, ["-", n, 1]]]]]],
                    [ev, r.randrange(0, 6)]]
        if k == 4:
            return ["cond", [self.bool_(env, d), self.int_(env, d)], [self.bool_(env, d), self.int_(env, d)],
                    ["else", self.int_(env, d)]]
        if k == 5:
            return ["case", self.int_(self.fz(env), min(d, 1)), [[0, 1], self.int_(env, d)], [[2, "a"], self.int_(env, d)],
                    ["else", self.int_(env, d)]]
        i, acc = self.var("i"), self.var("a")
        return ["do", [[i, r.randrange(0, 5), ["-", i, 1]], [acc, 0, ["+", acc, i]]], [["<", i, 1], acc]]

    def program(self, d=4):
        r = self.rng
        forms, env = [], []
        for _ in range(r.choice([0, 1, 2])):                             # top-level defines
            if r.random() < 0.5:
                n, t = self.var("g"), r.choice(["int", "list"])
                forms.append(["define", n, self.expr(self.fz(env), 2, t)])
                env.insert(0, (n, t, True))
            else:
                n, p = self.var("gf"), self.var()
                rt = r.choice(["int", "list"])
                pure = r.random() < 0.5
                forms.append(["define", [n, p]] + self.body([(p, "int", True)] + (self.fz(env) if pure else env), d - 1, rt))
                env.insert(0, (n, ("fn", rt, pure), False))
        ty = r.choice(["int", "list", "int"])
        forms.append(self.call(env, d, ty))
        return forms


def capture_family():
    """exhaustive capture patterns: kind of binding x how it is used x nesting depth x how the closure
    is reached x number of extra arguments for rest parameters"""
    out = []
    kinds = ["p0", "p1", "plast", "rest0", "rest1", "rest3", "local1", "local2", "let"]
    uses = ["cap-read", "cap-write", "cap-rw", "own-write", "own-write-cap-read", "shadow", "unused", "fwd"]
    for kind in kinds:
        for use in uses:
            for depth in (1, 2, 3, 4):
                for esc in ("imm", "esc"):
                    p = capture_case(kind, use, depth, esc)
                    if p is not None:
                        out.append(("%s/%s/d%d/%s" % (kind, use, depth, esc), p))
    return out


def capture_case(kind, use, depth, esc):
    X = "x"

    def inner(d):
        """expression evaluated d lambdas below the binder of X, observing / changing X"""
        if d == depth:
            if use == "cap-read":
                return X
            if use == "cap-write":
                return ["begin", ["set!", X, ["cons", d, X]], 0]
            if use == "cap-rw":
                return ["begin", ["set!", X, ["cons", d, X]], X]
            if use == "own-write-cap-read":
                return X
            if use == "shadow":
                return [["lambda", [X], ["cons", X, X]], d]
            if use in ("own-write", "unused", "fwd"):
                return d
        y = "y%d" % d
        if esc == "imm":
            return [["lambda", [y], ["cons", y, inner(d + 1)]], d]
        f = "f%d" % d
        return [["lambda", [f], ["cons", [f, 1], ["cons", [f, 2], ["quote", []]]]],
                ["lambda", [y], ["cons", y, inner(d + 1)]]]

    own = []
    if use in ("own-write", "own-write-cap-read"):
        own = [["set!", X, ["cons", 7, X]]]
    if use == "fwd":
        if not kind.startswith("local"):
            return None
        body = [["define", ["fa"], ["fb"]], ["define", X, 5], ["define", ["fb"], X], ["cons", ["fa"], ["cons", inner(1), ["quote", []]]]]
        return [[["lambda", ["a"]] + body, 1]]
    tail = [["lambda", ["r"], ["cons", "r", ["cons", X if use != "unused" or kind in () else 0, ["quote", []]]]], inner(1)]
    if use == "unused":
        tail = [["lambda", ["r"], ["cons", "r", ["quote", []]]], inner(1)]
    if kind in ("p0", "p1", "plast"):
        ps = {"p0": [X, "b", "c"], "p1": ["a", X, "c"], "plast": ["a", "b", X]}[kind]
        return [[["lambda", ps] + own + [tail], 10, 20, 30]]
    if kind.startswith("rest"):
        n = int(kind[4:])
        return [["define", ["h", "a", ".", X]] + own + [tail], ["cons", ["h", 1] + list(range(2, 2 + n)), ["cons", 99, ["quote", []]]]]
    if kind == "local1":
        return [[["lambda", ["a"], ["define", X, ["cons", "a", ["quote", []]]]] + own + [tail], 4]]
    if kind == "local2":
        return [[["lambda", ["a"], ["define", "w", 3], ["define", X, ["cons", "w", ["quote", []]]], ["define", ["k"], "w"]] + own + [tail], 4]]
    if kind == "let":
        return [["let", [["q", 1], [X, ["cons", 2, ["quote", []]]]]] + own + [tail]]
    return None


# ------------------------------------------------------------------ round 2 families

NIL = ["quote", []]


def Q(d):
    return ["quote", d]


def lst(*xs):
    out = NIL
    for x in reversed(xs):
        out = ["cons", x, out]
    return out


# every syntactic position class in which a variable can occur; `o` is the variable under test (a list),
# `a` an assignable integer variable of the same procedure.  usedp (simplify.c), sexp_free_vars (eval.c) and
# the analyser each walk these positions with their own code.
POSITIONS = {
    "test-if": [["if", ["pair?", "o"], Q("y"), Q("n")]],
    "test-if-null": [["if", ["null?", "o"], 1, 2]],
    "test-if-bare": [["if", "o", 1, 2]],
    "test-if-nested": [["if", ["if", ["pair?", "o"], False, True], 1, 2]],
    "test-cond": [["cond", [["null?", "o"], 0], [["pair?", "o"], ["car", "o"]], ["else", 7]]],
    "test-cond-arrow": [["cond", [["pair?", "o"], "=>", ["lambda", ["t"], ["cons", "t", 1]]], ["else", 7]]],
    "test-and": [["and", ["pair?", "o"], ["car", "o"]]],
    "test-or": [["or", ["null?", "o"], ["car", "o"]]],
    "test-when": [["when", ["pair?", "o"], ["set!", "a", 50]], "a"],
    "test-unless": [["unless", ["null?", "o"], ["set!", "a", 50]], "a"],
    "test-case": [["case", ["if", ["pair?", "o"], 1, 0], [[1], Q("one")], ["else", Q("none")]]],
    "test-do": [["do", [["i", 0, ["+", "i", 1]]], [["if", ["pair?", "o"], True, [">", "i", 1]], "i"]]],
    "test-in-operand": [["cons", ["if", ["pair?", "o"], 1, 2], NIL]],
    "operand": [["cons", 1, "o"]],
    "operand-call": [[["lambda", ["z"], "z"], "o"]],
    "operand-2nd": [[["lambda", ["y", "z"], ["cons", "z", "y"]], "a", "o"]],
    "operator-chosen": [[["if", ["pair?", "o"], ["lambda", ["z"], ["cons", "z", 1]], ["lambda", ["z"], "z"]], "a"]],
    "operator-car": [[["if", ["pair?", "o"], ["car", "o"], ["lambda", ["z"], "z"]], "a"]],
    "operator-self": [["o", 1]],
    "set-target": [["set!", "o", 5], "a"],
    "set-target-then-read": [["set!", "o", ["cons", "a", NIL]], "o"],
    "set-value": [["set!", "a", "o"], "a"],
    "closure": [[["lambda", [], "o"]]],
    "closure-esc": [[["lambda", ["k"], ["k"]], ["lambda", [], "o"]]],
    "closure-2": [[["lambda", [], [["lambda", [], "o"]]]]],
    "closure-3": [[["lambda", ["p"], [["lambda", ["q"], [["lambda", [], ["cons", "p", ["cons", "q", "o"]]]]], 2]], 1]],
    "closure-test": [[["lambda", [], ["if", ["pair?", "o"], 1, 2]]]],
    "closure-set": [[["lambda", [], ["set!", "o", 3]]], "o"],
    "closure-else": [[["lambda", ["z"], ["if", ["=", "z", 0], 1, "o"]], "a"]],
    "then-only": [["if", ["=", "a", 1], "o", 1]],
    "else-only": [["if", ["=", "a", 0], 1, "o"]],
    "else-test": [["if", ["=", "a", 0], 1, ["if", ["pair?", "o"], 2, 3]]],
    "seq-nonfinal-pure": [["begin", ["pair?", "o"], "a"]],
    "seq-nonfinal-effect": [[["lambda", ["z"], ["set!", "a", "z"]], "o"], "a"],
    "seq-nonfinal-test": [["if", ["pair?", "o"], ["set!", "a", 9]], "a"],
    "define-init": [["define", "k", "o"], "k"],
    "define-lambda": [["define", ["k"], "o"], ["k"]],
    "define-lambda-test": [["define", ["k"], ["if", ["null?", "o"], 0, 1]], ["k"]],
    "named-let-init": [["let", "lp", [["l", "o"], ["n", 0]], ["if", ["pair?", "l"], ["lp", ["cdr", "l"], ["+", "n", 1]], "n"]]],
    "let-init": [["let", [["z", "o"]], "z"]],
    "letrec-init": [["letrec", [["z", ["lambda", [], "o"]]], ["z"]]],
    # round 4: the ONLY assignment sits in code simplify.c removes (constant test), so the lambda's set-vars keep a
    # STALE entry for a variable the remaining body never mentions: sexp_rest_unused_p must consult the set-vars
    # (the prologue still boxes the slot), /repo 7788b66
    "set-dead-then": [["if", False, ["set!", "o", 5]], "a"],
    "set-dead-then-quoted": [["if", Q(False), ["set!", "o", 5]], "a"],
    "set-dead-else": [["if", True, "a", ["set!", "o", 5]]],
    "set-dead-folded-test": [["if", ["<", 2, 1], ["set!", "o", 5]], "a"],
    "set-dead-closure": [["if", False, ["lambda", [], ["set!", "o", 1]]], "a"],
    "set-dead-then-read": [["if", False, ["set!", "o", 5]], "o"],
    "set-dead-nested": [["if", ["=", "a", 1], ["if", False, ["set!", "o", 5], "a"], 0]],
    "set-dead-before-other-set": [["if", False, ["set!", "o", 5]], ["set!", "a", 7], "a"],     # position of the stale entry in sv
    "set-dead-after-other-set": [["set!", "a", 7], ["if", False, ["set!", "o", 5]], "a"],
    "set-dead-between-sets": [["define", "k", 1], ["set!", "k", 2], ["if", False, ["set!", "o", 5]], ["set!", "a", 7], ["cons", "a", "k"]],
    "unused": ["a"],
    "shadowed": [[["lambda", ["o"], "o"], "a"]],
    "shadowed-rest": [[["lambda", "o", "o"], "a"]],
}
PROC_ARG = ["lambda", ["z"], ["cons", "z", "z"]]


def rest_case(pos, ctxt, surplus):
    """rest parameter `o` used only at position class `pos`; called with `surplus` extra arguments; the call sits
    between two other values so that a frame one slot off shows"""
    body = POSITIONS[pos]
    extra = [21, 22, 23][:surplus]
    if pos == "operator-car" and surplus:
        extra[0] = PROC_ARG
    wrap = lambda call: [lst(call, 99)]
    if ctxt == "define":
        return [["define", ["f", "a", ".", "o"]] + body] + wrap(["f", 1] + extra)
    if ctxt == "define2":
        return [["define", ["f", "b", "a", ".", "o"]] + body] + wrap(["f", 0, 1] + extra)
    if ctxt == "lambda":
        return wrap([["lambda", ["a", ".", "o"]] + body, 1] + extra)
    if ctxt == "fixed0":
        return [["define", "a", 1], ["define", ["f", ".", "o"]] + body] + wrap(["f"] + extra)
    if ctxt == "nested":
        return [["define", ["outer", "q"], ["define", ["f", "a", ".", "o"]] + body, lst(["f", "q"] + extra, "q")]] + wrap(["outer", 1])
    if ctxt == "twice":            # same procedure called with and without surplus arguments
        return [["define", ["f", "a", ".", "o"]] + body] + [lst(["f", 1] + extra, ["f", 1], 99)]
    raise ValueError(ctxt)


REST_CTXTS = ["define", "define2", "lambda", "fixed0", "nested", "twice"]


def rest_family(rng=None, per_pos=None):
    out = []
    for pos in POSITIONS:
        combos = [(c, n) for c in REST_CTXTS for n in (0, 1, 3)]
        if per_pos is not None:
            must = [("define", 1), ("fixed0", 1)]                  # the shapes of the simplest witnesses, always
            if pos.startswith("set-dead") or pos.startswith("set-target"):
                # a boxed write to slot #fixed of a procedure WITHOUT rest slot hits the caller's stack only when
                # there is no surplus argument (with one, the slot is the dropped surplus argument itself)
                must = must + [("define", 0), ("lambda", 0)]
            rest_ = [x for x in combos if x not in must]
            combos = must + [rest_[i] for i in sorted(rng.sample(range(len(rest_)), max(0, per_pos - len(must))))]
        for c, n in combos:
            out.append(("restpos/%s/%s/n%d" % (pos, c, n), rest_case(pos, c, n)))
    return out


def capture_pos_case(pos, kind, depth):
    """variable `o` (a parameter / internal define / let variable of an outer procedure) reached from `depth`
    lambdas below at position class `pos`: what sexp_free_vars must find"""
    body = POSITIONS[pos]
    inner = [["lambda", ["a"]] + body, 1]
    for d in range(depth - 1):
        inner = [["lambda", ["y%d" % d], inner], d]
    val = lst(21, 22) if pos != "operator-car" else lst(PROC_ARG, 22)
    if kind == "param":
        return [lst([["lambda", ["o", "c"], lst(inner, "c")], val, 5], 99)]
    if kind == "local":
        return [lst([["lambda", ["c"], ["define", "o", val], lst(inner, "c")], 5], 99)]
    if kind == "let":
        return [["let", [["c", 5], ["o", val]], lst(inner, "c")]]
    raise ValueError(kind)


def capture_pos_family(rng=None, keep=None):
    out = []
    for pos in POSITIONS:
        for kind in ("param", "local", "let"):
            for depth in (1, 2, 3):
                out.append(("cappos/%s/%s/d%d" % (pos, kind, depth), capture_pos_case(pos, kind, depth)))
    if keep is not None and keep < len(out):
        out = [out[i] for i in sorted(rng.sample(range(len(out)), keep))]
    return out


FWD_INITS = {"const-int": 10, "const-sym": Q("k"), "const-nil": NIL, "const-false": False, "const-true": True,
             "computed": ["+", "a", 1], "computed-cons": ["cons", "a", NIL], "lambda": ["lambda", [], 3],
             "ref-earlier": "w"}


def fwd_case(binder, init, assigned, depth, shape):
    """an EARLIER closure g refers to a LATER binding k of the same body (internal define / letrec / letrec*);
    k's initialiser is a constant, a computed value or a lambda; k is never assigned, assigned in the body or
    assigned by a third closure; g is `depth` lambdas deep"""
    iv = FWD_INITS[init]
    use = "k"
    for _ in range(depth - 1):
        use = [["lambda", [], use]]
    binds = [("w", 3), ("g", ["lambda", [], use]), ("k", iv)]
    if assigned == "closure-set":
        binds.append(("s", ["lambda", [], ["set!", "k", 77]]))
    if shape == "late-reader":                       # a reader defined after k as well: both must see the same cell
        binds.append(("h", ["lambda", [], "k"]))
    stmts = []
    if assigned == "body-set":
        stmts.append(["set!", "k", 55])
    if assigned == "closure-set":
        stmts.append(["s"])
    obs = [["g"], "k"] + ([["h"]] if shape == "late-reader" else [])
    if init == "lambda" and assigned == "never":
        obs = [[["g"]], ["k"]] + ([[["h"]]] if shape == "late-reader" else [])
    res = lst(*obs)
    if binder == "define":
        body = [["define", n, v] for n, v in binds] + stmts + [res]
    elif binder == "define-proc":                    # (define (g) ..) spelling
        body = [["define", [n]] + v[2:] if isinstance(v, list) and v and v[0] == "lambda" else ["define", n, v] for n, v in binds] + stmts + [res]
    else:
        body = [[binder, [[n, v] for n, v in binds]] + stmts + [res]]
    if shape == "toplevel-lambda":
        return [lst([["lambda", ["a"]] + body, 1], 99)]
    if shape == "nested":
        return [["define", ["f", "b"], [["lambda", ["a"]] + body, "b"]], lst(["f", 1], 99)]
    return [["define", ["f", "a"]] + body, lst(["f", 1], 99)]


def fwd_family(rng=None, keep=None):
    out = []
    for binder in ("define", "define-proc", "letrec", "letrec*"):
        for init in FWD_INITS:
            if binder == "letrec" and init == "ref-earlier":      # R7RS letrec: an init must not use another variable's value
                continue
            for assigned in ("never", "body-set", "closure-set"):
                for depth in (1, 2, 3):
                    for shape in ("define", "toplevel-lambda", "nested", "late-reader"):
                        out.append(("fwd/%s/%s/%s/d%d/%s" % (binder, init, assigned, depth, shape),
                                    fwd_case(binder, init, assigned, depth, shape)))
    if keep is not None and keep < len(out):
        # the never-assigned constant initialisers at depth 1 are the boundary of the analyser's sv decision: always kept
        must = [x for x in out if "/const-" in x[0] and "/never/d1/define" in x[0] and x[0].startswith("fwd/define/")]
        others = [x for x in out if x not in must]
        out = must + [others[i] for i in sorted(rng.sample(range(len(others)), max(0, keep - len(must))))]
    return out


TOPLEVEL_FIXED = [
    # define / re-define / set! of globals against procedures compiled before or after (R7RS 5.3.1: a top-level
    # define of a bound variable is an assignment: there is ONE location per global)
    ("redefine-read-by-old-proc", [["define", "g", 1], ["define", ["rd"], "g"], ["define", "g", 2], lst(["rd"], "g")]),
    ("redefine-set-by-old-proc", [["define", "g", 1], ["define", ["wr", "v"], ["set!", "g", "v"]], ["define", "g", 2], ["wr", 3], "g"]),
    ("redefine-set-then-read", [["define", "g", 1], ["define", ["rd"], "g"], ["define", ["wr", "v"], ["set!", "g", "v"]],
                                ["define", "g", 2], ["wr", 3], ["define", ["rd2"], "g"], lst(["rd"], ["rd2"], "g")]),
    ("redefine-twice", [["define", "g", 1], ["define", ["rd"], "g"], ["define", "g", 2], ["define", "g", Q("c")], lst(["rd"], "g")]),
    ("forward-ref", [["define", ["rd"], "g"], ["define", "g", 5], ["rd"]]),
    ("forward-ref-then-redefine", [["define", ["rd"], "g"], ["define", "g", 5], ["define", "g", 6], lst(["rd"], "g")]),
    ("forward-ref-set", [["define", ["wr", "v"], ["set!", "g", "v"]], ["define", "g", 5], ["wr", 6], "g"]),
    ("forward-ref-unbound-error", [["define", ["rd"], "g"], ["rd"]]),
    ("forward-ref-proc", [["define", ["k"], ["h"]], ["define", ["h"], 1], ["define", ["h"], 2], ["k"]]),
    ("redefine-proc-as-value", [["define", ["h"], 1], ["define", ["k"], "h"], ["define", "h", 7], ["k"]]),
    ("redefine-value-as-proc", [["define", "h", 7], ["define", ["k"], ["h"]], ["define", ["h"], 8], ["k"]]),
    ("set-then-redefine", [["define", "g", 1], ["define", ["rd"], "g"], ["set!", "g", 2], ["define", "g", 3], ["set!", "g", ["+", "g", 1]], lst(["rd"], "g")]),
    ("closure-factory", [["define", "g", 1], ["define", ["mk"], ["lambda", [], "g"]], ["define", "r1", ["mk"]], ["define", "g", 2],
                         ["define", "r2", ["mk"]], lst(["r1"], ["r2"])]),
    ("nested-set", [["define", "g", 1], ["define", ["mk"], ["lambda", ["v"], ["lambda", [], ["set!", "g", ["cons", "v", "g"]]]]],
                    ["define", "w1", [["mk"], 5]], ["define", "g", NIL], ["w1"], ["w1"], "g"]),
    ("begin-defines", [["begin", ["define", "g", 1], ["define", ["rd"], "g"]], ["begin", ["define", "g", 2], ["define", "u", ["rd"]]], lst("u", "g")]),
    ("redefine-self-recursive", [["define", ["lp", "n"], ["if", ["=", "n", 0], Q("old"), ["lp", ["-", "n", 1]]]],
                                 ["define", "keep", "lp"], ["define", ["lp", "n"], Q("new")], ["keep", 2]]),
]
# F-C03-2: the initialiser of a re-definition must still see the old value
REDEFINE_READS_OLD = [
    ("redefine-reads-old-F-C03-2", [["define", "g", 1], ["define", "g", ["+", "g", 1]], "g"]),
    ("redefine-reads-old-via-proc-F-C03-2", [["define", "g", 1], ["define", ["rd"], "g"], ["define", "g", ["cons", ["rd"], NIL]], "g"]),
]


def toplevel_random(rng):
    """random sequence of top-level forms over three globals: define / re-define / set! / reader and writer
    procedures (also nested closures) defined before or after the variables they use; the last form reads
    everything.  A variable is never read before its first definition and an initialiser of a re-definition
    never reads the variable being redefined (see F-C03-2 for that)."""
    gs = ["ga", "gb", "gc"]
    defined, procs, forms, n = set(), [], [], [0]

    def val(avoid=None):
        c = [g for g in sorted(defined) if g != avoid]
        k = rng.randrange(5)
        if k == 0 and c:
            return ["cons", rng.choice(c), NIL]
        if k == 1:
            return Q(rng.choice(["p", "q"]))
        if k == 2 and c:
            return rng.choice(c)
        return rng.randrange(0, 50)

    def fresh_name(p):
        n[0] += 1
        return "%s%d" % (p, n[0])

    for _ in range(rng.randrange(4, 11)):
        k = rng.randrange(9)
        g = rng.choice(gs)
        if k <= 2 or not defined:                          # define or re-define
            forms.append(["define", g, val(avoid=g)])
            defined.add(g)
        elif k == 3 and g in defined:
            forms.append(["set!", g, val(avoid=g)])
        elif k == 4:                                       # reader, possibly of a variable defined later
            f = fresh_name("rd")
            forms.append(["define", [f], g])
            procs.append((f, g, "rd"))
        elif k == 5:                                       # writer
            f = fresh_name("wr")
            forms.append(["define", [f, "v"], ["set!", g, ["cons", "v", NIL]]])
            procs.append((f, g, "wr"))
        elif k == 6:                                       # nested closure reader made now, used later
            f = fresh_name("mk")
            forms.append(["define", f, [["lambda", ["z"], ["lambda", [], ["cons", "z", g]]], rng.randrange(9)]])
            procs.append((f, g, "rd"))
        elif k == 7:
            ws = [p for p in procs if p[2] == "wr" and p[1] in defined]
            if ws:
                forms.append([rng.choice(ws)[0], rng.randrange(0, 9)])
        else:
            rs = [p for p in procs if p[2] == "rd" and p[1] in defined]
            if rs:                                          # a call result stored in another global
                r_ = rng.choice(rs)
                g2 = rng.choice([x for x in gs if x != r_[1]])
                forms.append(["define", g2, [r_[0]]])
                defined.add(g2)
    for g in gs:                                           # whatever is still only forward-referenced gets defined now
        if g not in defined:
            forms.append(["define", g, rng.randrange(50, 60)])
            defined.add(g)
    forms.append(lst(*([[p[0]] for p in procs if p[2] == "rd"] + gs)))
    return forms


def toplevel_family(rng, nrand):
    out = [("toplevel-" + k, f) for k, f in TOPLEVEL_FIXED]
    for i in range(nrand):
        out.append(("toplevel/random#%d" % i, toplevel_random(rng)))
    return out


def chain_case(depth, boxmask, rest_at):
    """closure chain `depth` levels deep; level i binds v_i (as a rest parameter at level rest_at); the variables
    selected by boxmask are assigned from the innermost lambda (so they are boxed), all are read there"""
    vs = ["v%d" % i for i in range(depth)]
    inner = []
    for i, v in enumerate(vs):
        if boxmask >> i & 1:
            inner.append(["set!", v, ["cons", 100 + i, v]])
    inner.append(lst(*vs))
    e = [["lambda", []] + inner]
    for i in reversed(range(depth)):
        if i == rest_at:
            e = [["lambda", vs[i], e], 10 + i, 20 + i]
        else:
            e = [["lambda", [vs[i]], e], 10 + i]
    return [lst(e, 99)]


def chain_family(rng=None, keep=None):
    out = []
    for depth in (4, 5, 6):
        for boxmask in range(1 << depth):
            for rest_at in (-1, 0, depth - 1):
                out.append(("chain/d%d/m%d/r%d" % (depth, boxmask, rest_at), chain_case(depth, boxmask, rest_at)))
    if keep is not None and keep < len(out):
        out = [out[i] for i in sorted(rng.sample(range(len(out)), keep))]
    return out


# scoping / evaluation-rule cases for the derived forms (each written against R7RS 4.2, 7.3)
MISC_CASES = [
    ("named-let-shadows-own-name", [["define", ["lp"], 7], ["let", "lp", [["x", ["lp"]]], "x"]]),
    ("named-let-tag-as-variable", [["let", "lp", [["lp2", 1]], ["if", ["=", "lp2", 1], ["lp", 2], "lp2"]]]),
    ("named-let-param-named-like-tag-F-C03-3", [["let", "lp", [["lp", 1]], "lp"]]),
    ("named-let-init-outer-scope", [[["lambda", ["x"], ["let", "lp", [["x", ["+", "x", 1]], ["n", 0]], ["if", ["<", "n", 2], ["lp", ["+", "x", 1], ["+", "n", 1]], "x"]]], 10]]),
    ("do-fresh-binding-per-iteration", [["define", "acc", NIL],
                                        ["do", [["i", 0, ["+", "i", 1]]], [["=", "i", 3]], ["set!", "acc", ["cons", ["lambda", [], "i"], "acc"]]],
                                        lst([["car", "acc"]], [["car", ["cdr", "acc"]]], [["car", ["cdr", ["cdr", "acc"]]]])]),
    ("do-body-assigns-loop-var", [["define", "acc", NIL],
                                  ["do", [["i", 0, ["+", "i", 1]]], [[">", "i", 5]],
                                   ["set!", "acc", ["cons", ["lambda", [], "i"], "acc"]], ["set!", "i", ["+", "i", 1]]],
                                  lst([["car", "acc"]], [["car", ["cdr", "acc"]]], [["car", ["cdr", ["cdr", "acc"]]]])]),
    ("do-step-sees-old-values", [["do", [["i", 0, ["+", "i", 1]], ["j", 10, ["+", "i", "j"]]], [["=", "i", 4], lst("i", "j")]]]),
    ("do-no-step", [["do", [["i", 0, ["+", "i", 1]], ["k", 5]], [["=", "i", 2], "k"], ["set!", "k", ["+", "k", 10]]]]),
    ("named-let-closures-per-iteration", [["let", "lp", [["i", 0], ["acc", NIL]],
                                           ["if", ["<", "i", 3], ["lp", ["+", "i", 1], ["cons", ["lambda", [], "i"], "acc"]],
                                            lst([["car", "acc"]], [["car", ["cdr", "acc"]]])]]]),
    ("cond-arrow", [["cond", [["cons", 1, 2], "=>", ["lambda", ["p"], ["car", "p"]]], ["else", 0]]]),
    ("cond-arrow-false-skips-receiver", [["define", "n", 0], ["define", ["rcv", "v"], ["set!", "n", ["+", "n", 1]], "v"],
                                         [["lambda", ["r"], lst("r", "n")], ["cond", [False, "=>", "rcv"], [5, "=>", "rcv"], ["else", 9]]]]),
    ("cond-arrow-test-once", [["define", "n", 0], ["define", ["t"], ["set!", "n", ["+", "n", 1]], "n"],
                              [["lambda", ["r"], lst("r", "n")], ["cond", [["t"], "=>", ["lambda", ["v"], ["cons", "v", NIL]]], ["else", 0]]]]),
    ("cond-no-body-returns-test", [["cond", [False], [7], ["else", 1]]]),
    ("cond-order", [["define", "n", NIL], ["define", ["t", "v", "r"], ["set!", "n", ["cons", "v", "n"]], "r"],
                    [["lambda", ["r"], lst("r", "n")], ["cond", [["t", 1, False], 10], [["t", 2, True], 20], [["t", 3, True], 30], ["else", 40]]]]),
    ("case-key-once", [["define", "n", 0], ["define", ["k"], ["set!", "n", ["+", "n", 1]], 3],
                       [["lambda", ["r"], lst("r", "n")], ["case", ["k"], [[1, 2], Q("low")], [[3, 4], Q("mid")], ["else", Q("high")]]]]),
    ("case-symbols", [["case", Q("b"), [["a"], 1], [["b", "c"], 2], ["else", 3]]]),
    ("case-arrow", [lst(["case", 3, [[1, 2], Q("low")], [[3], "=>", ["lambda", ["k"], ["cons", "k", 1]]], ["else", 0]],
                        ["case", 9, [[1], 1], ["else", "=>", ["lambda", ["k"], ["cons", "k", 2]]]])]),
    ("case-single-and-multi", [lst(["case", 2, [[2], Q("two")], ["else", 0]], ["case", 2, [[1, 2], Q("low")], ["else", 0]],
                                   ["case", 5, [[2], Q("two")], [[3, 4], Q("mid")], ["else", Q("none")]])]),
    ("case-else", [["case", 9, [[1], 1], ["else", 3]]]),
    ("and-or-values", [lst(["and"], ["or"], ["and", 1, 2], ["or", False, 3], ["and", 1, False, 2], ["or", False, False])]),
    ("or-evaluates-once", [["define", "n", 0], ["define", ["t"], ["set!", "n", ["+", "n", 1]], "n"], [["lambda", ["r"], lst("r", "n")], ["or", ["t"], 5]]]),
    ("truthiness", [lst(["if", 0, 1, 2], ["if", NIL, 1, 2], ["if", Q("a"), 1, 2], ["if", ["lambda", [], 1], 1, 2], ["if", ["cons", 1, 2], 1, 2])]),
    ("operand-set", [[["lambda", ["x"], lst(["begin", ["set!", "x", 5], "x"], 1)], 0]]),
    ("operand-set-observed-after", [[["lambda", ["x"], [["lambda", ["r"], lst("r", "x")], ["cons", ["begin", ["set!", "x", ["cons", 1, "x"]], 7], 2]]], NIL]]),
    ("set-in-test", [[["lambda", ["x"], ["if", ["begin", ["set!", "x", 3], False], 1, "x"]], 0]]),
    ("let-init-outer-scope", [[["lambda", ["x"], ["let", [["x", ["+", "x", 1]], ["y", "x"]], lst("x", "y")]], 1]]),
    ("let*-sequential", [[["lambda", ["x"], ["let*", [["x", ["+", "x", 1]], ["y", "x"]], lst("x", "y")]], 1]]),
    ("letrec-mutual", [["letrec", [["ev", ["lambda", ["n"], ["if", ["=", "n", 0], True, ["od", ["-", "n", 1]]]]],
                                   ["od", ["lambda", ["n"], ["if", ["=", "n", 0], False, ["ev", ["-", "n", 1]]]]]], lst(["ev", 4], ["od", 4])]]),
    ("letrec*-earlier-value", [["letrec*", [["a", 1], ["b", ["+", "a", 1]], ["c", ["lambda", [], lst("a", "b")]]], ["c"]]]),
    ("internal-define-shadows-param", [[["lambda", ["x"], ["define", "y", ["cons", "x", NIL]], ["define", ["x2"], "y"], ["x2"]], 4]]),
    ("internal-define-shadows-global", [["define", "y", 1], ["define", ["f"], ["define", "y", 2], ["lambda", [], "y"]], lst([["f"]], "y")]),
    ("inner-lambda-param-shadows-captured", [[["lambda", ["x"], [["lambda", ["f"], lst(["f", 2], "x")], ["lambda", ["x"], ["set!", "x", ["+", "x", 1]], "x"]]], 10]]),
    ("counter-pair", [["define", ["mk"], ["define", "n", 0], ["cons", ["lambda", [], ["set!", "n", ["+", "n", 1]], "n"], ["lambda", [], "n"]]],
                      [["lambda", ["p"], [["car", "p"]], [["car", "p"]], [["cdr", "p"]]], ["mk"]]]),
    ("when-unless-values", [["define", "x", 0], ["when", True, ["set!", "x", ["+", "x", 1]], ["set!", "x", ["+", "x", 1]]],
                            ["unless", True, ["set!", "x", 100]], ["unless", False, ["set!", "x", ["+", "x", 10]]], ["when", False, ["set!", "x", 100]], "x"]),
    ("body-begin-defines", [[["lambda", ["a"], ["begin", ["define", "p", ["cons", "a", NIL]], ["define", ["q"], "p"]], lst(["q"], "p")], 1]]),
    ("body-define-then-begin-defines", [["define", ["f", "a"], ["define", "x", 1], ["begin", ["define", "y", ["cons", "x", "a"]], ["define", ["z"], "y"]], ["z"]],
                                        ["f", 5]]),
    ("apply-rest-callee", [["define", ["f", "a", ".", "r"], ["cons", "a", "r"]], lst(["apply", "f", 1, lst(2, 3)], ["apply", "f", 1, NIL], ["apply", "f", lst(1, 2, 3, 4)], 99)]),
    ("apply-pass-rest-through", [["define", ["f", "a", "b"], ["cons", "b", "a"]], ["define", ["g", ".", "r"], ["apply", "f", "r"]],
                                 ["define", ["h", "x", ".", "r"], ["apply", "f", "x", "r"]], lst(["g", 1, 2], ["h", 3, 4], 99)]),
    ("apply-spread-args", [lst(["apply", ["lambda", ["a", "b", "c"], lst("c", "b", "a")], 1, 2, lst(3)],
                               ["apply", ["lambda", ["a", "b", "c", "d"], lst("d", "c", "b", "a")], 1, lst(2, 3, 4)],
                               ["apply", ["lambda", [], 7], NIL], ["apply", ["lambda", "r", "r"], 1, 2, 3, NIL])]),
    ("apply-tail-loop-with-rest", [["define", ["h", "n", ".", "r"], ["if", ["=", "n", 0], "r", ["apply", "h", ["-", "n", 1], ["cons", "n", "r"]]]], lst(["h", 3], 99)]),
    ("apply-unused-rest", [["define", ["f", "a", ".", "r"], "a"], lst(["apply", "f", lst(1, 2, 3)], ["apply", "f", 5, NIL], 99)]),
    ("apply-too-many", [["apply", ["lambda", ["a"], "a"], lst(1, 2)]]),
    ("apply-too-few", [["apply", ["lambda", ["a", "b"], "a"], lst(1)]]),
    ("apply-closure-captures", [[["lambda", ["k"], ["apply", ["lambda", ["a", ".", "r"], lst("k", "a", "r")], "k", lst(2, 3)]], 1]]),
    ("values-two", [["call-with-values", ["lambda", [], ["values", 1, 2]], ["lambda", ["a", "b"], ["cons", "a", "b"]]]]),
    ("values-rest-consumer", [["call-with-values", ["lambda", [], ["values", 1, 2, 3]], ["lambda", ["a", ".", "r"], ["cons", "r", "a"]]]]),
    ("values-single-and-zero", [lst(["call-with-values", ["lambda", [], 5], ["lambda", ["a"], ["cons", "a", "a"]]],
                                    ["call-with-values", ["lambda", [], ["values", 6]], ["lambda", ["a"], ["cons", "a", "a"]]],
                                    ["call-with-values", ["lambda", [], ["values"]], ["lambda", [], 7]])]),
    ("values-through-tail-positions", [["define", ["two", "n"], ["if", ["<", "n", 1], ["values", "n", 0], ["begin", 1, ["values", "n", ["-", "n", 1]]]]],
                                       lst(["call-with-values", ["lambda", [], ["two", 0]], ["lambda", ["a", "b"], lst("a", "b")]],
                                           ["call-with-values", ["lambda", [], ["two", 5]], ["lambda", ["a", "b"], lst("b", "a")]])]),
    ("values-one-is-the-value", [lst(["values", 5], ["car", ["values", ["cons", 1, 2]]], [["lambda", ["p"], ["cdr", "p"]], ["values", ["cons", 3, 4]]])]),
    ("values-arity-mismatch", [["call-with-values", ["lambda", [], ["values", 1, 2]], ["lambda", ["a"], "a"]]]),
    ("quasiquote-unquote", [[["lambda", ["x"], ["quasiquote", [1, ["unquote", ["+", "x", 1]], "a", ["unquote", "x"]]]], 5]]),
    ("quasiquote-splicing", [[["lambda", ["l", "e"], lst(["quasiquote", [1, ["unquote-splicing", "l"], 4]],
                                                        ["quasiquote", [["unquote-splicing", "l"], ["unquote-splicing", "l"]]],
                                                        ["quasiquote", [0, ["unquote-splicing", "e"], ["unquote-splicing", "l"]]],
                                                        ["quasiquote", [["unquote-splicing", "e"]]])], lst(2, 3), NIL]]),
    ("quasiquote-nested-lists", [[["lambda", ["x", "l"], ["quasiquote", [["a", ["unquote", "x"]], ["b", [["unquote-splicing", "l"], "c"]], []]]], 1, lst(2, 3)]]),
    ("quasiquote-dotted-tail", [[["lambda", ["x", "l"], lst(["quasiquote", [1, ".", ["unquote", "x"]]], ["quasiquote", [1, ["unquote-splicing", "l"], ".", ["unquote", "x"]]])], 7, lst(2, 3)]]),
    ("quasiquote-constant-and-atoms", [lst(["quasiquote", ["a", "b", [1, 2]]], ["quasiquote", 5], ["quasiquote", "s"], ["quasiquote", ["unquote", ["cons", 1, 2]]])]),
    ("quasiquote-evaluation-order-free", [["define", ["f", ".", "r"], "r"], [["lambda", ["y"], ["quasiquote", [["unquote", ["f", "y", 1]], ["unquote-splicing", ["f", 2, "y"]]]]], 9]]),
    ("let-init-evaluated-once", [["define", "n", 0], [["lambda", ["x"], ["cons", "x", ["cons", "x", "n"]]], ["begin", ["set!", "n", ["+", "n", 1]], "n"]]]),
    ("rest-and-locals-boxed", [["define", ["f", "a", ".", "r"], ["define", "k", ["cons", "a", "r"]], ["set!", "r", "k"], ["set!", "a", ["cons", 0, "r"]],
                                lst("a", "k", "r")], lst(["f", 1, 2, 3], ["f", 4], 99)]),
    ("begin-empty-tail", [[["lambda", ["x"], ["begin", ["set!", "x", 1]], "x"], 0]]),
]


MV_PRODUCERS = [         # (name, expression (may use the integer variable a = 1), number of values)
    ("v0", ["values"], 0), ("v1", ["values", 11], 1), ("v2", ["values", 11, 12], 2), ("v3", ["values", 11, 12, 13], 3),
    ("v4", ["values", 11, 12, 13, 14], 4), ("plain", 11, 1), ("pair", ["cons", 11, 12], 1), ("nil", NIL, 1),
    ("if", ["if", ["=", "a", 1], ["values", 11, 12], ["values", 13, 14, 15]], 2),
    ("if-else", ["if", ["=", "a", 0], ["values", 11, 12], ["values", 13, 14, 15]], 3),
    ("proc", ["%p2", 11], 2), ("let", ["let", [["z", 11]], ["values", "z", 12, 13]], 3),
    ("vals-of-pairs", ["values", ["cons", 1, 2], NIL, ["cons", 3, NIL]], 3),
]
MV_VARS = ["x", "y", "z", "w"]


def mv_formals(n):
    """every lambda-list shape that accepts exactly n values: n variables; k <= n variables + rest; a bare symbol"""
    out = [("fix%d" % n, MV_VARS[:n])]
    for k in range(1, n + 1):
        out.append(("dot%d" % k, MV_VARS[:k] + [".", "r"]))
    out.append(("sym", "r"))
    return out


def mv_case(pname, prod, fname, fm, ctxt):
    """multiple values received by formals `fm` through one of the receiving forms; the program returns the list of the
    variables, between two other values"""
    vs = formals_vars(fm)
    result = lst(*vs) if vs else 7
    pre = [["define", ["%p2", "q"], ["values", "q", ["+", "q", 1]]]]
    wrap = lambda body: pre + [["define", ["f", "a"]] + body, lst(["f", 1], 99)]
    if ctxt == "cwv":
        return wrap([["call-with-values", ["lambda", [], prod], ["lambda", fm, result]]])
    if ctxt == "let-values":
        return wrap([["let-values", [[fm, prod]], result]])
    if ctxt == "let-values-2":       # a second binding whose init mentions a name the first binds: must see the OUTER variable
        return pre + [["define", ["f", "a", "x"], ["let-values", [[fm, prod], [["u", ".", "v"], ["values", "x", "a", 5]]], lst(result, "u", "v")]],
                      lst(["f", 1, 2], 99)]
    if ctxt == "let*-values-2":      # sequential: the second init sees the first binding's variables
        return pre + [["define", ["f", "a", "x"], ["let*-values", [[fm, prod], [["u", ".", "v"], ["values", "x", "a", 5]]], lst(result, "u", "v")]],
                      lst(["f", 1, 2], 99)]
    if ctxt == "define-values-top":
        return pre + [["define", "a", 1], ["define-values", fm, prod], lst(result, 99)]
    if ctxt == "define-values-body":  # internal: a closure defined AFTER reads the variables, one of them is assigned
        setter = [["set!", vs[-1], ["cons", vs[-1], 0]]] if vs else []
        return wrap([["define-values", fm, prod], ["define", ["get"], result]] + setter + [["get"]])
    if ctxt == "define-values-then-define":   # the variables keep their values when later definitions follow
        return wrap([["define-values", fm, prod], ["define", "k", 77], ["define", ["get"], lst(result, "k")], ["get"]])
    raise ValueError(ctxt)


MV_CTXTS = ["cwv", "let-values", "let-values-2", "let*-values-2", "define-values-top", "define-values-body", "define-values-then-define"]


def mv_family(rng=None, keep=None):
    out, must = [], []
    for pname, prod, n in MV_PRODUCERS:
        for fname, fm in mv_formals(n):
            for c in MV_CTXTS:
                k = "mv/%s/%s/%s" % (pname, fname, c)
                (must if pname in ("v3", "v4", "v0") and c.startswith("define-values") else out).append((k, mv_case(pname, prod, fname, fm, c)))
    if keep is not None and keep < len(out):
        out = [out[i] for i in sorted(rng.sample(range(len(out)), keep))]
    return must + out


def arity_family():
    """call-protocol boundaries (theorem call_arity_errors_agree_partial): callee kind x number of arguments from 0 to #fixed + 2;
    too few -> `not enough args`, too many without rest -> `too many args`, otherwise the value; the callee is reached directly,
    through a variable, in tail position and through apply"""
    kinds = []
    for n in range(0, 4):
        ps = ["p%d" % i for i in range(n)]
        res = lst(*ps) if ps else 7
        kinds.append(("fixed%d" % n, ps, res, n, False))
        kinds.append(("restused%d" % n, ps + [".", "r"] if ps else "r", lst(*(ps + ["r"])), n, True))
        kinds.append(("restunused%d" % n, ps + [".", "r"] if ps else "r", res, n, True))
        kinds.append(("reststale%d" % n, ps + [".", "r"] if ps else "r", ["begin", ["if", False, ["set!", "r", 5]], res], n, True))
        kinds.append(("restset%d" % n, ps + [".", "r"] if ps else "r", ["begin", ["set!", "r", ["cons", 0, "r"]], lst(*(ps + ["r"]))], n, True))
    out = []
    for name, formals, body, n, variadic in kinds:
        for k in range(0, n + 3):
            args = [31 + i for i in range(k)]
            lam = ["lambda", formals, body]
            out.append(("arity/%s/direct/n%d" % (name, k), [lst([lam] + args, 99)]))
            out.append(("arity/%s/global/n%d" % (name, k), [["define", "f", lam], lst(["f"] + args, 99)]))
            if k in (max(n - 1, 0), n, n + 1):
                out.append(("arity/%s/tail/n%d" % (name, k), [["define", "f", lam], ["define", ["g", "a"], ["f"] + args], lst(["g", 1], 99)]))
                out.append(("arity/%s/apply/n%d" % (name, k), [["define", "f", lam], lst(["apply", "f", lst(*args)], 99)]))
    return out


def nary_family():
    """variadic arithmetic (0, 1, 3, 4, 5 operands) and comparison chains (3, 4, 5 operands) on variables (no constant folding):
    increasing values, every adjacent pair swapped, all equal, decreasing"""
    vecs = [[1, 2, 3, 4, 5], [2, 1, 3, 4, 5], [1, 3, 2, 4, 5], [1, 2, 4, 3, 5], [1, 2, 3, 5, 4], [2, 2, 2, 2, 2], [5, 4, 3, 2, 1],
            [1, 2, 2, 3, 3], [3, 3, 2, 2, 1]]
    ps = ["a", "b", "c", "d", "e"]
    out = []
    for n, vec in enumerate(vecs):
        res = []
        for op in ("<", "<=", ">", ">=", "="):
            for k in (3, 4, 5):
                res.append([op] + ps[:k])
        for op in ("+", "-", "*"):
            for k in (0, 1, 3, 4, 5):
                if not (op == "-" and k == 0):
                    res.append([op] + ps[:k])
        out.append(("nary/v%d" % n, [[["lambda", ps, lst(*res)]] + vec]))
    return out



# ------------------------------------------------------------------ round 3 families

class GenQ(Gen):
    """Gen with BOTH spellings of constants: an integer / boolean leaf is written bare (an immediate in the AST) or quoted
    (a literal node: what the optimisation passes test with sexp_litp).  props/C05.py keeps using Gen itself."""
    def int_(self, env, d):
        x = super().int_(env, d)
        if isinstance(x, int) and not isinstance(x, bool) and self.rng.random() < 0.35:
            return Q(x)
        return x

    def bool_(self, env, d):
        x = super().bool_(env, d)
        if isinstance(x, bool) and self.rng.random() < 0.5:
            return Q(x)
        return x


# every constant in both spellings where it has two: (name, surface expression, is an integer)
CONSTANTS = [
    ("false", False, False), ("q-false", Q(False), False), ("true", True, False), ("q-true", Q(True), False),
    ("q-nil", NIL, False), ("zero", 0, True), ("q-zero", Q(0), True), ("five", 5, True), ("q-five", Q(5), True),
    ("q-sym", Q("sym"), False), ("q-pair", Q([1, ".", 2]), False), ("q-list", Q([1, 2]), False),
    ("vector", Const("#(1)"), False), ("q-vector", Q(Const("#(1)")), False),
    ("string", Const('"str"'), False), ("q-string", Q(Const('"str"')), False),
    ("bignum", Const("123456789012345678901234567890"), False), ("q-bignum", Q(Const("123456789012345678901234567890")), False),
    ("flonum", Const("1.5"), False), ("q-flonum", Q(Const("1.5")), False),
    ("char", Const("#\\a"), False), ("q-char", Q(Const("#\\a")), False),
]
K = "%K%"
YN = [Q("y"), Q("n")]
# position classes of a CONSTANT (placeholder K); `a` is an assignable integer variable (1) of the enclosing procedure.
# simplify.c folds a constant test, inlines a never-assigned let variable bound to a constant (inside a procedure only) and
# drops constant statements; analyze() wraps quoted data in literal nodes; generate_seq / generate_drop_prev skip them.
CONST_POSITIONS = {
    "test-if": [["if", K] + YN],
    "test-if-one-armed": [["if", K, ["set!", "a", 50]], "a"],
    "test-if-nested": [["if", ["if", K, False, True], 1, 2]],
    "test-if-in-operand": [["cons", ["if", K, 1, 2], NIL]],
    "test-cond": [["cond", [K, 1], ["else", 2]]],
    "test-cond-2nd": [["cond", [["=", "a", 0], 0], [K, 1], ["else", 2]]],
    "test-cond-arrow": [["cond", [K, "=>", ["lambda", ["t"], ["cons", "t", 1]]], ["else", 7]]],
    "test-cond-nobody": [["cond", [K], ["else", 7]]],
    "test-when": [["when", K, ["set!", "a", 50]], "a"],
    "test-unless": [["unless", K, ["set!", "a", 50]], "a"],
    "test-and-first": [["and", K, 1]],
    "test-and-last": [["and", 1, K]],
    "test-and-middle": [["and", "a", K, 3]],
    "test-or-first": [["or", K, 2]],
    "test-or-last": [["or", False, K]],
    "test-do": [["do", [["i", 0, ["+", "i", 1]]], [["if", [">", "i", 1], True, K], "i"]]],
    "test-do-or": [["do", [["i", 0, ["+", "i", 1]]], [["or", K, [">", "i", 1]], "i"]]],
    "case-key": [["case", K, [[0], Q("zero")], [["sym"], Q("s")], ["else", Q("other")]]],
    "operand": [["cons", K, NIL]],
    "operand-2nd": [["cons", 1, K]],
    "operand-call": [[["lambda", ["z"], ["cons", "z", "z"]], K]],
    "operator": [[K, 1]],
    "arg-param-test": [[["lambda", ["p"], ["if", "p"] + YN], K]],
    "arg-param-2nd-test": [[["lambda", ["q", "p"], ["if", "p", "q", Q("n")]], "a", K]],
    "arg-rest-test": [[["lambda", ["q", ".", "r"], ["if", ["car", "r"], "q", Q("n")]], "a", K]],
    "arg-global-proc-test": [["define", ["tst", "p"], ["if", "p"] + YN], ["tst", K]],
    "let-test": [["let", [["flag", K]], ["if", "flag", ["cons", Q("yes"), "a"], ["cons", Q("no"), "a"]]]],
    "let-test-2nd-of-two": [["let", [["u", "a"], ["flag", K]], ["if", "flag", ["cons", Q("yes"), "u"], ["cons", Q("no"), "u"]]]],
    "let-assigned-test": [["let", [["flag", K]], ["if", ["=", "a", 99], ["set!", "flag", 1]], ["if", "flag", 1, 2]]],
    "let-closure-test": [["let", [["off", K], ["acc", NIL]],
                          [["lambda", ["b"], ["if", "off", ["set!", "acc", ["cons", Q("bad"), "acc"]], ["set!", "acc", ["cons", ["+", "a", "b"], "acc"]]], "acc"], 2]]],
    "let-closure-escaping-test": [["define", ["h"], ["let", [["off", K], ["acc", NIL]],
                                                      ["lambda", ["x"], ["lambda", ["b"], ["if", "off", ["set!", "acc", ["cons", Q("bad"), "acc"]],
                                                                                           ["set!", "acc", ["cons", ["+", "x", "b"], "acc"]]], "acc"]]]],
                                  [[["h"], 1], 2]],
    "let-value": [["let", [["u", K]], ["cons", "u", "a"]]],
    "let-shadowed-by-param": [["let", [["u", K]], [["lambda", ["u"], ["if", "u"] + YN], "a"]]],
    "let-shadowed-by-inner-let": [["let", [["u", K]], ["let", [["u", "a"]], ["if", "u", ["cons", "u", 1], Q("n")]]]],
    "let-shadows-outer": [["let", [["a", K]], ["if", "a"] + YN]],
    "let-used-twice": [["let", [["u", K]], ["cons", ["if", "u", 1, 2], ["cons", "u", NIL]]]],
    "let-in-closure-2-deep": [["let", [["u", K]], [["lambda", [], [["lambda", [], ["if", "u", ["cons", "a", 1], ["cons", "a", 2]]]]]]]],
    "let*-test": [["let*", [["u", K], ["w", "u"]], ["if", "w", 1, 2]]],
    "letrec-init-test": [["letrec", [["u", K]], ["if", "u", 1, 2]]],
    "named-let-init": [["let", "lp", [["x", K], ["n", 0]], ["if", ["<", "n", 1], ["lp", "x", ["+", "n", 1]], ["if", "x", Q("t"), Q("f")]]]],
    "do-init": [["do", [["x", K], ["i", 0, ["+", "i", 1]]], [[">", "i", 0], ["if", "x", Q("t"), Q("f")]]]],
    "set-value-test": [["set!", "a", K], ["if", "a", Q("t"), Q("f")]],
    "set-value-returned": [["set!", "a", K], "a"],
    "define-init-test": [["define", "k", K], ["if", "k", Q("t"), Q("f")]],
    "define-init-returned": [["define", "k", K], "k"],
    "define-init-closure-test": [["define", "k", K], ["define", ["g"], ["if", "k", 1, 2]], ["g"]],
    "seq-stmt": [["begin", K, 1]],
    "seq-stmt-body": [K, "a"],
    "seq-stmt-before-set": [["begin", K, ["set!", "a", 2], "a"]],
    "seq-stmt-after-set": [["begin", ["set!", "a", 2], K, "a"]],
    "seq-stmt-in-branch": [["if", ["=", "a", 1], ["begin", K, Q("one")], Q("other")]],
    "value": [K],
    "value-after-set": [["set!", "a", 2], K],
    "value-after-call": [[["lambda", ["z"], ["set!", "a", "z"]], 3], K],
    "value-then": [["if", ["=", "a", 1], K, 0]],
    "value-else": [["if", ["=", "a", 0], 0, K]],
    "value-from-closure": [[["lambda", [], K]]],
}
CONST_POSITIONS_INT = {           # only for integer constants: operands of folded / unfolded arithmetic and comparisons
    "arith-operand": [["+", K, 1]],
    "arith-operand-2nd": [["*", 2, K]],
    "arith-with-variable": [["+", "a", K]],
    "arith-all-constant-test": [["if", ["=", K, 0]] + YN],
    "compare-constant-test": [["if", ["<", K, 1]] + YN],
    "arith-nary": [["+", 1, K, "a"]],
}
CONST_CTXTS = ["proc", "top", "lambda", "nested"]


def subst_k(x, k):
    if x == K:
        return k
    if isinstance(x, list):
        return [subst_k(y, k) for y in x]
    return x


def const_case(body, const, ctxt):
    body = subst_k(body, const)
    pre = [f for f in body if isinstance(f, list) and f and f[0] == "define" and isinstance(f[1], list) and f[1][0] in ("h", "tst")]
    body = [f for f in body if f not in pre]
    if ctxt == "top":
        return pre + [["define", "a", 1]] + body
    if ctxt == "proc":
        return pre + [["define", ["f", "a"]] + body, lst(["f", 1], 99)]
    if ctxt == "lambda":
        return pre + [lst([["lambda", ["a"]] + body, 1], 99)]
    if ctxt == "nested":                                # the body one lambda below the binder of `a`
        return pre + [["define", ["f", "a"], [["lambda", ["z"]] + body, 7]], lst(["f", 1], 99)]
    raise ValueError(ctxt)


def const_family(rng=None, quick=False):
    """every constant x both spellings x every position class x context.  quick: context `proc` in full (simplify.c only
    inlines let variables inside a lambda), the false / nil / zero constants in every context, the rest sampled."""
    out = []
    for cname, cexp, isint in CONSTANTS:
        for table in (CONST_POSITIONS, CONST_POSITIONS_INT if isint else {}):
            for pos, body in table.items():
                for ctxt in CONST_CTXTS:
                    if quick and ctxt != "proc" and cname not in ("false", "q-false", "q-nil", "q-zero", "q-true") and rng.random() < 0.9:
                        continue
                    out.append(("const/%s/%s/%s" % (pos, ctxt, cname), const_case(body, cexp, ctxt)))
    return out


def tailcall_family():
    """a procedure with j parameters (0-3) tail-calls (and, as a control, calls) a procedure with i arguments (0-9): TAIL-CALL
    copies the new arguments over the caller's frame (vm.c:1382-1400; the regions overlap when i > j + 4), then make_call
    applies one of its three protocols (fixed arity, rest list built, unused rest)"""
    out = []
    for j in (0, 1, 2, 3):
        cps = ["a%d" % n for n in range(j)]
        for i in range(0, 10):
            args = [cps[n % j] if j and n % 3 == 1 else 100 + n for n in range(i)]
            gps = ["p%d" % n for n in range(i)]
            callees = {"fixed": ["define", ["g"] + gps, lst(*gps)], "rest-only": ["define", ["g", ".", "r"], "r"]}
            if i >= 1:
                callees["rest-used"] = ["define", ["g", "p0", ".", "r"], ["cons", "p0", "r"]]
                callees["rest-unused"] = ["define", ["g", "p0", ".", "r"], ["cons", "p0", 0]]
            if i >= 3:
                callees["rest-after-2"] = ["define", ["g", "p0", "p1", ".", "r"], ["cons", "p1", ["cons", "p0", "r"]]]
            for cn, gdef in callees.items():
                call = [["c"] + [10 + n for n in range(j)]]
                out.append(("tailcall/%s/j%d/i%d" % (cn, j, i),
                            [gdef, ["define", ["c"] + cps, ["g"] + args], ["define", ["d"] + cps, ["cons", ["g"] + args, 7]],
                             lst(call[0], ["d"] + [10 + n for n in range(j)], 99)]))
    return out


def argeval_family():
    """each operand of an n-ary call (n = 1..4) in turn is the ONE effectful operand: it increments a counter and returns a
    distinct value; the result lists the parameters as the callee saw them and the counter: every operand is evaluated
    exactly once and bound to its own parameter, whatever the order.  Callees: lambda literal, global procedure, procedure
    with rest parameter (used / unused), closure over a variable, inlined primitive, apply."""
    out = []
    ps = ["p", "q", "r", "s"]
    for n in (1, 2, 3, 4):
        for k in range(n):
            args = [["begin", ["set!", "cnt", ["+", "cnt", 1]], 100 + i] if i == k else 10 + i for i in range(n)]
            pre = [["define", "cnt", 0]]
            callees = {
                "lambda": (pre, [["lambda", ps[:n], lst(*ps[:n])]] + args),
                "global": (pre + [["define", ["g"] + ps[:n], lst(*ps[:n])]], ["g"] + args),
                "rest-used": (pre + [["define", ["g", ps[0], ".", "more"], ["cons", ps[0], "more"]]], ["g"] + args),
                "rest-unused": (pre + [["define", ["g", ps[0], ".", "more"], ps[0]]], ["g"] + args),
                "rest-only": (pre + [["define", ["g", ".", "more"], "more"]], ["g"] + args),
                "closure": (pre + [["define", ["mk", "c"], ["lambda", ps[:n], ["cons", "c", lst(*ps[:n])]]]], [["mk", 7]] + args),
                "apply": (pre + [["define", ["g"] + ps[:n], lst(*ps[:n])]], ["apply", "g"] + args + [NIL]),
                "boxed-params": (pre + [["define", ["g"] + ps[:n], ["set!", ps[0], ["cons", ps[0], NIL]], [["lambda", [], lst(*ps[:n])]]]], ["g"] + args),
            }
            if n == 2:
                callees["cons"] = (pre, ["cons"] + args)
                callees["minus"] = (pre, ["-"] + args)
                callees["greater"] = (pre, [">"] + args)
            if n >= 3:
                callees["plus-nary"] = (pre, ["+"] + args)
            for cn, (defs, call) in callees.items():
                out.append(("argeval/%s/n%d/k%d" % (cn, n, k), defs + [[["lambda", ["res"], lst("res", "cnt")], call]]))
    return out


FIXED_CASES = [
    ("rest-assigned-F-C03-1", [["define", ["f", "a", ".", "rest"], ["set!", "rest", 5], "a"], ["cons", ["f", 3], ["cons", 2, ["cons", 1, ["quote", []]]]]]),
    ("rest-assigned-extra", [["define", ["f", "a", ".", "rest"], ["set!", "rest", 5], "a"], ["cons", ["f", 3, 4, 5], ["cons", 2, ["quote", []]]]]),
    ("rest-captured-only", [["define", ["f", "a", ".", "rest"], ["lambda", [], "rest"]], ["cons", [["f", 3, 4]], ["cons", [["f", 3]], ["quote", []]]]]),
    ("rest-unused-extra", [["define", ["f", "a", ".", "rest"], "a"], ["cons", ["f", 3, 4, 5], ["cons", ["f", 6], ["quote", []]]]]),
    ("rest-only", [[["lambda", "r", "r"], 1, 2, 3]]),
    ("too-many", [[["lambda", ["a"], "a"], 1, 2]]),
    ("too-few", [[["lambda", ["a", "b"], "a"], 1]]),
    ("too-few-rest", [[["lambda", ["a", "b", ".", "r"], "a"], 1]]),
    ("not-proc", [[5, 1]]),
    ("car-int", [["car", 5]]),
    ("add-sym", [["+", ["quote", "a"], 1]]),
    ("undefined", [["cons", "nosuchvar", 1]]),
    ("set-returns", [[["lambda", ["a"], ["set!", "a", 2], "a"], 1]]),
    ("shadow-prim", [[["lambda", ["car"], ["car", 1]], ["lambda", ["z"], ["cons", "z", "z"]]]]),
    ("counter", [["define", ["mk"], ["define", "n", 0], ["lambda", [], ["set!", "n", ["+", "n", 1]], "n"]],
                 [["lambda", ["c1", "c2"], ["c1"], ["c1"], ["c2"], ["cons", ["c1"], ["cons", ["c2"], ["quote", []]]]], ["mk"], ["mk"]]]),
]


# ------------------------------------------------------------------ the check

def model_requests(ctx, exe, reqs):
    return ctx.run_model(exe, reqs, timeout=1500)


def check_programs(ctx, h, exe, progs, pair_type_hint=None, outer=True, label="C03", timeout=None):
    """progs: list of (key, forms).  Runs everything; reports through ctx.  Returns list of per-program dicts."""
    texts = [" ".join(scm(f) for f in forms) for _, forms in progs]
    hdr, answers = h.run(["PROGQ " + t for t in texts], timeout=timeout)
    pair_type = hdr.get("pair-type", 6)
    names = QNames()
    mreq, plan = [], []
    for (key, forms), text, ans in zip(progs, texts, answers):
        ent = dict(key=key, text=text, impl=impl_outcome(ans), inner=[], spec=None, unsupported=None)
        plan.append(ent)
        # ---- outer: spec on this file's own AST
        try:
            wires = program_to_model(forms, names)
            ent["spec_req"] = len(mreq)
            mreq.append("sem %d %s" % (FUEL, " ".join(sx_str(w) for w in wires)))
            ent["vm_req"] = len(mreq)
            mreq.append("vm %d %s" % (60000, " ".join(sx_str(w) for w in wires)))
            ent["own"] = wires
        except Unsupported as e:
            ent["unsupported"] = str(e)
        # ---- inner: what the compiler produced for each form
        a0s = [t for tag, t in ans["lines"] if tag == "A0"]
        a2s = [t for tag, t in ans["lines"] if tag == "A2"]
        bs = [t for tag, t in ans["lines"] if tag == "B"]
        ent["a0"] = a0s
        fls = [t for tag, t in ans["lines"] if tag == "F"]
        for n_, (a2, b) in enumerate(zip(a2s, bs)):
            try:
                w = wire_ast(sx_parse(a2), names)
            except (Unsupported, ValueError, IndexError) as e:
                ent["inner"].append(dict(unsupported=str(e)))
                continue
            i_ = dict(a2=w, r_annot=len(mreq), r_wf=len(mreq) + 1, r_flags=len(mreq) + 2,
                      impl_flags=fls[n_] if n_ < len(fls) else None)
            s = sx_str(w)
            mreq += ["annot " + s, "wf " + s, "restflags " + s]
            try:
                i_["code"] = wire_code(sx_parse(b), names, pair_type)
                i_["r_code"] = len(mreq)
                mreq.append("code " + s)
            except (Unsupported, ValueError, IndexError) as e:
                i_["code_unsupported"] = str(e)
            ent["inner"].append(i_)
    mout = model_requests(ctx, exe, mreq) if mreq else []
    for ent in plan:
        ent["names"] = names
        if "spec_req" in ent:
            ent["spec"] = model_value_to_text(mout[ent["spec_req"]], names)
            ent["vm"] = model_value_to_text(mout[ent["vm_req"]], names)
        for i in ent["inner"]:
            if "a2" in i:
                i["m_annot"], i["m_wf"], i["m_flags"] = mout[i["r_annot"]], mout[i["r_wf"]], mout[i["r_flags"]]
                i["m_code"] = mout[i["r_code"]] if "r_code" in i else None
    return plan


def first_diff(a, b, path=""):
    if isinstance(a, list) and isinstance(b, list):
        for n, (x, y) in enumerate(zip(a, b)):
            d = first_diff(x, y, path + "/%d" % n)
            if d:
                return d
        if len(a) != len(b):
            return "%s: lengths %d vs %d" % (path, len(a), len(b))
        return None
    return None if a == b else "%s: %s vs %s" % (path, sx_str(a)[:80], sx_str(b)[:80])


def replay_cmd(text, d):
    return "echo 'PROGF %s' | LD_LIBRARY_PATH=%s %s/embed_c03 | grep '^[VE] '" % (text.replace("'", "'\\''"), d, d)


def spec_verdict(spec):
    """the SPEC prescribes an observable outcome: not out of fuel / outside the fragment, and no unspecified value
    (the value of set!, define, one-armed if) inside the result"""
    return spec is not None and not (spec.startswith("ERR") or spec in ("OUT", "E STUCK") or "#<void>" in spec)


def judge(ctx, plan, d, viols, label="C03", count=True):
    """compare; a violation (appended to viols, reported by emit_violations) only when the real outcome
    contradicts the SPEC; an inner disagreement marks the entry (ent["inner_bad"]) for the targeted search"""
    for ent in plan:
        key, text = ent["key"], ent["text"]
        if count:
            ctx.count(1, key=text, nontrivial="lambda" in text or "define" in text)
        outer_bad = False
        if ent["spec"] is not None:
            spec, impl = ent["spec"], ent["impl"]
            if not spec_verdict(spec):
                ctx.note("spec gave no verdict for %s (%s): %s" % (key, spec, text[:200]))
            elif spec != impl:
                outer_bad = True
                viols.append(dict(sig="eval:" + key.split("#")[0].split("/")[0] + ":" + classify(text), key=key,
                                  forms=ent.get("forms"), input=text, expected=spec, observed=impl))
            if ent["vm"] != ent["spec"] and spec_verdict(spec):
                ctx.broken("model-compile-correct", "model compiler+VM and SPEC disagree on %s: vm=%s spec=%s" % (text[:300], ent["vm"], ent["spec"]))
        bad = []
        # analyser output vs this file's own analysis (core-only programs give identical trees)
        if ent.get("own") and len(ent["a0"]) == len(ent["own"]) and ent.get("compare_a0", True):
            for a0, own in zip(ent["a0"], ent["own"]):
                try:
                    w = strip_for_a0(wire_ast(sx_parse(a0), ent["names"]))
                except (Unsupported, ValueError, IndexError):
                    continue
                if ent.get("core_only"):
                    df = first_diff(w, strip_for_a0(own))
                    if df:
                        bad.append(("correspondence:analyze", "analyser output differs from independent scope resolution on %s at %s" % (text[:300], df), {}))
        for i in ent["inner"]:
            if "a2" not in i:
                ctx.note("outside the modelled fragment (%s): %s" % (i["unsupported"], text[:120]))
                continue
            ctx.cov["traces_validated_against_impl"] += 1
            # the real sexp_rest_unused_p vs the model's rest_unused (the function of theorem rest_unused_sound), per lambda
            if i.get("impl_flags") is not None:
                try:
                    fi = sorted(tuple(x) for x in sx_parse(i["impl_flags"]))
                    fm = sorted(tuple(x) for x in sx_parse(i["m_flags"]))
                except (ValueError, IndexError):
                    fi, fm = None, "unparsable"
                if fi != fm:
                    bad.append(("correspondence:rest-unused", "sexp_rest_unused_p and the model's rest_unused differ (id rest? unused?) impl=%s model=%s on %s"
                                % (i["impl_flags"], i["m_flags"], text[:300]), {}))
            if i["m_wf"] != "1":
                bad.append(("correspondence:wf", "analyser output violates wf_program (theorem hypothesis) on %s" % text[:300], {}))
                continue
            try:
                ma = sx_parse(i["m_annot"])
            except (ValueError, IndexError):
                ctx.broken("correspondence:model-output", "unparsable model output %s" % i["m_annot"][:100])
                continue
            df = first_diff(ma, i["a2"])
            if df:
                bad.append(("correspondence:free-vars", "sexp_free_vars and the model's annotate differ on %s at %s" % (text[:300], df), {}))
            if i.get("m_code") is None:
                ctx.note("bytecode outside the modelled fragment (%s): %s" % (i.get("code_unsupported"), text[:120]))
                continue
            try:
                mc = sx_parse(i["m_code"])
            except (ValueError, IndexError):
                ctx.broken("correspondence:model-output", "unparsable model output %s" % i["m_code"][:100])
                continue
            dc = first_diff(mc, i["code"])
            if dc:
                why = ""
                if re.search(r": (TAIL-CALL vs CALL|CALL vs TAIL-CALL)$", dc):
                    # the same call compiled as CALL instead of TAIL-CALL (or the reverse) computes the same value: the
                    # difference is the frame that stays on the stack
                    why = " [tail-call flag of a call differs: values are unchanged, observable only as stack growth: property C05]"
                bad.append(("correspondence:generate", "bytecode differs from the model's generate on %s at %s%s" % (text[:300], dc, why),
                            dict(impl_code=sx_str(i["code"])[:1500], model_code=sx_str(mc)[:1500])))
        ent["outer_bad"] = outer_bad
        ent["inner_bad"] = bad


def classify(text):
    c = []
    if ". " in text or "(lambda o " in text or re.search(r"\(lambda [a-z]", text):
        c.append("rest")
    if "set!" in text:
        c.append("set")
    if "define" in text:
        c.append("define")
    return "+".join(c) or "plain"


# ------------------------------------------------------------------ shrinking a failing program

def shrink_candidates(forms):
    """one-step simplifications of a surface program: drop a form / a body element, replace a list by one of its
    elements or by a constant.  Ill-formed results are filtered by running them (both sides must still answer)."""
    out = []

    def paths(x, p):
        if isinstance(x, list):
            yield p
            for n, y in enumerate(x):
                yield from paths(y, p + (n,))

    def get(x, p):
        for n in p:
            x = x[n]
        return x

    def put(x, p, v):
        if not p:
            return v
        c = list(x)
        c[p[0]] = put(x[p[0]], p[1:], v)
        return c

    for n in range(len(forms) - 1):
        out.append(forms[:n] + forms[n + 1:])
    for p in paths(forms, ()):
        if not p:
            continue
        node = get(forms, p)
        if not node:
            continue
        for n, y in enumerate(node):                      # a sub-expression in place of the whole
            if n > 0 and (isinstance(y, list) and y or isinstance(y, (int, bool))):
                out.append(put(forms, p, y))
        if len(node) > 2:                                 # drop one element (body form, argument, clause, binding)
            for n in range(1, len(node)):
                out.append(put(forms, p, node[:n] + node[n + 1:]))
        out.append(put(forms, p, 0))
    seen, uniq = set(), []
    for c in out:
        k = repr(c)
        if k not in seen and c and isinstance(c, list) and all(isinstance(f, list) and f or isinstance(f, (str, int)) for f in c):
            seen.add(k)
            uniq.append(c)
    return uniq


def size_of(x):
    return 1 + sum(size_of(y) for y in x) if isinstance(x, list) else 1


def run_pairs(ctx, h, exe, progs):
    """(key, forms) -> list of (forms, text, spec, impl) for the programs both sides could run"""
    ok, texts = [], []
    for k, f in progs:
        try:
            t = " ".join(scm(x) for x in f)
            program_to_model(f, QNames())
        except Exception:
            continue
        ok.append((k, f))
        texts.append(t)
    if not ok:
        return []
    # candidates that do not terminate are dropped BEFORE the real implementation and the SPEC interpreter see them: the
    # model VM is bounded in steps (the SPEC's fuel bounds the depth only, a branching recursion would take forever)
    try:
        names = QNames()
        outs = ctx.run_model(exe, ["vm 20000 " + " ".join(sx_str(w) for w in program_to_model(f, names)) for k, f in ok], timeout=300)
    except Exception:
        return []
    ok = [kf for kf, o in zip(ok, outs) if o.startswith("V ") or (o.startswith("E ") and o != "E STUCK")]
    if not ok:
        return []
    try:
        plan = check_programs(ctx, h, exe, ok, timeout=20)
    except Exception:
        return []
    return [(f, e["text"], e["spec"], e["impl"]) for (k, f), e in zip(ok, plan)]


def same_failure(v, spec, impl):
    """a shrunk program must fail in the same way: the SPEC still gives a verdict of the same kind (value /
    the same error class) without uninitialised values, and the implementation still contradicts it in the same way"""
    if not spec_verdict(spec) or spec == impl or "#<undef>" in spec:
        return False
    if spec.split()[0] != v["expected"].split()[0] or (spec.startswith("E ") and spec != v["expected"]):
        return False
    if impl.startswith("E "):
        return impl == v["observed"]                       # the same error class, not e.g. a syntax error introduced by shrinking
    return impl.split()[0] == v["observed"].split()[0]


def shrink(ctx, h, exe, v, rounds=14, width=160):
    forms = v.get("forms")
    if not forms:
        return None
    best, bspec, bimpl = forms, v["expected"], v["observed"]
    for _ in range(rounds):
        cands = sorted(shrink_candidates(best), key=size_of)[:width]
        res = run_pairs(ctx, h, exe, [("shrink", c) for c in cands])
        good = [(size_of(f), f, sp, im) for f, t, sp, im in res if same_failure(v, sp, im) and size_of(f) < size_of(best)]
        if not good:
            break
        good.sort(key=lambda g: g[0])
        _, best, bspec, bimpl = good[0]
    if best is forms:
        return None
    return dict(text=" ".join(scm(x) for x in best), expected=bspec, observed=bimpl)


def emit_violations(ctx, h, exe, d, viols, max_shrunk_per_sig=1):
    per = {}
    for v in viols:
        n = per.get(v["sig"], 0)
        per[v["sig"]] = n + 1
        extra = {}
        rp = replay_cmd(v["input"], d)
        if n < max_shrunk_per_sig and len(per) <= 6:
            try:
                sh = shrink(ctx, h, exe, v)
            except Exception as e:                            # shrinking is best effort
                sh = None
                ctx.note("shrinking failed: %r" % (e,))
            if sh:
                extra = dict(shrunk_input=sh["text"], shrunk_expected=sh["expected"], shrunk_observed=sh["observed"],
                             shrunk_replay=replay_cmd(sh["text"], d))
        ctx.violation(v["sig"], input=v["input"], expected=v["expected"], observed=v["observed"], replay=rp, **extra)


def report_inner(ctx, plan):
    """inner disagreements that no outer violation explains become `broken` entries"""
    seen = {}
    for e in plan:
        if e.get("outer_bad"):
            continue
        for name, reason, kw in e.get("inner_bad", []):
            seen[name] = seen.get(name, 0) + 1
            if seen[name] <= 3:
                ctx.broken(name, reason, **kw)
                if os.environ.get("VERIF_DEBUG"):
                    print("BROKEN", name, reason, kw)
    return seen


def feature_families(rng, texts, full):
    """families exercising the features of the programs on which model and code disagree"""
    t = " ".join(texts)
    fams = []
    if ". " in t or "restpos" in t or re.search(r"\(lambda [a-z]", t):
        fams.append(("rest parameters in every position class", rest_family()))
    if re.search(r"\(define \([a-z0-9]+[^)]*\) \(define|lambda \([^)]*\) \(define|letrec", t):
        fams.append(("internal defines / letrec with forward references", fwd_family()))
    if re.search(r"^\(define|\) \(define [a-z0-9]+ ", t) or "set!" in t:
        fams.append(("top-level define / re-define / set! sequences", toplevel_family(rng, 600)))
    fams.append(("constants in both spellings in every position class", const_family()))
    fams.append(("exactly-once evaluation and binding of every operand", argeval_family()))
    fams.append(("tail calls with 0-9 arguments out of frames with 0-3 parameters", tailcall_family()))
    fams.append(("captured variables in every position class", capture_pos_family()))
    fams.append(("capture patterns", capture_family()))
    fams.append(("closure chains", chain_family()))
    fams.append(("derived-form scoping cases", [("misc-" + k, f) for k, f in MISC_CASES]))
    return fams


def targeted_search(ctx, h, exe, d, plan, viols):
    """inner disagreement without an outer one: hunt for a program whose VALUE is wrong among programs that
    exercise the disagreeing feature (the families in full, variants of the disagreeing programs)"""
    bad = [e for e in plan if e.get("inner_bad") and not e.get("outer_bad")]
    if not bad or viols:
        return
    progs = []
    for e in bad[:40]:
        forms = e["forms"]
        progs.append((e["key"] + "#twice", forms[:-1] + [["cons", forms[-1], ["cons", forms[-1], ["quote", []]]]]))
        progs.append((e["key"] + "#wrapped", forms[:-1] + [[["lambda", ["a", "b", "c"], ["cons", "a", ["cons", forms[-1], ["cons", "c", ["quote", []]]]]], 1, 2, 3]]))
    batches = [("variants of the disagreeing programs", progs)] + feature_families(ctx.rng, [e["text"] for e in bad], True)
    for what, progs in batches:
        for lo in range(0, len(progs), 1500):
            part = progs[lo:lo + 1500]
            plan2 = check_programs(ctx, h, exe, part)
            for e, (k, f) in zip(plan2, part):
                e["forms"] = f
                if spec_verdict(e["spec"]):
                    ctx.count(1, key=e["text"], nontrivial=True)
                    if e["spec"] != e["impl"]:
                        viols.append(dict(sig="eval:" + e["key"].split("#")[0].split("/")[0] + ":" + classify(e["text"]), key=e["key"],
                                          forms=f, input=e["text"], expected=e["spec"], observed=e["impl"]))
        ctx.note("targeted search (%s, %d programs): %d failing so far" % (what, len(progs), len(viols)))
        if viols:
            return


def load_corpus():
    out = []
    cdir = os.path.join(HERE, "..", "corpus", "C03")
    if os.path.isdir(cdir):
        for f in sorted(os.listdir(cdir)):
            if f.endswith(".json"):
                j = json.load(open(os.path.join(cdir, f)))
                out.append(("corpus:" + f[:-5], j["forms"]))
    return out


def run(ctx):
    ctx.cov["rule"] = ("programs = (a) corpus, (b) fixed call-protocol / error cases and derived-form scoping cases (named let, do, cond =>, "
                       "case, and/or, truthiness, operand set!), (c) capture family: binding kind {param 0/1/last, rest with 0/1/3 extra "
                       "args, internal define 1st/2nd, let} x use {captured read, write, read+write, own write, own write + captured read, "
                       "shadowed, unused, forward reference} x nesting depth 1-4 x {immediate, escaping closure}, (d) position families: a "
                       "rest parameter / a captured variable referenced at exactly one of 44 syntactic position classes (test of "
                       "if/cond/and/or/when/unless/case/do, operand, operator, set! target/value, nested closures, only then/else branch, "
                       "non-final sequence element, initialisers) x call shape x 0/1/3 surplus arguments, (e) forward-reference family: "
                       "earlier closure -> later internal define / letrec / letrec* binding x initialiser {5 constants, computed, lambda} x "
                       "{never assigned, assigned in body, assigned by a closure} x closure depth 1-3, (f) top-level sequences: define, "
                       "re-define, set!, forward references, procedures compiled before the globals they use (fixed + random), (g) closure "
                       "chains 4-6 deep with every boxed/unboxed mask, (h) seeded random typed programs (pure operands, so argument order "
                       "cannot matter) over core and derived forms, integer / boolean leaves written bare or quoted, (i) constants family: "
                       "22 constant spellings (#f '#f #t '#t '() 0 '0 5 '5 'sym '(1 . 2) '(1 2) and vector / string / bignum / flonum / "
                       "char each bare and quoted: bare immediate vs literal NODE vs bare object in the AST) x 60 position classes (test of "
                       "if / one-armed if / cond / cond => / when / unless / and / or / do / case key, operand, operator, argument bound to a "
                       "parameter / rest list / let variable (never assigned, assigned, shadowed, captured 1-2 lambdas down), set! value, "
                       "internal define initialiser, sequence statement before / after an effect, final value after an effect, folded "
                       "arithmetic) x context {procedure body, top level, lambda literal, one lambda below}, (j) exactly-once evaluation "
                       "and binding of each operand of 1-4-ary calls (8 callee kinds + inlined primitives), (k) tail calls with 0-9 arguments "
                       "out of frames with 0-3 parameters x callee protocol, (l) multiple values: define-values (top level / internal) / "
                       "let-values / let*-values / call-with-values x producer (0-4 values, plain value, pair, either branch of an if, through "
                       "a procedure) x every lambda-list shape accepting that many values, (m) arity boundaries: callee {0-3 fixed "
                       "parameters} x {no rest, rest used, unused, stale set-vars entry, assigned} x 0..#fixed+2 arguments x {literal, global, "
                       "tail call, apply}; position classes of (d) include assignments that simplification removes (stale set-vars entry, "
                       "at each position of the set-vars); a case is distinct by program text and non-trivial when it "
                       "contains a lambda or define")
    ctx.coq_obligations("Properties_C03")
    partial = False
    try:
        d = ctx.build("default")
    except B.BuildError:
        # vlib/build.py raises when ANY step of the tree's own `make all` fails and leaves the directory on disk.  The later
        # steps run the freshly built chibi-scheme (chibi-ffi on .stub files, module compilation), so a broken compiler makes
        # them fail.  If chibi-scheme and the core library were linked, go on with them: the harness only needs
        # libchibi-scheme.so and lib/init-7.scm (it defines when/unless itself when (scheme base) cannot be imported).
        d = os.path.join(B.SCRATCH, "default-" + B.source_hash())
        if not (os.path.exists(os.path.join(d, "libchibi-scheme.so")) and os.path.exists(os.path.join(d, "lib", "init-7.scm"))):
            raise
        partial = True
        ctx.note("build of the tree failed after libchibi-scheme was linked; continued with the core library only")
    exe = ctx.extract("C03")
    if exe is None:
        return
    h = Harness(d, limit=10)
    rng = ctx.rng
    q = not ctx.thorough
    progs = load_corpus() + [(k, f) for k, f in FIXED_CASES] + [("misc-" + k, f) for k, f in MISC_CASES] + [(k, f) for k, f in REDEFINE_READS_OLD]
    progs += nary_family()
    fam = capture_family()
    if q:
        fam = [fam[i] for i in sorted(rng.sample(range(len(fam)), min(240, len(fam))))]
    core_keys = set(k for k, _ in fam) | set(k for k, _ in FIXED_CASES)
    progs += fam
    if not os.environ.get("VERIF_C03_NO_FAMILIES"):        # (self-test knob: without them the targeted search must do the work)
        progs += rest_family(rng, 4 if q else None)
        progs += capture_pos_family(rng, 130 if q else None)
        progs += fwd_family(rng, 160 if q else None)
        progs += toplevel_family(rng, 120 if q else 3000)
        progs += chain_family(rng, 60 if q else None)
        progs += const_family(rng, quick=q)
        progs += argeval_family()
        progs += mv_family(rng, 60 if q else None)
        progs += arity_family()                      # 290 tiny programs: in full in both tiers
        tc = tailcall_family()
        progs += [tc[i] for i in sorted(rng.sample(range(len(tc)), 60))] if q else tc
    nrand = 500 if q else 20000
    for i in range(nrand):
        g = GenQ(rng, derived=(i % 2 == 1))
        progs.append(("rand-%s#%d" % ("derived" if i % 2 else "core", i), g.program(rng.choice([2, 3, 4]))))
    plan, viols = [], []
    CH = 2500
    for lo in range(0, len(progs), CH):
        part = check_programs(ctx, h, exe, progs[lo:lo + CH])
        for e, (k, f) in zip(part, progs[lo:lo + CH]):
            e["forms"] = f
            e["core_only"] = ((k in core_keys and "let" not in k) or k.startswith("rand-core")) and not has_quoted_pair(f)
        plan += part
        judge(ctx, part, d, viols)
    targeted_search(ctx, h, exe, d, plan, viols)
    inner = report_inner(ctx, plan)
    if inner:
        ctx.note("inner disagreements by kind: %s" % sorted(inner.items()))
    emit_violations(ctx, h, exe, d, viols)
    dist = {}
    for e in plan:
        c = e["key"].split("#")[0].split("/")[0]
        dist[c] = dist.get(c, 0) + 1
    ctx.cov["generator_distribution"] = dict(by_family=dict(sorted(dist.items(), key=lambda kv: -kv[1])[:30]),
                                             with_rest=sum(1 for e in plan if "rest" in classify(e["text"])),
                                             with_set=sum(1 for e in plan if "set!" in e["text"]),
                                             with_internal_define=sum(1 for e in plan if "(define" in e["text"][1:]),
                                             multi_form=sum(1 for e in plan if len(e.get("forms") or []) > 2),
                                             rest_flag_comparisons=sum(1 for e in plan for i in e["inner"] if i.get("impl_flags") is not None),
                                             errors_expected=sum(1 for e in plan if (e["spec"] or "").startswith("E ")))
    for e in plan[:1] + plan[len(FIXED_CASES) + 3:len(FIXED_CASES) + 5] + plan[-2:]:
        ctx.sample(dict(program=e["text"][:400], spec=e["spec"], impl=e["impl"],
                        inner_forms=len(e["inner"])))
    ctx.assume("operands of applications are evaluated right to left by the SPEC (R7RS leaves the order open; generated programs have at most one effectful operand whose effect no other operand observes)")
    ctx.assume("primitives' own semantics on fixnum-sized integers, pairs and symbols are taken from the SPEC table prim_sem; bignum arithmetic is C04")
    ctx.assume("macro expansion is validated per program (outer comparison with this file's R7RS 7.3 desugaring), hygiene is C07")
    ctx.assume("a global variable has ONE location for the whole program: a top-level define of a bound variable is an assignment (R7RS 5.3.1), which is what the SPEC's glob_set does")
    ctx.trust("props/C03.py desugarer + scope resolution (independent front end used as the SPEC's input), harness/embed_c03.c AST / bytecode dumper")


def replay(ctx, j):
    """./check C03 --replay evidence/replay/C03-n.json : re-run the recorded failing programs on the current tree"""
    d = ctx.build("default")
    h = Harness(d, limit=10)
    still = 0
    for c in j.get("failing_cases", []):
        _, ans = h.run(["PROGF " + c["input"]])
        out = impl_outcome(ans[0])
        bad = out != c.get("expected")
        still += bad
        print("%s\n   expected %s\n   observed %s   %s" % (c["input"][:500], c.get("expected"), out, "STILL FAILS" if bad else "passes now"))
    for u in j.get("no_longer_checks", []):
        print("no failing input recorded: %s: %s" % (u.get("name"), str(u.get("reason"))[:400]))
        still += 1
    return 1 if still else 0
