"""C17 — bitwise operations are two's-complement exact on all exact integers.
   (T) coq/Properties_C17.v   (G) gen/c17_leaf.py: log_table_256 + SWAR constants + leaf function texts from bit.c
   (K-inner) harness/embed_c17.c (dlopens lib/srfi/151/bit.so, calls the seven C entry points on fixnums and
             hand-built bignum word arrays) vs the extracted model (coq/C17/Model.v), word for word
   (K-outer) every export of (srfi 151) through the Scheme API vs the extracted Z spec (coq/C17/Spec.v).
   (G) gen/c17_bitwise.py: every definition of lib/srfi/151/bitwise.scm, 142.sld, 33.sld as Gallina (coq/Gen/C17_Bitwise.v, C17_Wrappers.v);
       the extracted regenerated definitions run on the outer cases too (translator validation)
   harness/c17_extra.py: (srfi 33)/(srfi 142) conventions, list/vector/fold/unfold/generator/n-ary forms, hostile arguments under ASan."""
import os, subprocess
from vlib import build as B, scm

B64 = 1 << 64
FIXMAX = (1 << 62) - 1
HERE = os.path.dirname(os.path.abspath(__file__))


# ---------------------------------------------------------------------------------------------- values
def lattice(rng, n_random, kmax=260, dense=True):
    vals = {0, 1, 2, 3, 5}
    for d in range(-2, 3):
        vals.add((1 << 62) + d)
        vals.add((1 << 61) + d)
    for k in range(1, kmax + 1):
        if dense or k % 64 in (0, 1, 2, 61, 62, 63) or k < 4:
            vals.update([1 << k, (1 << k) - 1, (1 << k) + 1])
    # all-ones / zero interior words, values next to a word boundary in two's complement
    W = B64 - 1
    vals.update([W << 64, (1 << 128) | W, (1 << 192) - 1, (1 << 192) + 1, (1 << 128) - (1 << 64), (W << 128) | 1,
                 B64 - 5, (1 << 127) + (1 << 64), (1 << 127) + 1, (1 << 63) << 64, ((1 << 63) << 64) | 1,
                 (1 << 191) | (1 << 63), W << 128, (W << 128) | W])
    for _ in range(n_random):
        bits = rng.choice([8, 40, 62, 63, 64, 65, 100, 127, 128, 129, 130, 192, 200, 256, rng.randrange(1, kmax + 1)])
        v = rng.getrandbits(bits)
        if rng.random() < 0.4:  # force interior zero / all-ones words
            w = rng.randrange(0, max(1, bits // 64 + 1))
            if rng.random() < 0.5:
                v &= ~(W << (64 * w))
            else:
                v |= (W << (64 * w))
        vals.add(v)
    out = sorted(vals)
    return out + [-v for v in out if v]


def words_of(v, spare=0):
    v = abs(v)
    ws = []
    while True:
        ws.append(v & (B64 - 1))
        v >>= 64
        if not v:
            break
    return ws + [0] * spare


def zhex(z):
    return ("-%x" % -z) if z < 0 else ("%x" % z)


def tok(v, rng=None, force_big=False, spare=None):
    """protocol token of integer v: fixnum when it fits (unless force_big), else bignum words (+ spare zero words)"""
    if -(1 << 62) <= v <= FIXMAX and not force_big:
        return "f" + zhex(v)
    if spare is None:
        spare = rng.choice([0, 0, 0, 1, 2, 3]) if rng else 0
    return "b%s:%s" % ("-1" if v < 0 else "1", ",".join("%x" % w for w in words_of(v, spare)))


def tokval(t):
    """integer value of a protocol token (None if it is not a number)"""
    try:
        if t.startswith("f"):
            return int(t[1:], 16)
        if t.startswith("b"):
            s, ws = t[1:].split(":")
            v = 0
            if ws != "_":
                for i, w in enumerate(ws.split(",")):
                    v += int(w, 16) << (64 * i)
            return int(s) * v
    except Exception:
        return None
    return None


def cls(v):
    return ("n" if v < 0 else "p") + ("f" if -(1 << 62) <= v <= FIXMAX else "b")


def popcount(v):
    return bin(v if v >= 0 else ~v).count("1")


def ilen(v):
    return (v if v >= 0 else ~v).bit_length()


def pyspec(fn, a, b):
    if fn == "and":
        return a & b
    if fn == "ior":
        return a | b
    if fn == "xor":
        return a ^ b
    if fn == "shift":
        return a << b if b >= 0 else a >> -b
    if fn == "count":
        return popcount(a)
    if fn == "length":
        return ilen(a)
    if fn == "bitset":
        return (b >> a) & 1
    raise KeyError(fn)


SCHEME_NAME = dict(xor="bitwise-xor", ior="bitwise-ior", shift="arithmetic-shift", count="bit-count", length="integer-length",
                   bitset="bit-set?")
SCHEME_NAME["and"] = "bitwise-and"


def shift_counts(rng, v):
    L = abs(v).bit_length()
    base = [1, 2, 61, 62, 63, 64, 65, 126, 127, 128, 129, 191, 192, 193, 256, 300]
    base += [L - 1, L, L + 1, L - 64, L - 63, L - 65, (L // 64) * 64, (L // 64) * 64 + 1, (L // 64 + 1) * 64, rng.randrange(1, 330)]
    c = rng.choice([x for x in base if x > 0])
    return c if rng.random() < 0.35 else -c


# ---------------------------------------------------------------------------------------------- the check
def run(ctx):
    thorough = ctx.thorough
    n_in, n_out = (9000, 9000) if not thorough else (250000, 200000)
    ctx.cov["rule"] = (
        "inner: operands = fixnums and bignum word arrays over the boundary lattice {0,+-1,+-2^62+-{0,1,2},+-2^k,+-(2^k+-1) k<=260, "
        "all-ones/zero interior words, seeded random} both signs, word lengths differing by 0-3, spare high zero words, bignums holding "
        "fixnum-sized values; shift counts and bit indices crossing multiples of 64 in both directions; the seven C entry points of "
        "bit.so vs the extracted model compared word for word (sign, every data word, fixnum/bignum class, operands unchanged); "
        "outer: every (srfi 151) export over the same lattice x shift counts x field bounds through the Scheme API vs the extracted Z "
        "spec, results must also be canonical (fixnum iff it fits); (srfi 33)/(srfi 142) and the list/vector/fold/unfold/generator/n-ary forms vs a python "
        "oracle written from the SRFI texts; hostile arguments (non-integers, flonum integers, counts/indices beyond the word and fixnum range, "
        "shifts that exhaust memory) of the seven C entry points under ASan: value or error, never a crash; "
        "distinct = distinct request; non-trivial = some operand is a bignum (or hostile)")
    from gen import c17_leaf
    c17_leaf.regen(ctx)          # (G) coq/Gen/C17_Leaf.v from lib/srfi/151/bit.c
    from gen import c17_bitwise
    c17_bitwise.regen(ctx)       # (G) coq/Gen/C17_Bitwise.v from lib/srfi/151/bitwise.scm (every derived operation)
    ctx.coq_obligations("Properties_C17")
    d = ctx.build("default")
    exe = ctx.extract("C17")
    if exe is None:
        return
    rng = ctx.rng
    lat = lattice(rng, 80 if not thorough else 600, 260 if not thorough else 1030)
    edge = lattice(rng, 0, 260, dense=False)      # the sub-lattice at word boundaries, used for all-pairs sweeps
    inner(ctx, d, exe, rng, lat, edge, n_in)
    outer(ctx, d, exe, rng, lat, edge, n_out)
    # (K-outer) (srfi 33) / (srfi 142) with their own argument conventions, the list / vector / higher-order / n-ary forms of
    # (srfi 151); hostile arguments of the seven C entry points under ASan (value or error, never a crash)
    import importlib.util
    sp = importlib.util.spec_from_file_location("c17_extra", os.path.join(HERE, "..", "harness", "c17_extra.py"))
    extra = importlib.util.module_from_spec(sp)
    sp.loader.exec_module(extra)
    extra.wrappers(ctx, d, exe, rng, lat)
    extra.errors(ctx, rng)
    ctx.assume("bit.c is compiled for 64-bit words (SEXP_64_BIT, sexp_uint_t = 64 bits, 62-bit fixnums); other word sizes are outside the model")
    ctx.assume("in the value correspondence shift counts and bit indices are fixnums of moderate size (|count| <= ~1100); huge / non-fixnum counts, "
               "indices and allocation failure are covered for the outcome class only (value or error, never a crash; harness/c17_extra.py errors())")
    ctx.assume("the theorems about bitwise.scm / 142.sld / 33.sld speak about their text with the C primitives replaced by the Z operations "
               "those are proved to compute (Properties_C17 bit_and_Z ... bit_set_Z), i.e. about Scheme evaluation with exact integers, outside error cases")
    ctx.trust("C semantics assumed where the standard leaves them to the implementation: >> of a negative sexp_sint_t is an arithmetic shift; "
              "log2i's 1<<64 for negative fixnums (UB) is only reached when the result does not matter (the bignum path is taken either way)")


def corpus_lines(kind):
    p = os.path.join(HERE, "..", "corpus", "C17", kind + ".txt")
    if not os.path.exists(p):
        return []
    return [l.strip() for l in open(p) if l.strip() and not l.startswith("#")]


def inner(ctx, d, exe, rng, lat, edge, n):
    emb = B.cc_embed(d, os.path.join(HERE, "..", "harness", "embed_c17.c"), os.path.join(d, "embed_c17"))
    so = os.path.join(d, "lib", "srfi", "151", "bit.so")
    reqs = list(corpus_lines("inner"))
    big = [v for v in lat if abs(v) > FIXMAX]
    small = [v for v in lat if abs(v) <= FIXMAX] + [-(1 << 62)]

    def operand(other=None):
        r = rng.random()
        if other is not None and r < 0.15:      # related operands: same magnitude / complement / neighbours
            v = rng.choice([other, -other, ~other, other + 1, other - 1, -other - 1, -other + 1])
        elif r < 0.75:
            v = rng.choice(big)
        else:
            v = rng.choice(small)
        return v

    for i in range(n):
        fn = rng.choice(["and", "ior", "xor", "and", "ior", "xor", "shift", "shift", "count", "length", "bitset"])
        a = operand()
        fb = rng.random() < 0.1                   # a bignum object that holds a fixnum-sized value
        if fb and a == 0:
            fb = False
        if fn in ("and", "ior", "xor"):
            b = operand(a)
            fb2 = rng.random() < 0.05 and b != 0
            reqs.append("%s %s %s" % (fn, tok(a, rng, fb), tok(b, rng, fb2)))
        elif fn == "shift":
            reqs.append("shift %s %s" % (tok(a, rng, fb), zhex(shift_counts(rng, a))))
        elif fn == "bitset":
            L = abs(a).bit_length()
            idx = rng.choice([0, 1, 2, 61, 62, 63, 64, 65, 127, 128, 129, L - 1, L, L + 1, max(0, L - 64), rng.randrange(0, 330)])
            reqs.append("bitset %x %s" % (max(0, idx), tok(a, rng, fb)))
        else:
            reqs.append("%s %s" % (fn, tok(a, rng, fb)))
    # all pairs of a small edge set for the three binary operations (sign x length lattice)
    core = [v for v in edge if abs(v) > FIXMAX and abs(v).bit_length() <= 200 and (abs(v).bit_length() % 64 in (0, 1, 63) or abs(v) & (abs(v) - 1) == 0)]
    core = core if ctx.thorough else rng.sample(core, min(len(core), 36))
    core += [-1, -2, 1, FIXMAX, -FIXMAX - 1]
    for a in core:
        for b in core:
            if abs(a) > FIXMAX or abs(b) > FIXMAX:
                for fn in ("and", "ior", "xor"):
                    reqs.append("%s %s %s" % (fn, tok(a), tok(b)))
    mo = ctx.run_model(exe, reqs)
    r = subprocess.run([emb, so], input="\n".join(reqs) + "\n", capture_output=True, text=True, env=B.chibi_env(d), timeout=1200)
    io = r.stdout.split("\n")
    if r.returncode != 0 or len(io) < len(reqs):
        ctx.broken("inner-correspondence:C17", "embedding harness died rc=%s after %d answers: %s" % (r.returncode, len(io), r.stderr[-500:]))
    nbad, nrep = 0, {}
    for q, m, i in zip(reqs, mo, io):
        f = q.split()
        ctx.count(1, key=q, nontrivial=any(t.startswith("b") for t in f[1:]))
        ctx.cov["traces_validated_against_impl"] += 1
        if m == i:
            continue
        nbad += 1
        fn = f[0]
        if fn == "bitset":
            a, bv = int(f[1], 16), tokval(f[2])
        elif fn == "shift":
            a, bv = tokval(f[1]), (int(f[2], 16) if not f[2].startswith("-") else -int(f[2][1:], 16))
        else:
            a, bv = tokval(f[1]), (tokval(f[2]) if len(f) > 2 else None)
        want = pyspec(fn, a, bv)
        got = (int(i) if fn == "bitset" and i in ("0", "1") else tokval(i.split(" ")[0]))
        classes = "/".join(cls(x) for x in ([a, bv] if fn in ("and", "ior", "xor") else [bv] if fn == "bitset" else [a]))
        if "OPERAND-MUTATED" in i:
            ctx.violation("bit.c:%s:%s:operand-mutated" % (fn, classes), input=q, expected_model=m, observed=i,
                          replay="echo '%s' | LD_LIBRARY_PATH=%s %s %s" % (q, d, emb, so))
        elif got != want:
            sx = scheme_of(fn, a, bv)
            ctx.violation("bit.c:%s:%s" % (fn, classes), input=q, scheme=sx, expected=zhex(want), expected_model=m, observed=i,
                          replay="echo '%s' | LD_LIBRARY_PATH=%s %s %s   # or: echo '(import (scheme base) (scheme write) (srfi 151)) (write %s)' | chibi-scheme /dev/stdin" % (q, d, emb, so, sx))
        else:
            nrep[fn] = nrep.get(fn, 0) + 1
            if nrep[fn] <= 3:
                ctx.broken("correspondence:bit.c:" + fn, "model and C differ in representation (the C value is still right): %s model=%s impl=%s" % (q, m, i))
    for fn, k in nrep.items():
        if k > 3:
            ctx.note("correspondence:bit.c:%s: %d representation-only differences in all" % (fn, k))
    ctx.sample(dict(kind="inner", request=reqs[0], model=mo[0], impl=io[0]))
    ctx.sample(dict(kind="inner", request=reqs[-1], model=mo[-1], impl=io[-1]))
    # leaf functions on single words: through count/length of one-word bignums
    leaf = []
    for k in range(64):
        leaf += [1 << k, (1 << k) - 1, (1 << 64) - (1 << k), (1 << k) | 1]
    leaf += [rng.getrandbits(64) for _ in range(2000 if not ctx.thorough else 100000)]
    leaf += [rng.getrandbits(rng.randrange(1, 65)) for _ in range(1000 if not ctx.thorough else 50000)]
    leaf = sorted(set(leaf))
    lm = ctx.run_model(exe, ["bcw %x" % w for w in leaf] + ["ilog2 %x" % w for w in leaf])
    lr = subprocess.run([emb, so], input="\n".join(["count b1:%x" % w for w in leaf] + ["length b1:%x" % w for w in leaf]) + "\n",
                        capture_output=True, text=True, env=B.chibi_env(d), timeout=600).stdout.split("\n")
    for j, w in enumerate(leaf):
        for kind, mm, ii, want in (("bit_count", lm[j], lr[j], bin(w).count("1")), ("integer_log2", lm[len(leaf) + j], lr[len(leaf) + j], w.bit_length())):
            ctx.count(1, key=(kind, w), nontrivial=True)
            if "f" + mm != ii:
                if tokval(ii) != want:
                    ctx.violation("bit.c:%s:word" % kind, input="%x" % w, expected=want, observed=ii,
                                  replay="echo '%s b1:%x' | LD_LIBRARY_PATH=%s %s %s" % ("count" if kind == "bit_count" else "length", w, d, emb, so))
                else:
                    ctx.broken("correspondence:bit.c:" + kind, "leaf model differs on word %x: model=%s impl=%s" % (w, mm, ii))


def scheme_of(fn, a, b):
    if fn in ("count", "length"):
        return "(%s %s)" % (SCHEME_NAME[fn], scm.hexlit(a))
    if fn == "shift":
        return "(arithmetic-shift %s %d)" % (scm.hexlit(a), b)
    if fn == "bitset":
        return "(bit-set? %d %s)" % (a, scm.hexlit(b))
    return "(%s %s %s)" % (SCHEME_NAME[fn], scm.hexlit(a), scm.hexlit(b))


# (spec index, scheme name, argument kinds): n = lattice integer, c = shift count, i = bit index, se = start,end, b = boolean
OUTER = [
    (0, "bitwise-and", "nn"), (1, "bitwise-ior", "nn"), (2, "bitwise-xor", "nn"), (3, "arithmetic-shift", "nc"), (4, "bit-set?", "in"),
    (5, "bitwise-not", "n"), (6, "bit-count", "n"), (7, "integer-length", "n"), (8, "first-set-bit", "n"),
    (9, "bitwise-eqv", "nn"), (10, "bitwise-nand", "nn"), (11, "bitwise-nor", "nn"), (12, "bitwise-andc1", "nn"), (13, "bitwise-andc2", "nn"),
    (14, "bitwise-orc1", "nn"), (15, "bitwise-orc2", "nn"), (16, "bitwise-if", "nnn"), (17, "any-bit-set?", "nn"), (18, "every-bit-set?", "nn"),
    (19, "bit-field", "nse"), (20, "bit-field-any?", "nse"), (21, "bit-field-every?", "nse"), (22, "bit-field-clear", "nse"),
    (23, "bit-field-set", "nse"), (24, "bit-field-replace", "nnse"), (25, "bit-field-replace-same", "nnse"), (26, "bit-field-rotate", "ncse"),
    (27, "bit-field-reverse", "nse"), (28, "copy-bit", "inb"), (29, "bit-swap", "iin"),
]
CORE = [o for o in OUTER if o[0] <= 7]
BOUNDS = [0, 1, 2, 61, 62, 63, 64, 65, 66, 126, 127, 128, 129, 130, 191, 192, 193, 200, 256, 257]


def outer(ctx, d, exe, rng, lat, edge, n):
    exprs, specq, genq, meta = [], [], [], []

    def add(idx, name, args, lits=None):
        lits = lits or [scm.hexlit(a) if isinstance(a, int) and not isinstance(a, bool) else ("#t" if a else "#f") for a in args]
        zargs = [(1 if a else 0) if isinstance(a, bool) else a for a in args]
        names = ["a%d" % k for k in range(len(args))]
        # operands are bound first and compared with fresh literals afterwards: a mutated operand is a violation too
        e = "(let (%s) (let ((r (%s %s))) (if (and %s) r (error \"operand-mutated\"))))" % (
            " ".join("(%s %s)" % (nm, l) for nm, l in zip(names, lits)), name, " ".join(names),
            " ".join("(equal? %s %s)" % (nm, l) for nm, l in zip(names, lits)))
        exprs.append(e)
        specq.append("spec %d %s" % (idx, " ".join(zhex(z) for z in zargs)))
        genq.append("gen %s %s" % (name, " ".join(zhex(z) for z in zargs)))
        meta.append((name, tuple(zargs)))

    for line in corpus_lines("outer"):
        idx, name, *args = line.split()
        add(int(idx), name, [int(a, 0) for a in args])

    def pick(other=None):
        if other is not None and rng.random() < 0.2:
            return rng.choice([other, -other, ~other, other + 1, other - 1, -other - 1])
        return rng.choice(lat)

    for _ in range(n):
        idx, name, kinds = rng.choice(CORE if rng.random() < 0.6 else OUTER)
        args, prev = [], None
        s = rng.choice(BOUNDS)
        e = s + rng.choice([0, 1, 2, 62, 63, 64, 65, 127, 128, 129, rng.randrange(0, 140)])
        for k in kinds:
            if k == "n":
                prev = pick(prev)
                args.append(prev)
            elif k == "c":
                args.append(shift_counts(rng, prev) if idx == 3 else rng.choice([0, 1, -1, 63, 64, 65, e - s, e - s + 1, -(e - s) - 1, rng.randrange(-200, 200)]))
            elif k == "i":
                L = abs(args[-1]).bit_length() if args else 0
                args.append(rng.choice(BOUNDS + [rng.randrange(0, 300)]))
            elif k == "s":
                args.append(s)
            elif k == "e":
                args.append(e)
            elif k == "b":
                args.append(rng.random() < 0.5)
        if idx == 26 and e == s:
            continue        # rotate of an empty field divides by zero in chibi and is an error in the spec: not compared
        add(idx, name, args)
    # all pairs of the word-boundary sub-lattice through the three n-ary operations (thorough) / a sample (quick)
    pairs = [(a, b) for a in edge for b in edge if abs(a) > FIXMAX or abs(b) > FIXMAX]
    if not ctx.thorough:
        pairs = rng.sample(pairs, 1500)
    elif len(pairs) > 120000:
        pairs = rng.sample(pairs, 120000)
    for a, b in pairs:
        idx = rng.randrange(3)
        add(idx, OUTER[idx][1], [a, b])
    # n-ary forms
    for _ in range(200):
        k = rng.choice([0, 1, 3, 4])
        args = [pick() for _ in range(k)]
        idx = rng.randrange(3)
        want = {0: -1, 1: 0, 2: 0}[idx]
        for a in args:
            want = (want & a) if idx == 0 else (want | a) if idx == 1 else (want ^ a)
        # reduced to a binary spec query: fold(args) op identity
        exprs.append("(%s %s)" % (OUTER[idx][1], " ".join(scm.hexlit(a) for a in args)))
        specq.append("spec %d %s %s" % (idx, zhex(want), zhex({0: -1, 1: 0, 2: 0}[idx])))
        genq.append("gen %s %s" % (OUTER[idx][1], " ".join(zhex(a) for a in args)))
        meta.append((OUTER[idx][1] + "/nary", tuple(args)))
    so = ctx.run_model(exe, specq)
    go = ctx.run_model(exe, [q.strip() for q in genq])
    io = scm.run_cases(d, exprs, imports="(import (srfi 151))")
    ntr = {}
    for e, s, g, i, m in zip(exprs, so, go, io, meta):
        ctx.count(1, key=m, nontrivial=any(abs(z) > FIXMAX for z in m[1]))
        ok, why = agree(s, i)
        if not ok:
            classes = "/".join(cls(z) for z in m[1][:4])
            ctx.violation("srfi151:%s:%s" % (m[0], classes), input=e, expected=s, observed=i, why=why,
                          replay="echo '(import (scheme base) (scheme write) (srfi 151)) (write %s)' | chibi-scheme /dev/stdin" % e)
        elif s != "UNDEF" and g != s and m[0].split("/")[0] not in ("arithmetic-shift", "bit-count", "integer-length", "bit-set?"):
            # the library is right on this input but the definition regenerated from bitwise.scm (the subject of the
            # theorems) computes something else: the translator (or its table of primitives) no longer mirrors the source
            ntr[m[0]] = ntr.get(m[0], 0) + 1
            if ntr[m[0]] <= 2:
                ctx.broken("translator:bitwise.scm:" + m[0].split("/")[0], "regenerated definition differs from the library on %s: generated=%s library=%s" % (e, g, i))
    ctx.sample(dict(kind="outer", expr=exprs[0], spec=so[0], impl=io[0]))
    ctx.sample(dict(kind="outer", expr=exprs[len(exprs) // 2], spec=so[len(exprs) // 2], impl=io[len(exprs) // 2]))


def agree(spec, impl):
    if impl is None:
        return False, "no output"
    if spec == "UNDEF":
        return (not impl.startswith("CRASH") and impl != "TIMEOUT"), "must not crash"
    if impl.startswith(("ERR", "CRASH", "TIMEOUT")):
        return False, "error where a value is defined"
    if spec.startswith("B "):
        return impl == ("#t" if spec[2] == "1" else "#f"), "boolean"
    x = spec[2:]
    x = -int(x[1:], 16) if x.startswith("-") else int(x, 16)
    p = scm.parse_int(impl)
    if p is None or p[1] != x:
        return False, "value"
    if (p[0] == "f") != (-(1 << 62) <= x <= FIXMAX):
        return False, "not canonical (fixnum iff it fits)"
    return True, ""


def replay(ctx, j):
    """./check C17 --replay evidence/replay/C17-n.json : re-run the recorded failing cases on the current tree.
    Returns 1 (and prints VIOLATION) if any still fails, 0 if all pass now."""
    d = ctx.build("default")
    exe = ctx.extract("C17")
    emb = B.cc_embed(d, os.path.join(HERE, "..", "harness", "embed_c17.c"), os.path.join(d, "embed_c17"))
    so = os.path.join(d, "lib", "srfi", "151", "bit.so")
    bad = 0
    for c in j.get("failing_cases", []):
        q = c.get("input", "")
        if c.get("sig", "").startswith("bit.c:") and q.split() and q.split()[0] in ("and", "ior", "xor", "shift", "count", "length", "bitset"):
            m = ctx.run_model(exe, [q])[0]
            i = subprocess.run([emb, so], input=q + "\n", capture_output=True, text=True, env=B.chibi_env(d), timeout=60).stdout.split("\n")[0]
            ok = (m == i)
            print("%s  request=%s model=%s impl=%s" % ("ok  " if ok else "FAIL", q, m, i))
        elif c.get("sig", "").startswith(("srfi33:", "srfi142:", "bit.c:")) or not str(c.get("expected", "")).startswith(("V ", "B ", "UNDEF")):
            # cases of harness/c17_extra.py: expected is the canonical text of the python oracle's value (None: any value or error, no crash)
            import importlib.util
            sp = importlib.util.spec_from_file_location("c17_extra", os.path.join(HERE, "..", "harness", "c17_extra.py"))
            extra = importlib.util.module_from_spec(sp)
            sp.loader.exec_module(extra)
            sig = c.get("sig", "")
            lib = sig.split(":")[0][4:] if sig.startswith("srfi") else "151"
            exp = c.get("expected")
            if sig.startswith("bit.c:"):
                # hostile-argument case: same build variant and memory cap as harness/c17_extra.py errors()
                oom = ":oom/" in sig or "/oom" in sig or "oom/" in sig
                if sig.endswith(":default"):
                    i = extra.run_batch(d, [q], "(import (srfi 151))", prelude_extra=extra.SUMMARY, timeout=20, mem_mb=192 if oom else 4096)[0]
                else:
                    opts = extra.ASAN_OPTS.replace("max_allocation_size_mb=4096", "max_allocation_size_mb=%d" % (100 if oom else 4096))
                    i = extra.run_batch(ctx.build("asan"), [q], "(import (srfi 151))", prelude_extra=extra.SUMMARY, timeout=20, env={"ASAN_OPTIONS": opts})[0]
                ok = i is not None and i != "TIMEOUT" and not extra._is_crash(i) and (exp in (None, "None") or str(exp).startswith("an error") or i.startswith("ERR") or i == exp)
            else:
                i = extra.run_batch(d, [q], "(import (srfi %s))" % lib, mem_mb=1024, timeout=20)[0]
                ok = (i == exp)
            print("%s  %s expected=%s impl=%s" % ("ok  " if ok else "FAIL", q[:200], exp, (i or "")[:200]))
        else:
            i = scm.run_cases(d, [q], imports="(import (srfi 151))")[0]
            ok, why = agree(c.get("expected", ""), i)
            print("%s  %s expected=%s impl=%s" % ("ok  " if ok else "FAIL", q[:200], c.get("expected"), i))
        bad += 0 if ok else 1
    if bad:
        print("VIOLATION property=C17 replay=%s still-failing=%d" % (j.get("signature"), bad))
    return 1 if bad else 0
