"""C01 — evaluation never corrupts memory; errors stay contained.
   (G)  gen/c01_vmguards.py : vm.c opcode switch -> coq/Gen/C01_VmGuards.v (guards + accesses per opcode)
   (T)  coq/Properties_C01.v : checker soundness, the regenerated table passes the checker, ranges of
        the modelled foreign primitives
   (K-inner) regenerated table, run by the extracted model, vs the real opcode: which guard raises
        (compared through the message text of that sexp_raise)
   (K-outer) SPEC (coq/C01/Spec.v: must-value / must-error / either) vs the implementation under the
        ASan build, over a value lattice; after errors a probe program is evaluated in the same context."""
import os, subprocess, json, time, resource
from vlib import build as B, scm, core
from gen import c01_vmguards, c01_stack, c01_consts, c01_recursion, c01_readbuf

HERE = os.path.dirname(os.path.abspath(__file__))

PRIMS = {  # scheme name -> (opcode case label, operand kinds)
    "vector-ref": ("SEXP_OP_VECTOR_REF", ["V", "ix"]),
    "vector-set!": ("SEXP_OP_VECTOR_SET", ["V", "ix", "any"]),
    "vector-length": ("SEXP_OP_VECTOR_LENGTH", ["V"]),
    "bytevector-u8-ref": ("SEXP_OP_BYTES_REF", ["B", "ix"]),
    "bytevector-u8-set!": ("SEXP_OP_BYTES_SET", ["B", "ix", "oct"]),
    "bytevector-length": ("SEXP_OP_BYTES_LENGTH", ["B"]),
    "string-cursor-ref": ("SEXP_OP_STRING_REF", ["S", "cur"]),
    "string-cursor-set!": ("SEXP_OP_STRING_SET", ["S", "cur", "chr"]),
    "string-cursor-next": ("SEXP_OP_STRING_CURSOR_NEXT", ["S", "cur"]),
    "string-cursor-prev": ("SEXP_OP_STRING_CURSOR_PREV", ["S", "cur"]),
    "string-cursor-end": ("SEXP_OP_STRING_CURSOR_END", ["S"]),
    "string-length": ("SEXP_OP_STRING_LENGTH", ["S"]),
    "car": ("SEXP_OP_CAR", ["P"]), "cdr": ("SEXP_OP_CDR", ["P"]),
    "set-car!": ("SEXP_OP_SET_CAR", ["P", "any"]), "set-cdr!": ("SEXP_OP_SET_CDR", ["P", "any"]),
    "make-vector": ("SEXP_OP_MAKE_VECTOR", ["n", "any"]),
    # round 3: char <-> integer opcodes (type guard before unboxing) and the port opcodes (type guards; multi-path bodies)
    "char->integer": ("SEXP_OP_CHAR2INT", ["chr"]), "integer->char": ("SEXP_OP_INT2CHAR", ["anyfix"]),
    "char-upcase": ("SEXP_OP_CHAR_UPCASE", ["chr"]), "char-downcase": ("SEXP_OP_CHAR_DOWNCASE", ["chr"]),
    "write-char": ("SEXP_OP_WRITE_CHAR", ["chr", "W"]), "read-char": ("SEXP_OP_READ_CHAR", ["I"]), "peek-char": ("SEXP_OP_PEEK_CHAR", ["I"]),
}

IMPORTS = ("(import (only (chibi) string-cursor-ref string-cursor-set! string-cursor-next string-cursor-prev "
           "string-cursor-end string-cursor-start string-index->cursor)"
           # (scheme char)'s char-upcase / char-downcase are Scheme procedures over the Unicode tables; the OPCODES are (chibi)'s
           " (rename (only (chibi) char-upcase char-downcase) (char-upcase verif-op-char-upcase) (char-downcase verif-op-char-downcase)))")
SCHEME_NAME = {"char-upcase": "verif-op-char-upcase", "char-downcase": "verif-op-char-downcase"}
PRELUDE = r"""
(define verif-L (make-string 2000 #\a))
(define (verif-cur k)
  (if (< k 0)
      (let lp ((c (string-cursor-start verif-L)) (k k))
        (if (= k 0) c (lp (string-cursor-prev verif-L c) (+ k 1))))
      (string-index->cursor verif-L k)))
(define verif-far (string-cursor-end (make-string 100000 #\a)))
(define (verif-probe)
  (let* ((v (make-vector 5 'a))
         (s (string-append "xy" (number->string (* 6 7))))
         (l (map (lambda (x) (* x x)) '(1 2 3))))
    (vector-set! v 2 s)
    (list (vector-ref v 2) l
          (call-with-current-continuation
           (lambda (k) (dynamic-wind (lambda () #f) (lambda () (k 'out)) (lambda () #f))))
          (guard (e (#t 'caught)) (car 5))
          (string-length (make-string 3 (integer->char 955)))
          (let lp ((i 0) (acc '())) (if (< i 200) (lp (+ i 1) (cons i acc)) (length acc))))))
"""
PROBE_EXPECT = '("xy42" (1 4 9) out caught 3 200)'

# ------------------------------------------------------------------------------------ value lattice
# every value: (scheme expression building it afresh, model encoding, class label, length or None, extra)
VECS = [("(vector 1 2 3)", 3, 0), ("(vector)", 0, 0), ("(make-vector 300 7)", 300, 0), ("(vector 'x)", 1, 0)]
BYTES = [("(bytevector 1 2 3)", 3, 0), ("(bytevector)", 0, 0), ("(make-bytevector 300 7)", 300, 0), ("(bytevector 255)", 1, 0)]
# (expr, size in bytes, immutable, offsets of character starts or None for pure ASCII)
STRS = [("(make-string 3 #\\a)", 3, 0, None), ("(string (integer->char 955) #\\a (integer->char 8364))", 6, 0, {0, 2, 3}),
        ("(make-string 0 #\\a)", 0, 0, None), ("(string (integer->char 128512) #\\b)", 5, 0, {0, 4}),
        ("(make-string 300 #\\a)", 300, 0, None), ("(string-copy \"hello\")", 5, 0, None),
        ("(utf8->string (bytevector 97 98 99 100 101 102) 2 5)", 3, 0, None)]
PAIRS = [("(cons 1 2)", 0, 0), ("(list 1 2 3)", 0, 0)]
# ports: W output, I input; fresh per case; closed ones and an exhausted one included (the SPEC allows an error for them)
OPORTS = ["(open-output-string)", "(let ((p (open-output-string))) (close-output-port p) p)", "(open-output-bytevector)"]
IPORTS = ["(open-input-string \"xyz\")", "(open-input-string \"\")", "(open-input-string (string (integer->char 955) #\\a))",
          "(let ((p (open-input-string \"q\"))) (close-input-port p) p)", "(open-input-bytevector (bytevector 65 200 66))"]
IMMUT = {"V": ("'#(1 2 3 4)", 4), "B": ("#u8(1 2 3)", 3), "S": ("\"hello\"", 5), "P": ("'(1 2)", 0)}
OTHERS = [("#f", "i"), ("#t", "i"), ("'()", "i"), ("'sym", "pO:0:0"), ("1.5", "pO:0:0"), ("(expt 2 70)", "pO:0:0"),
          ("(- (expt 2 62))", "f-4000000000000000"), ("(expt 2 62)", "pO:0:0"),
          ("#\\a", "h61"), ("(lambda (x) x)", "pO:0:0"), ("car", "pO:0:0"), ("(open-output-string)", "pW:0:0"), ("(open-input-string \"ab\")", "pI:0:0"),
          ("(if #f #f)", "i"), ("(eof-object)", "i"), ("(/ 1 3)", "pO:0:0"), ("(make-parameter 1)", "pO:0:0")]
FIXMAX, FIXMIN = (1 << 62) - 1, -(1 << 62)
CHARS = [("#\\a", 0x61), ("(integer->char 955)", 955), ("(integer->char 8364)", 8364), ("(integer->char 128512)", 128512),
         ("(integer->char 0)", 0), ("(integer->char 127)", 127), ("(integer->char 128)", 128)]


def zhex(z):
    return ("-%x" % -z) if z < 0 else ("%x" % z)


FLUSH_CASE = r"""
(define-syntax verif-fcase
  (syntax-rules ()
    ((_ n expr) (begin (verif-case n expr) (flush-output-port (current-output-port))))))
"""


def run_cases(d, exprs, prelude_extra="", imports="", timeout=900, extra_env=None, chunk=1500, max_crashes=6):
    """like vlib.scm.run_cases, but every answer is flushed before the next case starts (a sanitizer abort loses
    buffered output, which would blame the wrong case), and a dead process is restarted after the guilty case"""
    res = [None] * len(exprs)
    os.makedirs(B.SCRATCH, exist_ok=True)
    path = os.path.join(B.SCRATCH, "c01_cases_%d.scm" % os.getpid())
    todo = [(lo, min(len(exprs), lo + chunk)) for lo in range(0, len(exprs), chunk)]
    crashes = 0
    while todo:
        lo, hi = todo.pop(0)
        if crashes >= max_crashes:      # enough failing inputs: the rest of the stream is not run
            for i in range(lo, hi):
                res[i] = "SKIPPED"
            continue
        body = [scm.PRELUDE, imports, FLUSH_CASE, prelude_extra]
        body += ["(verif-fcase %d %s)" % (i, exprs[i]) for i in range(lo, hi)]
        body.append('(write-string "DONE")(newline)')
        open(path, "w", encoding="utf-8").write("\n".join(body))
        try:
            r = B.run_chibi(d, [path], timeout=timeout, extra_env=extra_env)
            out, rc, err = r.stdout, r.returncode, r.stderr
        except subprocess.TimeoutExpired as e:
            out = e.stdout.decode() if isinstance(e.stdout, bytes) else (e.stdout or "")
            rc, err = "TIMEOUT", ""
        done, last = False, lo - 1
        for line in out.split("\n"):
            if line == "DONE":
                done = True
                continue
            sp = line.find(" ")
            if sp > 0 and line[:sp].isdigit() and lo <= int(line[:sp]) < hi:
                last = int(line[:sp])
                res[last] = line[sp + 1:]
            elif line and last >= lo and res[last] is not None and not done:
                res[last] += "\n" + line
        if not done and last + 1 < hi:
            bad = last + 1
            res[bad] = "TIMEOUT" if rc == "TIMEOUT" else "CRASH rc=%s %s" % (rc, _asan_summary(err))
            crashes += 1
            if bad + 1 < hi:
                todo.insert(0, (bad + 1, hi))
    try:
        os.unlink(path)
    except OSError:
        pass
    return res


def _asan_summary(err):
    err = err or ""
    keep = [l.strip() for l in err.split("\n") if "ERROR: AddressSanitizer" in l or l.startswith("SUMMARY") or " of size " in l or "#0 " in l or "#1 " in l]
    return " | ".join(keep[:6]) if keep else err[-300:].replace("\n", " | ")


def fix(z):
    return dict(expr=str(z), abs="f" + zhex(z), cls="fix", z=z)


def cur(z):
    if z == 100000:
        return dict(expr="verif-far", abs="c" + zhex(z), cls="cur", z=z)
    return dict(expr="(verif-cur %d)" % z, abs="c" + zhex(z), cls="cur", z=z)


def obj(kind, expr, ln, imm, extra=None):
    return dict(expr=expr, abs="p%s:%s:%d" % (kind, zhex(ln), imm), cls="obj" + kind, len=ln, imm=imm, extra=extra, kind=kind)


def pool_objects():
    out = []
    for e, l, i in VECS:
        out.append(obj("V", e, l, i))
    for e, l, i in BYTES:
        out.append(obj("B", e, l, i))
    for e, l, i, bd in STRS:
        out.append(obj("S", e, l, i, bd))
    for e, l, i in PAIRS:
        out.append(obj("P", e, l, i))
    for e in OPORTS:
        out.append(obj("W", e, 0, 0))
    for e in IPORTS:
        out.append(obj("I", e, 0, 0))
    return out


def any_value(rng, objs):
    r = rng.random()
    if r < 0.35:
        return dict(rng.choice(objs))
    if r < 0.45:
        k = rng.choice("VBSP")
        return obj(k, IMMUT[k][0], IMMUT[k][1], 1)
    if r < 0.7:
        e, a = rng.choice(OTHERS)
        return dict(expr=e, abs=a, cls="other")
    if r < 0.85:
        return fix(rng.choice([-1, 0, 1, 2, 3, 255, 256, 300, FIXMAX, FIXMIN, 1 << 61]))
    if r < 0.95:
        return cur(rng.choice([-2, -1, 0, 1, 2, 3, 5, 6, 300, 2000, 100000]))
    e, c = rng.choice(CHARS)
    return dict(expr=e, abs="h%x" % c, cls="chr")


def index_for(rng, ln):
    cands = [-1, 0, 1, ln - 1, ln, ln + 1, ln // 2, FIXMAX, FIXMIN, 1 << 61, -(1 << 61), ln + 7, 2 * ln + 1]
    return rng.choice(cands)


def gen_case(rng, prim, objs, p_valid=0.8):
    label, kinds = PRIMS[prim]
    args = []
    target = None
    for kd in kinds:
        ok = rng.random() < p_valid
        if kd in "VBSPIW" and len(kd) == 1:
            if ok:
                if kd in IMMUT and rng.random() < 0.12:
                    v = obj(kd, IMMUT[kd][0], IMMUT[kd][1], 1)
                else:
                    v = dict(rng.choice([o for o in objs if o["kind"] == kd]))
                target = v
            else:
                v = any_value(rng, objs)
                if v.get("kind"):
                    target = v
        elif kd == "ix":
            ln = target["len"] if target and "len" in target else 3
            v = fix(index_for(rng, ln)) if ok else any_value(rng, objs)
        elif kd == "cur":
            ln = target["len"] if target and "len" in target else 3
            z = rng.choice([-2, -1, 0, 1, ln - 1, ln, ln + 1, ln + 2, ln // 2, 2000, 100000, 7])
            z = max(-3, min(z, 2000)) if z != 100000 else z
            v = cur(z) if ok else any_value(rng, objs)
        elif kd == "oct":
            v = fix(rng.choice([0, 1, 127, 128, 255, 256, -1, 1000, FIXMAX])) if ok or rng.random() < 0.5 else any_value(rng, objs)
        elif kd == "chr":
            if ok:
                e, c = rng.choice(CHARS)
                v = dict(expr=e, abs="h%x" % c, cls="chr")
            else:
                v = any_value(rng, objs)
        elif kd == "anyfix":
            # integer->char accepts ANY fixnum: scalar values, surrogates, beyond 0x10FFFF, negative, the fixnum extremes
            v = fix(rng.choice([0, 65, 127, 128, 955, 0xD7FF, 0xD800, 0xDFFF, 0xFFFF, 0x10000, 0x10FFFF, 0x110000, 0x7FFFFFFF, 0x80000000, -1, -5, FIXMAX, FIXMIN])) if ok else any_value(rng, objs)
        elif kd == "n":
            v = fix(rng.choice([0, 1, 2, 10, 1000, -1, -2, FIXMIN, 70000, 1 << 40, FIXMAX, (1 << 61) - 1, (1 << 61) - 2, 1 << 60, (1 << 60) - 1])) if ok else any_value(rng, objs)
        else:
            v = any_value(rng, objs)
        args.append(v)
    return args


def call_expr(rng, prim, args):
    names = " ".join("a%d" % i for i in range(len(args)))
    vals = " ".join(a["expr"] for a in args)
    if rng.random() < 0.2:    # through the first-class procedure (opcode wrapper) instead of the inlined opcode
        inner = "(apply %s (list %s))" % (SCHEME_NAME.get(prim, prim), names)
    else:
        inner = "(%s %s)" % (SCHEME_NAME.get(prim, prim), names)
    if prim in ("integer->char", "char-upcase", "char-downcase", "read-char", "peek-char"):
        # a character result is reported by its number: non-scalar characters are not valid UTF-8 on the answer line
        inner = "(let ((r %s)) (if (char? r) (char->integer r) r))" % inner
    return "((lambda (%s) %s) %s)" % (names, inner, vals)


def relax(prim, args, verdict):
    """cursor inside a multi-byte character: string-cursor-ref/-set! may answer a value or an
    'invalid utf8 byte' error; both stay in bounds"""
    if prim in ("string-cursor-ref", "string-cursor-set!") and len(args) >= 2:
        s, c = args[0], args[1]
        if s.get("kind") == "S" and s.get("extra") is not None and c["cls"] == "cur" and 0 <= c["z"] < s["len"] and c["z"] not in s["extra"]:
            return "X"
    return verdict


def replay_cmd(d, expr):
    prog = "(import (scheme base) (scheme write) (chibi)) %s %s (write %s)" % (IMPORTS, PRELUDE.replace("\n", " "), expr)
    return ("printf '%%s' '%s' | ASAN_OPTIONS=detect_leaks=0 LD_LIBRARY_PATH=%s CHIBI_MODULE_PATH=%s/lib CHIBI_IGNORE_SYSTEM_PATH=1 %s/chibi-scheme /dev/stdin"
            % (prog.replace("'", "'\\''"), d, d, d))


# ------------------------------------------------------------------------------------ the check
def run(ctx):
    ctx.cov["rule"] = ("opcode stream: for each of the 24 opcode-backed primitives, operand tuples drawn from a lattice "
                       "(objects of every modelled type incl. empty, 300-element, immutable literals, multi-byte strings; indices "
                       "-1,0,1,len-1,len,len+1,fixnum extremes; cursors -2..len+2, 2000, 100000 (from longer strings); octets -1..256; "
                       "ill-typed values: booleans, symbols, flonums, bignums, ratios, chars, procedures, ports); 80% of operands "
                       "well-typed, 20% arbitrary; each call runs in the ASan build, inlined or through apply; a case is "
                       "non-trivial when an operand is ill-typed, immutable, multi-byte or within 1 of a bound; distinct by "
                       "(primitive, operand expressions, call form)")
    # (G) regenerate the guard table from vm.c
    try:
        t = c01_vmguards.regen(ctx)
    except c01_vmguards.Unsupported as u:
        ctx.broken("gen:C01_VmGuards", "translator failed closed: %s (the previous table, if any, stays in place; only the SPEC streams are meaningful)" % u)
        t = dict(names=[], msgs={}, items={}, skipped={}, sha="?")
    tstack = dict(req="?", cond="?", sites=["?"])
    try:
        tstack = c01_stack.regen(ctx)
    except c01_vmguards.Unsupported as u:
        ctx.broken("gen:C01_Stack", "translator failed closed: %s (stale Gen/C01_Stack.v stays in place; the stack stream still runs)" % u)
    try:
        tconst = c01_consts.regen(ctx)
    except c01_vmguards.Unsupported as u:
        ctx.broken("gen:C01_Consts", "translator failed closed: %s" % u)
        return
    trec = None
    try:
        trec = c01_recursion.regen(ctx)
        ctx.note("recursion tables regenerated from the clang AST: sexp_write_one %d call sites (%s), sexp_equalp_bound %d, "
                 "sexp_strip_synclos_bound %d, analyze family %d functions / %d edges (%s)"
                 % (len(trec["write_sites"]), " ".join("%d:%s" % (l, k.replace(" ", "")) for l, k, _ in trec["write_sites"]),
                    len(trec["equal_sites"]), len(trec["strip_sites"]), len(trec["analyze_names"]), len(trec["analyze_edges"]),
                    " ".join("%d:%s" % (l, k) for l, _, _, k, _ in trec["analyze_edges"] if k != "Same")))
    except c01_vmguards.Unsupported as u:
        ctx.broken("gen:C01_Recursion", "translator failed closed: %s (stale Gen/C01_Recursion.v stays in place; the deep-data stream still runs)" % u)
    try:
        trb = c01_readbuf.regen(ctx)
        ctx.note("reader buffer constants regenerated from sexp.c: sexp_read_string (init %d, test i+%d >= size, largest write %d), "
                 "sexp_read_symbol (init %d, H %d, largest write %d), digit buffer digits[%d+%d] with snprintf bound %d"
                 % (trb["read_string"] + trb["read_symbol"] + trb["float_digits"]))
    except c01_vmguards.Unsupported as u:
        ctx.broken("gen:C01_ReadBuf", "translator failed closed: %s (stale Gen/C01_ReadBuf.v stays in place; the reader buffer stream still runs)" % u)
    ctx.note("stack arithmetic regenerated from sexp_grow_stack / sexp_ensure_stack (request %s when %s); ensure_stack call sites: %s; "
             "sexp_restore_stack: grows when len+%s >= length, asks for len+%s, destination read after the growth"
             % ((tstack["req"], tstack["cond"], tstack["sites"][1:]) + tuple(tstack.get("restore", ("?", "?")))))
    ctx.note("guard table regenerated from vm.c switch sha %s: %d opcodes translated (%s); skipped (use the accessors, outside the "
             "translated subset, NOT covered by vm_ops_guarded): %s" % (t["sha"], len(t["names"]), " ".join(n[8:] for n in t["names"]),
                                                                       "; ".join("%s: %s" % (k[8:], v) for k, v in sorted(t["skipped"].items()))))
    if t.get("untouched"):
        ctx.note("opcode cases that do not use the modelled accessors (not in the table; heap access, if any, through other typed "
                 "accessors): %s" % " ".join(n.replace("SEXP_OP_", "") for n in t["untouched"]))
    unknown = [n for n in t["names"] if any("AUnknown" in it for it in t["items"][n])]
    missing = [p for p, (lab, _) in PRIMS.items() if lab not in t["names"]]
    if missing:
        ctx.broken("gen:C01_VmGuards", "opcode cases no longer found in vm.c: %s" % missing)
    # (T)
    ph = ctx.cov.setdefault("phase_seconds", {})
    t0 = time.time()
    thm_ok = ctx.coq_obligations("Properties_C01")
    ph["coq"] = round(time.time() - t0, 1)
    if ctx.thorough and thm_ok:
        t0 = time.time()
        with core.CoqLock(files=[os.path.join(core.COQ, "Properties_C01.v")]):
            r = core.sh("timeout 1500 coqchk -o -silent -Q . ChibiV ChibiV.Properties_C01", cwd=core.COQ)
        ok = r.returncode == 0
        ctx.obligations.append(("coqchk:Properties_C01", ok, None))
        ctx.checker_cmds.append("cd coq && coqchk -o -silent -Q . ChibiV ChibiV.Properties_C01")
        if not ok:
            ctx.broken("coqchk:Properties_C01", "coqchk rejects the compiled closure: %s" % (r.stdout + r.stderr)[-800:])
        ph["coqchk"] = round(time.time() - t0, 1)
    dflt = ctx.build("default")
    d = ctx.build("asan")
    exe = ctx.extract("C01")
    if exe is None:
        return
    rng = ctx.rng
    deep_handle = deep_start(ctx, dflt)        # runs in the background (normal build, own processes); collected by deep_stream below
    objs = pool_objects()
    # which entries does the checker reject (targets of the failing-input search)
    safe = ctx.run_model(exe, ["safe %x" % i for i in range(len(t["names"]))])
    rejected = {t["names"][i] for i, s in enumerate(safe) if s != "1"}
    if rejected:
        ctx.note("entries rejected by entry_safe: %s" % sorted(rejected))
    n_per = 110 if not ctx.thorough else 900       # x 24 primitives (round 3): the volume of the 17 x 150 of rounds 1-2
    cases = []
    for prim in PRIMS:
        n = n_per * (4 if PRIMS[prim][0] in rejected else 1)
        for _ in range(n):
            args = gen_case(rng, prim, objs)
            cases.append((prim, args, call_expr(rng, prim, args)))
    rng.shuffle(cases)
    # corpus first
    cdir = os.path.join(HERE, "..", "corpus", "C01")
    corpus = []
    if os.path.isdir(cdir):
        for f in sorted(os.listdir(cdir)):
            if f.endswith(".json"):
                c = json.load(open(os.path.join(cdir, f)))
                corpus.append((c["prim"], c["args"], c["expr"]))
    cases = corpus + cases
    exprs, meta = [], []
    for n, (prim, args, e) in enumerate(cases):
        exprs.append(e)
        meta.append((prim, args))
        if n % 6 == 5:
            exprs.append("(verif-probe)")
            meta.append(None)
    reqs_run, reqs_spec = [], []
    for m in meta:
        if m is None:
            continue
        prim, args = m
        label = PRIMS[prim][0]
        k = t["names"].index(label) if label in t["names"] else 0xfff
        reqs_run.append("run %x %s" % (k, " ".join(a["abs"] for a in args)))
        reqs_spec.append("spec %s %s" % (prim, " ".join(a["abs"] for a in args)))
    mo_run = ctx.run_model(exe, reqs_run)
    mo_spec = ctx.run_model(exe, reqs_spec)
    t0 = time.time()
    io = run_cases(d, exprs, imports=IMPORTS, prelude_extra=PRELUDE, timeout=900, chunk=1500, extra_env=ASAN_ENV)
    ph["opcode_stream"] = round(time.time() - t0, 1)
    j = 0
    last_err = None
    n_probe = 0
    inner_bad, outer_bad = {}, {}
    for e, m, r in zip(exprs, meta, io):
        if m is None:
            n_probe += 1
            ctx.count(1, key=None)
            if r != PROBE_EXPECT and r != "SKIPPED":
                ctx.violation("probe-after-error", input=dict(previous_error_case=last_err, probe="(verif-probe)"),
                              expected=PROBE_EXPECT, observed=r,
                              replay=replay_cmd(d, "(begin (guard (e (#t #f)) %s) (verif-probe))" % (last_err or "#f")))
            continue
        prim, args = m
        label = PRIMS[prim][0]
        k = _z(mo_run[j])
        verdict = relax(prim, args, mo_spec[j])
        j += 1
        if r == "SKIPPED":
            continue
        crashed = r is None or r.startswith("CRASH") or r == "TIMEOUT"
        is_err = (r or "").startswith("ERR")
        nontriv = verdict != "V" or any(a["cls"] in ("other",) or a.get("imm") or a.get("extra") for a in args) or _near(args)
        ctx.count(1, key=(prim, e), nontrivial=nontriv)
        ctx.cov["traces_validated_against_impl"] += 1
        if is_err:
            last_err = e
        if crashed:
            ctx.violation("opcode:%s:crash" % prim, input=e, operands=[a["abs"] for a in args], expected="value or error object",
                          observed=r, replay=replay_cmd(d, e))
            continue
        if verdict == "E" and not is_err:
            ctx.violation("opcode:%s:no-error" % prim, input=e, operands=[a["abs"] for a in args],
                          expected="an error object (no in-bounds execution exists for these operands)", observed=r,
                          replay=replay_cmd(d, e))
            continue
        if verdict == "V" and is_err:
            outer_bad.setdefault(prim, (e, r))
        # inner: the guard the regenerated table says raises
        if label in t["names"]:
            msgs = t["msgs"][label]
            exp = msgs[k] if 0 <= k < len(msgs) else None
            if exp is not None:
                if r != "ERR " + exp:
                    inner_bad.setdefault(label, (e, "guard %d: %s" % (k, exp), r))
            elif is_err and verdict == "V":
                pass   # counted in outer_bad
        if prim == "char->integer" and not is_err and args[0]["cls"] == "chr" and r != "f" + args[0]["abs"][1:]:
            outer_bad.setdefault(prim, (e, r))
        if prim in ("vector-length", "bytevector-length") and not is_err:
            if r != "f%x" % args[0].get("len", -1):
                outer_bad.setdefault(prim, (e, r))
    for label, (e, exp, got) in inner_bad.items():
        ctx.broken("inner:table-vs-opcode:" + label, "the regenerated guard table and the opcode disagree on %s: table says %s, implementation says %s" % (e, exp, got))
    for prim, (e, got) in outer_bad.items():
        ctx.broken("outer:spec-vs-opcode:" + prim, "SPEC requires a value for %s, implementation answered %s" % (e, got))
    ctx.cov["probes_after_errors"] = n_probe
    for n in (0, 1, 2):
        if n < len(exprs) and meta[n] is not None:
            ctx.sample(dict(kind="opcode", expr=exprs[n], table_guard=mo_run[n] if n < len(mo_run) else None, impl=io[n]))
    t0 = time.time()
    prims_stream(ctx, exe, d, rng, tconst["vals"], 700 if not ctx.thorough else 15000)
    ph["prims_stream"] = round(time.time() - t0, 1)
    reader_depth_probe(ctx, dflt)
    t0 = time.time()
    ranges_and_zero_stream(ctx, d, dflt)
    ph["ranges_zero_stream"] = round(time.time() - t0, 1)
    t0 = time.time()
    bv_accessor_stream(ctx, d)
    ph["bv_accessor_stream"] = round(time.time() - t0, 1)
    illformed_string_stream(ctx, d)
    t0 = time.time()
    reader_buffer_stream(ctx, d)
    ph["reader_buffer_stream"] = round(time.time() - t0, 1)
    # (chibi ast) make-getter / make-setter are a low-level reflection API outside the R7RS-small libraries the property
    # quantifies over: with an out-of-range slot index they build an accessor that reads / writes behind the object (observed on the
    # pinned tree; a stricter check in sexp_make_getter_op broke (chibi weak), whose ephemeron slots are weak slots beyond
    # field_len_base, so no repair is committed).  Not a violation of C01 as stated: the stream is not run (lead's decision,
    # DESIGN.md 10.5); it stays in the file for a future property about the reflection API.
    if os.environ.get("C01_SLOT_ACCESSORS") == "1":
        slot_accessor_stream(ctx, d)
    else:
        ctx.note("make-getter / make-setter ((chibi ast) reflection API) with out-of-range slot indices are outside the property's scope (R7RS-small procedures) and are not exercised")
    if trec is not None:
        printer_trunc_stream(ctx, exe, dflt, trec, tconst["vals"])
    t0 = time.time()
    stack_stream(ctx, exe, d, rng, tconst["vals"])
    ph["stack_stream"] = round(time.time() - t0, 1)
    t0 = time.time()
    frame_discipline_stream(ctx, d)
    ph["frame_stream"] = round(time.time() - t0, 1)
    t0 = time.time()
    continuation_reentry_stream(ctx, d, tconst["vals"])
    ph["reentry_stream"] = round(time.time() - t0, 1)
    t0 = time.time()
    deep_stream(ctx, dflt, deep_handle)
    ph["deep_stream_wait"] = round(time.time() - t0, 1)
    if unknown and not ctx.violations:
        ctx.broken("gen:C01_VmGuards", "opcode bodies with statements outside the translated subset: %s" % unknown)
    ctx.trust("gcc -E -fdirectives-only (conditional compilation resolved as in the build) and the text-level translator gen/c01_vmguards.py; "
              "AddressSanitizer + the H1 poisoning hook of gc.c for the implementation side")
    ctx.assume("strings are well-formed UTF-8 where the model says so: the continuation bytes that sexp_string_utf8_ref / "
               "sexp_string_utf8_prev read beyond the first byte are inside the string (not modelled in part 1)")
    ctx.assume("opcodes listed as skipped/untouched in the notes (calls, frames, numeric tower, ports, record slots with "
               "compiler-generated operands) are covered only by the ASan runs, not by vm_ops_guarded")
    return


ASAN_ENV = dict(ASAN_OPTIONS="detect_leaks=0:abort_on_error=0:exitcode=97:allocator_may_return_null=1:detect_odr_violation=0")

# ------------------------------------------------------------------------------------ part 2: foreign primitives
STR_BYTES = [b"abcdef", "\u03bba\u20ac".encode(), b"", "\U0001f600b".encode(), b"a" * 300, b"a\xf0", b"\x80a",
             "h\u00e9llo w\u00f6rld".encode(), b"\xe2\x82"]
Q60 = 1 << 60


def hx(b):
    return b.hex() if b else "-"


def ibc(c):
    return 1 if c < 0xC0 else 2 if c < 0xE0 else ((c >> 4) & 1) + 3


def utf8_count(b, off):
    i = n = 0
    while i < off:
        i += ibc(b[i])
        n += 1
    return n


def _big_stack():
    """the sanitizer build has much larger C frames: give it the stack the normal build effectively has, so that the
    analyzer's own depth bound (SEXP_MAX_ANALYZE_DEPTH) is what stops deep recursion, as in the normal build"""
    soft, hard = resource.getrlimit(resource.RLIMIT_STACK)
    want = 1 << 30
    if hard != resource.RLIM_INFINITY:
        want = min(want, hard)
    resource.setrlimit(resource.RLIMIT_STACK, (want, hard))


def reader_depth_probe(ctx, dflt):
    """deeply nested source handed to the NORMAL build with the default C stack: it must end in an error object
    (chibi prints it and exits 70) or a value, never in a signal"""
    for depth, sig in ((5000, "reader:nesting-5000:crash"), (200000, "reader:nesting:c-stack-overflow")):
        path = os.path.join(B.SCRATCH, "c01_depth.scm")
        open(path, "w").write("(" * depth + ")" * depth + "\n")
        try:
            r = B.run_chibi(dflt, [path], timeout=120)
            rc, out = r.returncode, (r.stdout + r.stderr)[-200:]
        except subprocess.TimeoutExpired:
            rc, out = "TIMEOUT", ""
        ctx.count(1, key=("reader-depth", depth))
        if rc not in (0, 70):
            ctx.violation(sig, input="source text: %d times '(' then %d times ')'" % (depth, depth),
                          expected="an error object (reported, exit status 70)", observed="rc=%s %s" % (rc, out),
                          replay="python3 -c \"print('('*%d+')'*%d)\" > /var/tmp/c01_depth.scm; LD_LIBRARY_PATH=%s CHIBI_MODULE_PATH=%s/lib CHIBI_IGNORE_SYSTEM_PATH=1 %s/chibi-scheme /var/tmp/c01_depth.scm"
                                 % (depth, depth, dflt, dflt, dflt))


def run_harness(emb, d, lines, max_crashes=None):
    """answers per line; a dead process gives 'CRASH ...' for the line it died on and is restarted after it"""
    res = [None] * len(lines)
    lo = 0
    ncrash = 0
    while lo < len(lines):
        if max_crashes is not None and ncrash >= max_crashes:
            for k in range(lo, len(lines)):
                res[k] = "SKIPPED"
            break
        r = subprocess.run([emb], input="\n".join(lines[lo:]) + "\n", capture_output=True, encoding="utf-8", errors="replace",
                           env=B.chibi_env(d, ASAN_ENV), timeout=900, preexec_fn=_big_stack)
        out = r.stdout.split("\n")
        if out and out[-1] == "":
            out.pop()
        for k, o in enumerate(out[:len(lines) - lo]):
            res[lo + k] = o
        done = lo + min(len(out), len(lines) - lo)
        if done >= len(lines):
            break
        res[done] = "CRASH rc=%s %s" % (r.returncode, _asan_summary(r.stderr)[:600])
        ncrash += 1
        lo = done + 1
    return res


SEED_SOURCES = [
    b'(define (f x) (if (< x 2) x (+ (f (- x 1)) (f (- x 2))))) (f 10)', b'"a\\n\\t\\x41;b\\\\ \\"q\\" \xce\xbb"', b"#\\a #\\space #\\x3bb #\\newline #\\\xe2\x82\xac",
    b"(1 2 . 3) #(1 #(2) \"s\") #u8(0 255 17) '(a . (b . (c)))", b"#0=(a b . #0#) #1=#(1 #1#)", b"`(1 ,(+ 1 1) ,@(list 3 4) . 5)",
    b"#e1.5 #i3/4 #x-ff #b1011 #o777 1e10 -0.0 +inf.0 -nan.0 1/3 +i 1@2 123456789012345678901234567890", b"|sym with space| |a\\x41;b| abc->def ... + - <=?",
    b"#| block #| nested |# comment |# #;(datum comment) 42 ; line\n43", b"(let-values (((a b) (values 1 2))) (vector a b))", b"#t #f #true #false #!eof",
    b"(define-syntax sw (syntax-rules () ((_ a b) (let ((t a)) (set! a b) (set! b t))))) (let ((x 1) (y 2)) (sw x y) (list x y))",
    b"(call-with-current-continuation (lambda (k) (dynamic-wind (lambda () 1) (lambda () (k 2)) (lambda () 3))))", b"(string->number \"1e400\") (exact->inexact 1/3)",
    b"(guard (e ((symbol? e) e)) (raise 'boom))", b"(let loop ((i 0) (acc '())) (if (= i 5) (reverse acc) (loop (+ i 1) (cons (* i i) acc))))",
    b"(apply string-append (map symbol->string '(a b c)))", b"(bytevector-u8-ref #u8(1 2 3) 1) (string-ref \"abc\" 1) (vector-ref #(1 2 3) 2)",
]


def malformed_sources(rng, n):
    out = []
    for _ in range(n):
        b = bytearray(rng.choice(SEED_SOURCES))
        k = rng.random()
        for _ in range(rng.choice([1, 1, 2, 3, 6])):
            if not b:
                break
            i = rng.randrange(len(b))
            op = rng.choice(["flip", "ins", "del", "dup", "trunc", "paren", "digit", "hash"])
            if op == "flip":
                b[i] = rng.choice([0, 1, 0x7f, 0x80, 0xbf, 0xc0, 0xe2, 0xf0, 0xf8, 0xff, ord("("), ord(")"), ord("#"), ord("\\"), ord('"'), ord("|"), rng.randrange(256)])
            elif op == "ins":
                b[i:i] = bytes(rng.choice([b"(", b")", b"#", b"\\", b'"', b"|", b"#;", b"#|", b"'", b",@", b"#0=", b"#0#", b"\\x", b"\xf0\x9f", b".", b" . "]))
            elif op == "del":
                del b[i:i + rng.choice([1, 1, 2, 5])]
            elif op == "dup":
                j = min(len(b), i + rng.choice([1, 3, 10]))
                b[i:i] = b[i:j] * rng.choice([2, 10, 200])
            elif op == "trunc":
                del b[i:]
            elif op == "paren":
                d_ = rng.choice([50, 500, 5000])
                b = bytearray(b"(" * d_) + b + (bytearray(b")" * d_) if rng.random() < 0.5 else bytearray())
            elif op == "digit":
                b[i:i] = bytes(rng.choice([b"9" * 400, b"1e99999", b"#x" + b"f" * 300, b"1/" + b"0" * 50, b"." * 5]))
            else:
                b[i:i] = bytes(rng.choice([b"#u8(", b"#(", b"#\\x110000", b"#\\xd800", b"#99999999999=", b"#!fold-case", b"#e#x", b"#d1.5e"]))
        b = bytes(b).replace(b"\x00", b" ").replace(b"\n", b" ")[:60000]
        if b:
            out.append(b)
    return out


def prims_stream(ctx, exe, d, rng, consts, n):
    emb = B.cc_embed(d, os.path.join(HERE, "..", "harness", "embed_c01.c"), os.path.join(d, "embed_c01"))
    H, M, J = [], [], []      # harness lines, model lines, judge info
    bigs = [Q60 - 1, Q60, -Q60, 1 << 61, (1 << 61) + 1, (1 << 62) - 1, -(1 << 62), (1 << 61) + 2, -(1 << 61) - 1, 1 << 59]

    def pos(ln, kind="f"):
        bg = bigs if kind == "f" else [Q60 - 1, -Q60, 1 << 59, -(1 << 59), (1 << 58) + 1]    # a cursor carries 61 signed bits
        return rng.choice([-1, 0, 1, 2, ln - 1, ln, ln + 1, ln // 2, ln + 5] + ([rng.choice(bg)] if rng.random() < 0.3 else []))
    for _ in range(n):
        f = rng.choice(["substring", "substring", "subbytes", "subbytes", "index2cursor", "cursor2index", "makevector", "makebytes", "fix2cur",
                        "utf8ref", "utf8ref", "utf8set", "utf8set"])
        b = rng.choice(STR_BYTES)
        ln = len(b)
        if f in ("utf8ref", "utf8set"):
            # any bytes, ill-formed ones included; half of the strings end in a lead byte that is cut off; the sizes
            # cover the byte stores without slack (size+1 a multiple of the heap alignment: 15, 31, 47)
            n_ = rng.choice([1, 2, 3, 5, 14, 15, 16, 30, 31, 46, 47, 48, rng.randrange(1, 70)])
            pool = [0x61, 0x7f, 0x80, 0xbf, 0xc3, 0xdf, 0xe2, 0xef, 0xf0, 0xf4, 0xf7, 0xf8, 0xfb, 0xff, 0x9f, 0x98]
            bb = bytearray(rng.choice(pool) if rng.random() < 0.4 else 0x61 for _ in range(n_))
            if rng.random() < 0.5:
                bb[-1] = rng.choice([0xc3, 0xe2, 0xf0, 0xf4, 0xfb, 0xdf, 0xef])
                if n_ > 2 and rng.random() < 0.4:
                    bb[-2] = rng.choice([0xe2, 0xf0])
            b = bytes(bb)
            i_ = rng.choice([n_ - 1, n_ - 1, max(0, n_ - 2), max(0, n_ - 3), 0, rng.randrange(n_)])
            if f == "utf8ref":
                H.append("utf8ref s%s c%d" % (hx(b), i_))
                M.append("utf8ref %s %x" % (hx(b), i_))
                J.append(dict(f=f, src=b, i=i_))
            else:
                ch = rng.choice([0x62, 0x3bb, 0x20ac, 0x1f600])
                H.append("utf8set s%s c%d h%d" % (hx(b), i_, ch))
                M.append("utf8set %s %x %x" % (hx(b), i_, len(chr(ch).encode())))
                J.append(dict(f=f, src=b, i=i_, ch=ch))
            continue
        if f in ("substring", "subbytes"):
            t = "s" if f == "substring" else "b"
            k = "c" if f == "substring" else "f"
            oa = (t + hx(b), "p%s:%x:0" % (t.upper(), ln))
            if rng.random() < 0.1:
                oa = rng.choice([("f3", "f3"), ("F", "i"), ("n", "i"), (("b" if t == "s" else "s") + hx(b), "p%s:%x:0" % ("B" if t == "s" else "S", ln))])
            s_, e_ = pos(ln, k), pos(ln, k)
            if rng.random() < 0.5 and 0 <= s_ <= ln:
                e_ = rng.choice([s_, s_ + 1, ln, max(s_ - 1, 0), rng.randint(s_, max(s_, ln))])
            sa = ("%s%d" % (k, s_), k + zhex(s_))
            ea = ("%s%d" % (k, e_), k + zhex(e_))
            if rng.random() < 0.08:
                sa = rng.choice([("F", "i"), ("n", "i"), (("f" if k == "c" else "c") + "1", ("f" if k == "c" else "c") + "1")])
                s_ = None
            r = rng.random()
            if r < 0.15:
                ea, e_ = ("F", "F"), ln
            elif r < 0.22:
                ea = rng.choice([("n", "i"), (("f" if k == "c" else "c") + "2", ("f" if k == "c" else "c") + "2")])
                e_ = None
            H.append("%s %s %s %s" % (f, oa[0], sa[0], ea[0]))
            M.append("%s %s %s %s" % (f, oa[1], sa[1], ea[1]))
            valid = oa[0][0] == t and s_ is not None and e_ is not None and 0 <= s_ <= e_ <= ln
            J.append(dict(f=f, src=b, t=t, valid=valid))
        elif f == "index2cursor":
            nch = utf8_count(b, ln) if b not in (b"a\xf0", b"\xe2\x82") else 2
            i_ = rng.choice([-1, 0, 1, nch - 1, nch, nch + 1, nch + 7, 1 << 61, (1 << 62) - 1, -(1 << 62)])
            ia = ("f%d" % i_, "f" + zhex(i_))
            if rng.random() < 0.08:
                ia = rng.choice([("F", "i"), ("c1", "c1")])
            H.append("index2cursor s%s %s" % (hx(b), ia[0]))
            M.append("index2cursor %s %s" % (hx(b), ia[1]))
            J.append(dict(f=f, src=b))
        elif f == "cursor2index":
            o_ = pos(ln, "c")
            H.append("cursor2index s%s c%d" % (hx(b), o_))
            M.append("cursor2index pS:%x:0 c%s" % (ln, zhex(o_)))
            J.append(dict(f=f, src=b, off=o_))
        elif f == "makevector":
            mx = consts["max_vector_length"]
            n_ = rng.choice([0, 1, 5, 1000, 65536, -1, -5, mx + 1, mx + 2, (1 << 62) - 1, -(1 << 62), 1 << 61, (1 << 61) - 1])
            H.append("makevector f%d" % n_)
            M.append("makevector %x %x %x %s" % (mx, consts["vector_header_bytes"], consts["word_bytes"], zhex(n_)))
            J.append(dict(f=f, n=n_))
        elif f == "makebytes":
            n_ = rng.choice([0, 1, 5, 1000, 65536, -1, -5, -(1 << 62)])
            a = ("f%d" % n_, "f" + zhex(n_))
            if rng.random() < 0.1:
                a = rng.choice([("F", "i"), ("c1", "c1"), ("n", "i")])
                n_ = None
            H.append("makebytes " + a[0])
            M.append("makebytes " + a[1])
            J.append(dict(f=f, n=n_))
        else:
            z = rng.choice(bigs + [0, 1, -1, 5, 1000, -1000])
            H.append("fix2cur f%d" % z)
            M.append("fix2cur %s" % zhex(z))
            J.append(dict(f=f))
    # the embedding caller's half: source text that fails in every phase; value or exception object, never a crash
    progs = ["(car 5)", "(vector-ref (vector) 0)", "(error \"boom\" 1 2)", "(raise 'sym)", "(1 . )", "#<", "(((", ")", "\"abc",
             "undefined-variable-xyz", "(apply + 1)", "((lambda (x) x))", "((lambda (x) x) 1 2)", "(string-ref \"abc\" 10)",
             "(integer->char -1)", "(let loop ((i 0)) (if (< i 10) (loop (+ i 1)) (car i)))", "(call-with-current-continuation (lambda (k) (k (car '()))))",
             "(dynamic-wind (lambda () #f) (lambda () (vector-ref (vector 1) 1)) (lambda () #f))", "(with-exception-handler (lambda (e) 42) (lambda () (+ 1 (raise 'oops))))",
             "(let ((v (make-vector 3 0))) (vector-set! v 3 1))", "(substring \"abc\" 2 1)", "(list-tail '(1 2) 3)", "(exact (/ 1. 0))", "(string->symbol 5)",
             "(bytevector-u8-ref (bytevector 1) 1)", "(" * 3000 + ")" * 3000, "(quote " * 2000 + "x" + ")" * 2000, "#0=(a . #0#)", "#u8(1 2 300)", "(+ 1 2)", "(vector-ref (vector 1 2 3) 1)",
             "(define (f n) (if (= n 0) 0 (+ 1 (f (- n 1))))) (f 100000)", "(letrec ((f (lambda (n) (+ 1 (f n))))) (f 0))"]
    for p_ in progs:
        H.append("eval " + p_.encode().hex())
        M.append(None)
        J.append(dict(f="eval", prog=p_))
    # malformed-source stream: byte mutations of small sources that use every lexical form, fed to the reader alone
    # and to read+eval; the answer must be a value or an exception object and the context must survive
    for src in malformed_sources(rng, 300 if not ctx.thorough else 6000):
        f_ = rng.choice(["read", "read", "eval"])
        if b"loop" in src or b"(f " in src or b"define-syntax" in src:
            f_ = "read"        # mutated loops may not terminate: only the reader sees them
        H.append("%s %s" % (f_, src.hex()))
        M.append(None)
        J.append(dict(f=f_, prog=src.decode("latin-1")))
    mo = ctx.run_model(exe, [m for m in M if m is not None])
    io = run_harness(emb, d, H)
    k = 0
    bad_model = {}
    for h, m, j, r in zip(H, M, J, io):
        mout = None
        if m is not None:
            mout = mo[k]
            k += 1
        f = j["f"]
        ctx.count(1, key=h, nontrivial=(f != "eval" or True))
        ctx.cov["traces_validated_against_impl"] += 1 if m is not None else 0
        rep = "echo '%s' | ASAN_OPTIONS=%s LD_LIBRARY_PATH=%s %s" % (h, ASAN_ENV["ASAN_OPTIONS"], d, emb)
        if r is None or r.startswith("CRASH"):
            ctx.violation("prim:%s:crash" % f, input=h, expected="value or error object", observed=r, replay=rep)
            continue
        if r.endswith(" P!"):
            ctx.violation("prim:%s:context-broken" % f, input=h, expected="probe program evaluates to 40425 and the stack top is restored",
                          observed=r, replay=rep)
            continue
        r = r[:-2]
        if f in ("eval", "read"):
            if not (r.startswith("E ") or r.startswith("V ")):
                ctx.violation("eval:outcome", input=j["prog"][:200], expected="value or exception object", observed=r, replay=rep)
            continue
        is_err = r.startswith("E ")
        if f == "utf8ref":
            lead = j["src"][j["i"]]
            left = len(j["src"]) - j["i"]
            need = 1 if lead < 0xc0 or lead > 0xf7 else 2 if lead < 0xe0 else 3 if lead < 0xf0 else 4
            if mout.startswith("E") != (need > left):
                bad_model.setdefault(f, (h, mout, "python: lead %#x needs %d bytes, %d left" % (lead, need, left)))
            elif need > left:
                if not is_err:
                    ctx.violation("prim:utf8ref:truncated-lead:no-error", input=h,
                                  expected="an error object: the lead byte %#x announces %d bytes, %d are left in the string" % (lead, need, left),
                                  observed=r + "  (a character assembled from bytes beyond the string)", replay=rep)
            elif 0x80 <= lead < 0xc0 or lead > 0xf7:
                if not is_err:
                    bad_model.setdefault(f, (h, "invalid utf8 byte", r))
            else:
                c = j["src"][j["i"]:j["i"] + need]
                v = c[0] if need == 1 else ((c[0] & 0x3f) << 6) + (c[1] & 0x3f) if need == 2 else \
                    ((c[0] & 0x1f) << 12) + ((c[1] & 0x3f) << 6) + (c[2] & 0x3f) if need == 3 else \
                    ((c[0] & 0x0f) << 18) + ((c[1] & 0x3f) << 12) + ((c[2] & 0x3f) << 6) + (c[3] & 0x3f)
                if r != "V f%d" % v:
                    ctx.violation("prim:utf8ref:wrong-region", input=h, expected="V f%d (decoded from the string's own bytes)" % v, observed=r, replay=rep)
            continue
        if f == "utf8set":
            src, i_ = j["src"], j["i"]
            lead = src[i_]
            old = 1 if lead < 0xc0 else 2 if lead < 0xe0 else ((lead >> 4) & 1) + 3
            old = min(old, len(src) - i_)
            exp_b = src[:i_] + chr(j["ch"]).encode() + src[i_ + old:]
            if mout != "V %x" % (len(exp_b) + 1) and old != len(chr(j["ch"]).encode()):
                bad_model.setdefault(f, (h, mout, "python: new store of %d+1 bytes" % len(exp_b)))
            if r != "V s" + hx(exp_b):
                ctx.violation("prim:utf8set:wrong-bytes", input=h, expected="V s%s (the character at the cursor replaced, everything else kept)" % hx(exp_b),
                              observed=r, replay=rep)
            continue
        if mout.startswith("E"):
            if not is_err:
                if f in ("substring", "subbytes") and not j["valid"]:
                    ctx.violation("prim:%s:no-error" % f, input=h, expected="an error object: the range is not inside the object", observed=r, replay=rep)
                elif f in ("index2cursor", "cursor2index", "makevector", "makebytes"):
                    ctx.violation("prim:%s:no-error" % f, input=h, expected="an error object (model of the range tests: %s)" % mout, observed=r, replay=rep)
                else:
                    bad_model.setdefault(f, (h, mout, r))
            continue
        if is_err:
            bad_model.setdefault(f, (h, mout, r))
            continue
        # both deliver a value: compare contents
        if f in ("substring", "subbytes"):
            _, off, ln_ = mout.split()
            off, ln_ = _z(off), _z(ln_)
            exp = "V %s%s" % (j["t"], hx(j["src"][off:off + ln_]))
        elif f == "index2cursor":
            exp = "V c%d" % _z(mout.split()[1])
        elif f == "cursor2index":
            exp = "V f%d" % utf8_count(j["src"], j["off"])
        elif f == "makevector":
            exp = "V v%d" % j["n"]
        elif f == "makebytes":
            exp = "V b" + ("00" * j["n"] if j["n"] else "-")
        else:
            exp = "V c%d" % _z(mout)
        if r != exp:
            if f in ("substring", "subbytes", "index2cursor"):
                ctx.violation("prim:%s:wrong-region" % f, input=h, expected=exp, observed=r, replay=rep)
            else:
                bad_model.setdefault(f, (h, exp, r))
    for f, (h, m, r) in bad_model.items():
        ctx.broken("inner:prim-model-vs-C:" + f, "model and C primitive disagree on %s: model %s, implementation %s" % (h, m, r))
    ctx.sample(dict(kind="prim", request=H[0], model=mo[0] if mo else None, impl=io[0]))


# ------------------------------------------------------------------------------------ part 3: stack growth
def stack_stream(ctx, exe, d, rng, consts):
    """apply with long argument lists at depth, deep non-tail recursion, many-argument calls: the places
    where sexp_ensure_stack must have made room; run under ASan with the stack object inside the poisoned heap"""
    init, mx = consts["init_stack_size"], consts["max_stack_size"]
    pre = ("(define (deep k m f) (if (= k 0) (apply f (make-list m 1)) (+ 1 (deep (- k 1) m f))))"
           "(define (count . args) (length args)) (define (rest1 a . r) (+ a (length r)))"
           "(define (down n) (if (= n 0) 0 (+ 1 (down (- n 1)))))")
    if ctx.thorough:
        ms = sorted({10, init - 70, init - 1, init, init + 1, 2 * init, 2 * init + 1, 4 * init + 3, 10 * init, 40000, 100000} | {rng.randrange(init, 50 * init) for _ in range(6)})
        ds = [0, 3, 50, init // 8, init // 2, init, 2 * init - 48, 3 * init]
        orders = ("desc", "shuffled")
    else:
        ms = sorted({10, init - 1, init + 1, 2 * init + 1, 10 * init, 40000, rng.randrange(init, 50 * init)})
        ds = [0, init // 8, init, 3 * init]
        orders = ("desc",)
    # a grown stack never shrinks, so each group runs in a process of its own and asks for its largest jump first
    groups = []
    for dd in ds:
        for order in orders:
            g = [(dd, m, rng.choice(["+", "count", "rest1"])) for m in ms if rng.random() < 0.8]
            if order == "desc":
                g.sort(key=lambda c: -c[1])
            else:
                rng.shuffle(g)
            groups.append(g)
    groups.append([(2000, 40000, "+")])          # the input of F-C01-3
    groups.append([("down", n) for n in (init // 2, init, 3 * init, 20 * init)])
    # model side: the regenerated ensure_stack on the same magnitudes never answers a too-small stack
    reqs = []
    for m in ms:
        for top in (4, init // 2, init - 2, 2 * init - 2, 5 * init):
            ln = init
            while ln < top + 2:
                ln *= 2
            reqs.append((mx, ln, top, m + 64))
    mo = ctx.run_model(exe, ["ensure %x %x %x %x" % q for q in reqs])
    for q, o in zip(reqs, mo):
        ok = (o == "N" and q[0] <= q[2] + q[3]) or (o.startswith("S ") and q[2] + q[3] < _z(o[2:]) <= q[0])
        ctx.count(1, key=("ensure",) + q)
        if not ok:
            ctx.broken("stack:gen_ensure_stack", "regenerated sexp_ensure_stack(MAX=%d,len=%d,top=%d,n=%d) answers %s" % (q + (o,)))
    first = None
    for g in groups:
        exprs = ["(down %d)" % c[1] if c[0] == "down" else "(deep %d %d %s)" % c for c in g]
        exp = ["f%x" % c[1] if c[0] == "down" else "f%x" % (c[0] + c[1]) for c in g]
        io = run_cases(d, exprs, prelude_extra=pre, timeout=900, extra_env=ASAN_ENV, max_crashes=2)
        if first is None and exprs:
            first = (exprs[0], exp[0], io[0])
        for e, x, r in zip(exprs, exp, io):
            ctx.count(1, key=e)
            rep = replay_cmd(d, "(begin %s %s)" % (pre, e))
            if r == "SKIPPED":
                continue
            if r is None or r.startswith("CRASH") or r == "TIMEOUT":
                ctx.violation("stack:%s:crash" % e.split()[0].strip("("), input=e, expected=x, observed=r, replay=rep)
            elif r != x:
                if r.startswith("ERR"):
                    ctx.broken("stack:unexpected-error", "%s answered %s" % (e, r))
                else:
                    ctx.violation("stack:wrong-value", input=e, expected=x, observed=r, replay=rep)
    # unbounded recursion: must end in the out-of-stack error (delivered to the embedding caller: the VM loop is left,
    # no Scheme handler runs), not in a sanitizer report or a signal
    oos = "(import (scheme base) (scheme write)) %s (write (down %d))" % (pre, 2 * mx)
    path = os.path.join(B.SCRATCH, "c01_oos.scm")
    open(path, "w").write(oos)
    r = B.run_chibi(d, [path], timeout=900, extra_env=ASAN_ENV)
    ctx.count(1, key="oos")
    if "out of stack" not in (r.stderr + r.stdout) or "AddressSanitizer" in r.stderr or r.returncode in (97, -11, -6, 139, 134):
        ctx.violation("stack:no-out-of-stack-error", input="(down %d)" % (2 * mx), expected="out of stack space error, clean exit",
                      observed="rc=%s %s" % (r.returncode, (r.stderr or "")[-400:]), replay=replay_cmd(d, "(begin %s (down %d))" % (pre, 2 * mx)))
    # a single demand around and beyond SEXP_MAX_STACK_SIZE, made while the stack is still small (depth 0), has grown
    # a few times, or is large: apply with a list longer than MAX minus the current top.  One process per case
    # (the out-of-stack error ends the program); value when it fits, else the out-of-stack error, never a report.
    big = [(0, mx - 4 * init), (0, mx + 1), (3 * init, mx - 2 * init), (3 * init, mx + 75000), (100 * init, mx - 90 * init), (100 * init, mx + 1)]
    if ctx.thorough:
        big += [(0, 2 * mx + 1), (init // 2, mx - 70), (40 * init, mx - 64), (500 * init, mx // 2), (500 * init, mx + 9), (0, mx - 64), (0, mx - 65), (0, mx - 66),
                (0, mx - 3), (3 * init, mx + 1), (0, mx + 75000)]

    def big_one(kc):
        k, (dd, m) = kc
        f = ("+", "count", "rest1")[k % 3] if m < 200000 else ("count", "rest1")[k % 2]     # (+ ...) of 10^6 values is quadratic
        e = "(deep %d %d %s)" % (dd, m, f)
        path = os.path.join(B.SCRATCH, "c01_bigapply_%d_%d.scm" % (os.getpid(), k))
        open(path, "w").write("(import (scheme base) (scheme write)) %s (write %s)" % (pre, e))
        try:
            r = B.run_chibi(d, [path], timeout=900, extra_env=ASAN_ENV)
            rc, out, err = r.returncode, r.stdout, r.stderr
        except subprocess.TimeoutExpired:
            rc, out, err = "TIMEOUT", "", ""
        try:
            os.unlink(path)
        except OSError:
            pass
        return dd, m, f, e, rc, out, err
    from concurrent.futures import ThreadPoolExecutor
    with ThreadPoolExecutor(3) as ex:
        bres = list(ex.map(big_one, enumerate(big)))
    for dd, m, f, e, rc, out, err in bres:
        ctx.count(1, key=("bigapply", dd, m, f), nontrivial=True)
        good_value = rc == 0 and out.strip() == str(dd + m)
        good_error = rc == 70 and "out of stack" in (err + out) and "AddressSanitizer" not in err
        if not (good_value or good_error):
            ctx.violation("stack:apply-beyond-max:%s" % ("crash" if rc != 0 else "wrong-value"), input=e + "   [SEXP_MAX_STACK_SIZE=%d]" % mx,
                          expected="%d, or the out-of-stack error (exit 70)" % (dd + m),
                          observed="rc=%s %s %s" % (rc, out[-80:], _asan_summary(err)), replay=replay_cmd(d, "(begin %s %s)" % (pre, e)))
    if first:
        ctx.sample(dict(kind="stack", expr=first[0], expected=first[1], impl=first[2]))



# ------------------------------------------------------------------------------------ part 3b: frame discipline of variadic calls
# (name, parameter list, body, python function of the argument list giving the printed result)
def _slist(xs):
    return "(" + " ".join(str(x) for x in xs) + ")"


REST_PROCS = [
    # rest parameter unused: make_call leaves the surplus arguments on the stack, RET pops them (UNUSED_REST protocol)
    ("r1-unused", "(a . r)", "a", 1, lambda a: str(a[0])),
    ("r0-unused", "r", "'k", 0, lambda a: "k"),
    ("r2-unused", "(a b . r)", "(- a b)", 2, lambda a: str(a[0] - a[1])),
    # used: rest list consed by make_call / '() inserted
    ("r1-used", "(a . r)", "(cons a r)", 1, lambda a: _slist(a)),
    ("r0-used", "r", "r", 0, lambda a: _slist(a)),
    ("r2-used", "(a b . r)", "(list b a (length r) r)", 2, lambda a: _slist([a[1], a[0], len(a) - 2, _slist(a[2:])])),
    # only ASSIGNED, never read: the parameter needs its slot (and its box when captured) although nothing reads it
    ("r1-assigned", "(a . r)", "(begin (set! r 5) a)", 1, lambda a: str(a[0])),
    ("r0-assigned", "r", "(begin (set! r 7) 'z)", 0, lambda a: "z"),
    ("r2-assigned", "(a b . r)", "(begin (set! r a) (+ a b))", 2, lambda a: str(a[0] + a[1])),
    ("r1-assigned-if", "(a . r)", "(begin (if (> a 100) (set! r 1)) a)", 1, lambda a: str(a[0])),
    # assigned and read back
    ("r1-assigned-read", "(a . r)", "(begin (set! r (cons a r)) r)", 1, lambda a: _slist(a)),
    # captured by an inner lambda (read / assigned there): boxed at entry
    ("r1-captured", "(a . r)", "((lambda () (cons a r)))", 1, lambda a: _slist(a)),
    ("r1-captured-set", "(a . r)", "(begin ((lambda () (set! r 9))) a)", 1, lambda a: str(a[0])),
    ("r1-captured-set-read", "(a . r)", "(let ((g (lambda (x) (set! r (cons x r))))) (g a) r)", 1, lambda a: _slist(a)),
    ("r0-captured-set", "r", "(begin ((lambda () (set! r 3))) 'w)", 0, lambda a: "w"),
    # a fixed parameter assigned next to an unused rest (the box of the fixed one must not move)
    ("r1-fixed-assigned", "(a . r)", "(begin (set! a (* a 2)) a)", 1, lambda a: str(2 * a[0])),
    ("r1-local-shadow", "(a . r)", "(let ((r 4)) (+ a r))", 1, lambda a: str(a[0] + 4)),
]


def frame_discipline_stream(ctx, d):
    """K-outer for the call / return frame protocol: a family of variadic procedures whose rest parameter is unused, used,
    only assigned, assigned in a closure, captured; each called with 0..5 surplus arguments, directly, through apply and in
    tail position, from callers that hold PENDING operands on the stack (operands of an outer call evaluated before and after)
    and locals.  The answer is fixed by the language, so any write of the callee's prologue / make_call / RET outside its own
    frame shows as a wrong pending operand, a wrong result or a sanitizer report."""
    defs = "".join("(define (%s%s) %s)\n" % (nm, (" " + ps[1:-1]) if ps.startswith("(") else (" . " + ps), body) for nm, ps, body, _, _ in REST_PROCS)
    defs += ("(define (verif-pend f . xs) (let ((p 11) (q (vector 22))) (let ((v (apply f xs))) (list p v (vector-ref q 0)))))\n"
             "(define (verif-tail f a b c) (let ((l1 (* a 1)) (l2 (* b 1))) (if (> l1 -1) (f a b c) l2)))\n"
             "(define (verif-rec f n xs) (if (= n 0) (apply f xs) (let ((k (* n 3))) (list k (verif-rec f (- n 1) xs) k))))\n")
    cases = []
    for nm, ps, body, nfix, fn in REST_PROCS:
        for extra in range(0, 6):
            n = nfix + extra
            args = [10 * (k + 1) + extra for k in range(n)]
            a = " ".join(str(x) for x in args)
            r = fn(args)
            sp = (" " + a) if a else ""
            cases.append(("direct", nm, n, "(list 1 2 (%s%s) 3 4)" % (nm, sp), "(1 2 %s 3 4)" % r))
            cases.append(("nested", nm, n, "(vector 'x (%s%s) (list 'y (%s%s)) 'z)" % (nm, sp, nm, sp), "#(x %s (y %s) z)" % (r, r)))
            cases.append(("apply", nm, n, "(list 5 (apply %s (list%s)) 6)" % (nm, sp), "(5 %s 6)" % r))
            cases.append(("apply-spread", nm, n, "(list 5 (apply %s%s '()) 6)" % (nm, sp), "(5 %s 6)" % r) if n else
                         ("apply-empty", nm, n, "(cons (apply %s '()) 8)" % nm, "(%s . 8)" % r))
            cases.append(("locals", nm, n, "(verif-pend %s%s)" % (nm, sp), "(11 %s 22)" % r))
            if n == 3:
                cases.append(("tail", nm, n, "(list 7 (verif-tail %s%s) 8)" % (nm, sp), "(7 %s 8)" % r))
            if extra in (0, 2):
                cases.append(("recursive", nm, n, "(verif-rec %s 3 (list%s))" % (nm, sp), "(9 (6 (3 %s 3) 6) 9)" % r))
            if extra == 1:
                cases.append(("lambda", nm, n, "((lambda (u v) (list u (%s%s) v)) 'a 'b)" % (nm, sp), "(a %s b)" % r))
    # too few arguments: an error object, then the same procedure again
    for nm, ps, body, nfix, fn in REST_PROCS:
        if nfix:
            cases.append(("too-few", nm, 0, "(list 1 (guard (e (#t 'err)) (%s)) 2)" % nm, "(1 err 2)"))
    exprs = [c[3] for c in cases]
    pdef = {nm: (ps, body) for nm, ps, body, _, _ in REST_PROCS}
    io = run_cases(d, exprs, prelude_extra=defs, timeout=300, extra_env=ASAN_ENV, max_crashes=4)
    for (form, nm, n, e, exp), r in zip(cases, io):
        ctx.count(1, key=("frame", e), nontrivial=True)
        ctx.cov["traces_validated_against_impl"] += 1
        if r == "SKIPPED":
            continue
        rep = replay_cmd(d, "(begin %s %s)" % (defs.replace("\n", " "), e))
        if r is None or r.startswith("CRASH") or r == "TIMEOUT":
            ctx.violation("frame:%s:%s:crash" % (nm, form), input=e, expected=exp, observed=r, replay=rep)
        elif r != exp:
            ctx.violation("frame:%s:%s:wrong-value" % (nm, form), input=e + "   [procedure: (lambda %s %s)]" % pdef.get(nm, ("?", "?")),
                          expected=exp + "  (the pending operands and locals of the caller intact, the result as the language defines it)",
                          observed=r, replay=rep)
    ctx.note("frame-discipline stream: %d calls of %d variadic procedures (rest parameter unused / used / only assigned / captured) with 0-5 "
             "surplus arguments, direct, nested, through apply, in tail position, from callers with pending operands and locals" % (len(cases), len(REST_PROCS)))
    if cases:
        ctx.sample(dict(kind="frame", expr=cases[0][3], expected=cases[0][4], impl=io[0]))


# ------------------------------------------------------------------------------------ part 4: deep / long / cyclic DATA
# Every C-recursive (or Scheme-recursive) consumer of data, at depths around and well beyond its depth bound, one
# process per case, on the normal build with the default 8 MB C stack and with a reduced C stack (unbounded recursion
# then shows up at 10^5 instead of 10^6).  Outcome must be a value or a Scheme error object (or the out-of-stack
# error at top level, exit 70); never a signal, never a hang.
DEEP_LINKS = [  # (label, builder of a datum nested {n} deep around LEAF)
    ("car", "(nest-car {n} LEAF)"), ("carstr", "(nest-carstr {n} LEAF)"), ("cadr", "(nest-cadr {n} LEAF)"), ("dot", "(nest-dot {n} LEAF)"),
    ("vec1-0", "(nest-vec {n} 1 0 LEAF)"), ("vec3-0", "(nest-vec {n} 3 0 LEAF)"), ("vec3-1", "(nest-vec {n} 3 1 LEAF)"),
    ("vec3-2", "(nest-vec {n} 3 2 LEAF)"), ("mixed", "(nest-mixed {n} LEAF)"),
]
DEEP_PRINTERS = [("write-simple", "(printed write-simple X)"), ("write", "(printed write X)"), ("display", "(printed display X)"),
                 ("write-shared", "(printed write-shared X)")]


def deep_cases(thorough):
    """(name, expression with {n}, depth, C stack in KB) — the expression is the body of a thunk run under a handler.
    C stacks: 8192 = the usual default; 2048 (3072 for the C printer) = reduced (enough for every depth-BOUNDED recursion of the printer,
    equal?, hash and strip-syntactic-closures at their bounds — measured on the baseline — so that an unbounded one
    overflows at a depth of ~25000 already; the analyzer at SEXP_MAX_ANALYZE_DEPTH needs 4-8 MB: expressions run
    with 8192 only)"""
    out = []
    C_LEVEL = [("print:write-simple", "(printed write-simple X)"), ("c-equal", None), ("hash", "(hash X)"),
               ("eval-quote", "(eval (list 'quote X) deep-env)"),
               # with a syntactic closure inside, quote really copies the datum (sexp_strip_synclos_bound)
               ("eval-quote-synclo", "(eval (list 'quote (list (nest-synclo 1 'x) X)) deep-env)")]
    S_LEVEL = [("print:write", "(printed write X)"), ("print:display", "(printed display X)"),
               ("print:write-shared", "(printed write-shared X)"), ("equal", None)]
    cheap = ("car", "carstr", "cadr", "dot", "vec1-0", "mixed")       # links whose construction is not quadratic in the GC
    for ll, build in DEEP_LINKS:
        one, two = build.replace("LEAF", "1"), build.replace("LEAF", "2")
        for level, consumers in (("C", C_LEVEL), ("S", S_LEVEL)):
            for cn, ce in consumers:
                if ce is None:
                    f = "c-equal?" if cn == "c-equal" else "equal?"
                    e = "(let ((a %s) (b %s)) (list (%s a b) (%s a %s)))" % (one, one, f, f, two)
                else:
                    e = ce.replace("X", one)
                if not thorough and cn in ("print:display", "print:write-shared") and ll not in ("car", "vec3-0"):
                    continue
                plan = [(10010, 2048), (40000, 2048)]
                if level == "S" and not thorough and ll not in ("car", "cadr", "vec1-0"):
                    # quick tier: the Scheme-level consumers recurse on the VM stack; their C part (the C pass of equal?,
                    # write-simple under write) is the function the C-level consumers exercise at 40000 through EVERY link.
                    # 40000 levels of 3-slot vectors / dotted / mixed data cost 4-14 s each (collector work): thorough tier
                    plan = [(10010, 2048)]
                if not thorough and ((cn == "equal" and ll != "car") or (cn == "c-equal" and ll in ("vec3-1", "vec3-2"))):
                    # round 4 trim (measured 25-35 CPU-s each under load): Scheme-level equal? at 40000 through car only; the C pass of
                    # equal? at 40000 through slot 0 of 3-slot vectors only (slots 1 / 2 at 10010; all of them in thorough)
                    plan = [(10010, 2048)]
                if thorough or cn in ("print:write-simple", "c-equal"):
                    plan.insert(0, (9990, 2048))
                if level == "C" and (thorough or (ll in cheap and ll != "carstr")):
                    # (carstr at 120000 costs 10-40 CPU-s per consumer: thorough; it runs at 40000 in quick)
                    plan.append((120000, 8192))
                if level == "C" and thorough and ll in cheap:
                    plan.append((1000000, 8192))
                if level == "S" and thorough and ll == "car" and cn in ("print:write", "equal"):
                    plan.append((120000, 8192))     # ~5 min each: quadratic collector work, ends in the VM's out-of-stack error
                for n, kb in plan:
                    if kb == 2048 and cn == "print:write-simple":
                        kb = 3072       # the bounded printer needs 1.3-1.5 MB at its bound: factor 2
                    out.append(("%s:%s" % (cn, ll), e, n, kb))
    for n, kb in [(9990, 3072), (10010, 3072), (40000, 3072), (120000, 8192)] + ([(1000000, 8192)] if thorough else []):
        out.append(("print:write-simple:synclo", "(printed write-simple (nest-synclo {n} 'x))", n, kb))
    big = [100000, 1000000] + ([5000000] if thorough else [])
    for n in big:
        for nm, e in (("length", "(length (long-list {n}))"), ("length-improper", "(length (long-improper {n}))"),
                      ("list?", "(list (list? (long-list {n})) (list? (long-improper {n})))"),
                      ("list-copy", "(length (list-copy (long-list {n})))"), ("list-copy-improper", "(pair? (list-copy (long-improper {n})))"),
                      ("append", "(length (append (long-list {n}) (long-list {n}) '(1)))"), ("reverse", "(length (reverse (long-list {n})))"),
                      ("list->vector", "(vector-length (list->vector (long-list {n})))"), ("vector->list", "(length (vector->list (make-vector {n} 0)))"),
                      ("map", "(length (map (lambda (x) x) (long-list {n})))"), ("for-each", "(for-each (lambda (x) x) (long-list {n}))"),
                      ("apply-list", "(length (apply list (long-list {n})))"), ("apply-plus", "(apply + (long-list {n}))"),
                      ("apply-lambda-rest", "(apply (lambda r (length r)) (long-list {n}))"),
                      ("list->string", "(string-length (list->string (make-list {n} #\\a)))"), ("string->list", "(length (string->list (make-string {n} #\\a)))"),
                      ("string->symbol", "(string->symbol (make-string {n} #\\a))"),
                      ("symbol->string", "(string-length (symbol->string (string->symbol (make-string {n} #\\b))))"),
                      ("string-append-apply", "(string-length (apply string-append (make-list {n} \"ab\")))"),
                      ("print-long", "(printed write-simple (long-list {n}))"), ("print-long-improper", "(printed write-simple (long-improper {n}))"),
                      ("write-long", "(printed write (long-list {n}))"),
                      ("equal-long", "(list (equal? (long-list {n}) (long-list {n})) (c-equal? (long-improper {n}) (long-improper {n})))"),
                      ("hash-long", "(hash (long-list {n}))"), ("memv-long", "(memv 2 (long-list {n}))"), ("assv-long", "(assv 2 (map list (long-list {n})))"),
                      ("list-tail", "(list-tail (long-list {n}) {n})"), ("vector-map", "(vector-length (vector-map (lambda (x) x) (make-vector {n} 0)))"),
                      ("eval-long-app", "(eval (cons 'list (long-list {n})) deep-env)"), ("eval-long-begin", "(eval (cons 'begin (long-list {n})) deep-env)"),
                      ("eval-quote-long", "(length (eval (list 'quote (long-list {n})) deep-env))"),
                      ("read-long", "(length (read (open-input-string (string-append \"(\" (apply string-append (make-list {n} \"1 \")) \")\"))))")):
            slow = nm in ("apply-plus", "write-long", "equal-long", "read-long")      # quadratic on the baseline
            if slow and n > 100000:
                continue
            if not thorough and ((n == 100000) != slow):
                continue
            out.append(("long:" + nm, e, 30000 if slow and not thorough else n, 8192 if n > 100000 else 2048))
    for n in ([3000, 30000] + ([300000] if thorough else [])):
        out.append(("num:number->string", "(string-length (number->string (expt 7 {n})))", n, 2048))
        out.append(("num:string->number", "(exact? (string->number (make-string {n} #\\7)))", n, 2048))
        out.append(("num:print-bignum", "(printed write-simple (expt 7 {n}))", n, 2048))
        out.append(("num:read-bignum", "(exact? (read (open-input-string (make-string {n} #\\7))))", n, 2048))
    edepths = [8000, 9000, 120000] + ([1000000] if thorough else [])
    for n in edepths:
        for nm, e in (("opcode", "(eval (nest-expr {n} 'car ''(1)) deep-env)"), ("app", "(eval (nest-expr {n} 'list 1) deep-env)"),
                      ("lambda-call", "(eval (nest-expr2 {n} (lambda (x) (list (list 'lambda '() x))) 1) deep-env)"),
                      ("lambda", "(procedure? (eval (nest-expr2 {n} (lambda (x) (list 'lambda '() x)) 1) deep-env))"),
                      ("if", "(eval (nest-expr2 {n} (lambda (x) (list 'if x 1 2)) #t) deep-env)"),
                      ("if-tail", "(eval (nest-expr2 {n} (lambda (x) (list 'if #t x 2)) #t) deep-env)"),
                      ("begin", "(eval (nest-expr {n} 'begin 1) deep-env)"), ("set", "(eval (list 'let '((v 1)) (nest-expr2 {n} (lambda (x) (list 'set! 'v x)) 1)) deep-env)"),
                      ("arith", "(eval (nest-expr2 {n} (lambda (x) (list '+ 1 x)) 1) deep-env)"), ("not", "(eval (nest-expr {n} 'not #t) deep-env)"),
                      ("operator", "(eval (nest-expr2 {n} (lambda (x) (list x)) 'list) deep-env)"),
                      ("let", "(eval (nest-expr2 {n} (lambda (x) (list 'let (list (list 'v x)) 'v)) 1) deep-env)"),
                      ("cond", "(eval (nest-expr2 {n} (lambda (x) (list 'cond (list x 1) '(else 2))) #t) deep-env)"),
                      ("and", "(eval (nest-expr {n} 'and #t) deep-env)"), ("define-body", "(eval (list 'let '() (nest-expr2 {n} (lambda (x) (list 'define '(f) x)) 1) 2) deep-env)"),
                      ("quasiquote-unquote", "(eval (nest-expr2 {n} (lambda (x) (list 'quasiquote (list 'a (list 'unquote x)))) 1) deep-env)"),
                      ("quasiquote-template", "(eval (list 'quasiquote (nest-car {n} 1)) deep-env)"),
                      ("quasiquote-levels", "(eval (nest-expr {n} 'quasiquote 'x) deep-env)"),
                      ("quasiquote-vector", "(eval (list 'quasiquote (nest-vec {n} 2 0 1)) deep-env)"),
                      ("let-syntax", "(eval (nest-expr2 {n} (lambda (x) (list 'let-syntax '() x)) 1) deep-env)"),
                      ("synclo", "(eval (nest-synclo {n} 1) deep-env)"),
                      ("read-parens", "(c-read (open-input-string (string-append (make-string {n} #\\() (make-string {n} #\\)))))"),
                      ("read-quotes", "(c-read (open-input-string (string-append (make-string {n} #\\') \"x\")))"),
                      ("read-vectors", "(c-read (open-input-string (string-append (apply string-append (make-list (quotient {n} 3) \"#(\")) (make-string (quotient {n} 3) #\\)))))"),
                      ("read-dotted", "(c-read (open-input-string (string-append (apply string-append (make-list {n} \"(a . \")) \"b\" (make-string {n} #\\)))))"),
                      ("read-datum-comment", "(c-read (open-input-string (string-append (apply string-append (make-list {n} \"#;\")) (apply string-append (make-list {n} \"1 \")) \"2\")))"),
                      ("read-unterminated", "(c-read (open-input-string (make-string {n} #\\()))"),
                      ("sread-parens", "(read (open-input-string (string-append (make-string {n} #\\() (make-string {n} #\\)))))"),
                      ("sread-quotes", "(read (open-input-string (string-append (make-string {n} #\\') \"x\")))")):
            if not thorough and n < 10000 and nm not in ("opcode", "app", "quasiquote-template", "read-parens", "if"):
                continue
            if not thorough and nm == "and":
                continue             # 120000 nested `and`s: a value after 45 s of macro expansion (thorough)
            if nm.startswith("sread-") and n > 120000:
                continue             # the Scheme reader at 10^6 levels: minutes of collector work
            if nm.startswith("read-") and n == 120000:
                n_ = 400000          # the C reader's frames are small: 120000 levels fit in 8 MB even without a bound
            else:
                n_ = n
            out.append(("expr:" + nm, e, n_, 8192))
    for nm, e in (("write-simple:car", "(printed write-simple (cycle-car))"), ("write-simple:cdr", "(printed write-simple (cycle-cdr))"),
                  ("write-simple:vec0", "(printed write-simple (cycle-vec 0))"), ("write-simple:vec1", "(printed write-simple (cycle-vec 1))"),
                  ("write-simple:vec2", "(printed write-simple (cycle-vec 2))"), ("write:car", "(printed write (cycle-car))"),
                  ("write:vec", "(printed write (cycle-vec 1))"), ("display:cdr", "(printed display (cycle-cdr))"),
                  ("equal:car", "(equal? (cycle-car) (cycle-car))"), ("equal:cdr", "(equal? (cycle-cdr) (cycle-cdr))"), ("equal:vec", "(equal? (cycle-vec 0) (cycle-vec 0))"),
                  ("c-equal:car", "(c-equal? (cycle-car) (cycle-car))"), ("c-equal:vec", "(c-equal? (cycle-vec 2) (cycle-vec 2))"),
                  ("hash:car", "(hash (cycle-car))"), ("hash:cdr", "(hash (cycle-cdr))"), ("hash:vec", "(hash (cycle-vec 1))"),
                  ("length:cdr", "(length (cycle-cdr))"), ("list?:cdr", "(list? (cycle-cdr))"),
                  ("eval:car", "(eval (cycle-car) deep-env)"), ("eval:cdr", "(eval (cycle-cdr) deep-env)"), ("eval-quote:car", "(pair? (eval (list 'quote (cycle-car)) deep-env))"),
                  ("eval-quote:vec", "(vector? (eval (list 'quote (cycle-vec 0)) deep-env))"),
                  ("read:label", "(printed write-simple (read (open-input-string \"#0=(#0# . #0#)\")))")):
        out.append(("cyclic:" + nm, e, 0, 8192 if nm.startswith("eval:") else 3072 if "write-simple" in nm or nm == "read:label" else 2048))
    return out


def _limit_stack(kb):
    def f():
        if kb:
            soft, hard = resource.getrlimit(resource.RLIMIT_STACK)
            resource.setrlimit(resource.RLIMIT_STACK, (kb * 1024, hard))
        resource.setrlimit(resource.RLIMIT_AS, (6 << 30, 6 << 30))     # a runaway case must not eat the machine
    return f


def run_deep_case(dflt, prelude, expr, stack_kb, timeout, tag):
    path = os.path.join(B.SCRATCH, "c01_deep_%d_%s.scm" % (os.getpid(), tag))
    open(path, "w").write(prelude + "\n(verif-deep (lambda () %s))\n" % expr)
    t0 = time.time()
    try:
        r = subprocess.run([os.path.join(dflt, "chibi-scheme"), path], capture_output=True, encoding="utf-8", errors="replace",
                           timeout=timeout, env=B.chibi_env(dflt), preexec_fn=_limit_stack(stack_kb))
        rc, out, err = r.returncode, r.stdout, r.stderr
    except subprocess.TimeoutExpired:
        rc, out, err = "TIMEOUT", "", ""
    try:
        os.unlink(path)
    except OSError:
        pass
    return rc, out, err, time.time() - t0


def classify_deep(rc, out, err):
    """'V' value, 'E' error object to the handler, 'T' error object at top level (exit 70), else the failure"""
    first = (out.strip().split("\n") or [""])[-1]
    if rc == 0 and first.startswith("V "):
        return "V"
    if rc == 0 and first.startswith("E "):
        return "E"
    if rc == 70 and ("out of stack space" in err + out or "out of memory" in err + out or "ERROR" in err + out):
        return "T"
    if rc == "TIMEOUT":
        return "hang"
    return "crash"


def deep_replay(dflt, expr, kb):
    return ("(ulimit -s %d; { cat %s; echo '(verif-deep (lambda () %s))'; } | LD_LIBRARY_PATH=%s CHIBI_MODULE_PATH=%s/lib "
            "CHIBI_IGNORE_SYSTEM_PATH=1 %s/chibi-scheme /dev/stdin)"
            % (kb, os.path.join(HERE, "..", "harness", "c01_deep.scm"), expr.replace("'", "'\\''"), dflt, dflt, dflt))


def deep_start(ctx, dflt):
    """round 4: the deep-data cases (one process each, normal build, nothing shared with the other streams) run in the background
    while the sanitizer streams run; deep_finish collects them in case order.  Wall time of the tier = max, not sum."""
    from concurrent.futures import ThreadPoolExecutor
    prelude = open(os.path.join(HERE, "..", "harness", "c01_deep.scm")).read()
    cases = deep_cases(ctx.thorough)
    tmo = 240 if not ctx.thorough else 1200

    def one(ic):
        i, (nm, e, n, kb) = ic
        expr = e.replace("{n}", str(n))
        rc, out, err, dt = run_deep_case(dflt, prelude, expr, kb, tmo, "%d" % i)
        return nm, expr, n, kb, rc, out, err, dt
    ex = ThreadPoolExecutor(4 if ctx.thorough else 3)
    futs = [ex.submit(one, ic) for ic in enumerate(cases)]
    ex.shutdown(wait=False)
    return cases, futs, time.time()


def deep_stream(ctx, dflt, handle=None):
    cases, futs, t_start = handle if handle is not None else deep_start(ctx, dflt)
    res = [f.result() for f in futs]
    ctx.cov.setdefault("phase_seconds", {})["deep_stream_total"] = round(time.time() - t_start, 1)
    tally = {}
    slowest = (0, None)
    for nm, expr, n, kb, rc, out, err, dt in res:
        cls = classify_deep(rc, out, err)
        tally[cls] = tally.get(cls, 0) + 1
        if dt > slowest[0]:
            slowest = (round(dt, 1), "%s depth %d" % (nm, n))
        ctx.count(1, key=("deep", nm, n, kb), nontrivial=True)
        if cls in ("V", "E", "T"):
            continue
        fam = nm.rsplit(":", 1)[0] if nm.count(":") >= 2 else nm
        if nm.startswith("expr:read-") and cls == "crash" and n >= 100000 and "SEXP_MAX_READ_DEPTH" not in open(os.path.join(dflt, "include", "chibi", "features.h")).read():
            sig = "reader:nesting:c-stack-overflow"
        else:
            sig = "deep:%s:%s" % (nm, cls)
        ctx.violation(sig, input="%s   [depth %d, C stack %d KB]" % (expr, n, kb),
                      expected="a value or a Scheme error object (exit status 0, or 70 for an error reported by the top level)",
                      observed="%s rc=%s after %.1fs %s" % (cls, rc, dt, ((out or "") + (err or ""))[-200:].replace("\n", " | ")),
                      replay=deep_replay(dflt, expr, kb))
    ctx.cov["deep_data_outcomes"] = tally
    ctx.note("deep-data stream: %d cases (one process each; C stack 8192 KB / reduced 3072 or 2048 KB), outcomes %s; slowest %s"
             % (len(cases), tally, slowest))
    for nm, expr, n, kb, rc, out, err, dt in res[:1]:
        ctx.sample(dict(kind="deep", expr=expr, stack_kb=kb, impl=(out or "").strip()[-80:], rc=rc))


def printer_trunc_stream(ctx, exe, dflt, trec, consts):
    """K-inner for the printer: data nested N deep through each kind of link, N around SEXP_DEFAULT_WRITE_BOUND; the
    extracted model, run on the call-site table REGENERATED from sexp_write_one, says after how many nested
    activations the recursion stops; the real write-simple must have written exactly that many opening parentheses,
    and "..." exactly when the model stops early"""
    wb = consts["write_bound"]
    role = {}
    for line, kind, comment in trec["write_sites"]:
        arg = comment.split(" -> ")[0]
        r = {"sexp_car(obj)": "car", "sexp_car(x)": "cadr", "x": "dot", "elts[0]": "v0", "elts[i]": "vi"}.get(arg)
        if r and kind.startswith("Rec") or r and kind == "Unknown":
            role[r] = line
    missing = [r for r in ("car", "cadr", "dot", "v0", "vi") if r not in role]
    if missing:
        ctx.broken("inner:printer-sites", "call sites of sexp_write_one no longer recognised in the regenerated table: %s" % missing)
        return
    periods = {"car": ["car"], "cadr": ["cadr"], "dot": ["dot", "v0"], "vec1-0": ["v0"], "vec3-0": ["v0"], "vec3-1": ["vi"], "vec3-2": ["vi"]}
    mixed = {0: ["car"], 1: ["v0"], 2: ["cadr"], 3: ["vi"], 4: ["vi"], 5: ["dot", "v0"]}
    cases, reqs = [], []
    for ll, build in DEEP_LINKS:
        if ll == "carstr":
            continue          # its string tails are printed through the dotted-tail site as well: not a single path
        for n in ((wb - 1, wb, wb + 1, wb + 37) if ll != "dot" else (wb // 2 - 1, wb // 2, wb // 2 + 1, wb // 2 + 19)):
            if ll == "mixed":
                path = [r for i in range(n - 1, -1, -1) for r in mixed[i % 6]]
            else:
                path = periods[ll] * n
            cases.append((ll, n, len(path), "(trunc-info write-simple %s)" % build.replace("LEAF", "1").replace("{n}", str(n))))
            reqs.append("wtrunc %d %s" % (wb, " ".join(str(role[r]) for r in path)))
    mo = ctx.run_model(exe, reqs)
    prelude = open(os.path.join(HERE, "..", "harness", "c01_deep.scm")).read()
    body = "".join("(write %s)(newline)" % c[3] for c in cases)
    path_ = os.path.join(B.SCRATCH, "c01_trunc_%d.scm" % os.getpid())
    open(path_, "w").write(prelude + "\n" + body)
    try:
        r = subprocess.run([os.path.join(dflt, "chibi-scheme"), path_], capture_output=True, encoding="utf-8", errors="replace", timeout=300,
                           env=B.chibi_env(dflt))
        lines, rc = r.stdout.strip().split("\n"), r.returncode
    except subprocess.TimeoutExpired:
        lines, rc = [], "TIMEOUT"
    bad = None
    for k, ((ll, n, plen, e), m) in enumerate(zip(cases, mo)):
        ctx.count(1, key=("trunc", ll, n), nontrivial=True)
        ctx.cov["traces_validated_against_impl"] += 1
        if k >= len(lines):
            ctx.violation("deep:print:write-simple:%s:crash" % ll, input=e, expected="a value", observed="rc=%s, no answer" % rc,
                          replay=deep_replay(dflt, e, 8192))
            break
        kk = int(m)
        exp = "(%d %s)" % (min(kk, plen), "#t" if kk < plen else "#f")
        if lines[k] != exp and bad is None:
            bad = (e, exp, lines[k])
    if bad:
        ctx.broken("inner:printer-truncation", "model (regenerated call sites) and write-simple disagree on %s: model %s, implementation %s (opening parentheses written, \"...\" written)" % bad)
    if cases and lines:
        ctx.sample(dict(kind="printer-truncation", expr=cases[0][3], model=mo[0], impl=lines[0]))


# ------------------------------------------------------------------------------------ part 5: zero divisors, range arguments
ARITH_OPS = ["quotient", "remainder", "modulo", "floor/", "floor-quotient", "floor-remainder", "truncate/", "truncate-quotient",
             "truncate-remainder", "/", "exact-integer-sqrt", "gcd", "lcm", "expt", "atan", "exact"]
DIVIDENDS = ["5", "-5", "0", "5.0", "-5.0", "0.0", "(expt 2 70)", "(- (expt 2 70))", "(exact->inexact (expt 2 70))", "1/2", "2.5", "+nan.0",
             "(- (expt 2 62))", "(- (expt 2 62) 1)", "1e300"]
DIVISORS = ["0", "0.0", "-0.0", "(- 5 5)", "(exact->inexact 0)", "(* 0 (expt 2 70))", "0/5"]

# non-finite operands and bignum^flonum: one process each with a short timeout (on the pinned code several of these never
# return: sexp_double_to_bignum loops for ever on an infinity; expt with a bignum base and a flonum exponent)
HANG_PROBES = [("quotient", "(quotient +inf.0 2)"), ("quotient", "(quotient 5 +inf.0)"), ("quotient", "(quotient -inf.0 0)"),
               ("truncate-quotient", "(truncate-quotient +inf.0 0.0)"), ("remainder", "(remainder +inf.0 2)"), ("remainder", "(remainder 5 -inf.0)"),
               ("modulo", "(modulo +inf.0 0)"), ("floor/", "(floor/ +inf.0 0)"), ("floor-quotient", "(floor-quotient 7 +inf.0)"),
               ("truncate/", "(truncate/ +inf.0 3)"), ("lcm", "(lcm +inf.0 0)"), ("gcd", "(gcd +inf.0 4)"),
               ("exact-integer-sqrt", "(exact-integer-sqrt +inf.0)"), ("exact", "(exact +inf.0)"), ("exact", "(exact (/ 5.0 0))"),
               ("expt", "(expt (expt 2 70) 0.5)"), ("expt", "(expt (expt 2 70) 0.0)"), ("expt", "(expt +inf.0 0)"), ("expt", "(expt 2 +inf.0)"),
               ("number->string", "(number->string +inf.0 2)"), ("round", "(exact (round +inf.0))"), ("rationalize", "(rationalize +inf.0 1/3)"),
               ("exact-integer?", "(exact-integer? +inf.0)"), ("numerator", "(numerator +inf.0)"), ("floor", "(exact (floor +nan.0))")]

RANGE_SUM = r"""
(define (verif-allowed? x) (if (char? x) (memv x '(#\\a #\\b #\\c #\\z)) (memv x '(1 2 3 9 97 98 99 122))))
(define (verif-sum thunk)   ; length*4 + (all elements come from the sources ? 2 : 0) + 1;  1 when the value cannot even be walked
  (let ((x (thunk)))
    (guard (e (#t 1))
      (let* ((ls (cond ((string? x) (string->list x)) ((vector? x) (vector->list x)) ((bytevector? x) (vector->list (bytevector->vector x)))
                       ((list? x) x) (else (list x))))
             (ok (let lp ((l ls)) (or (null? l) (and (verif-allowed? (car l)) (lp (cdr l)))))))
        (+ (* 4 (length ls)) (if ok 2 0) 1)))))
(define (bytevector->vector b) (let ((v (make-vector (bytevector-length b) 0))) (do ((i 0 (+ i 1))) ((= i (bytevector-length b)) v) (vector-set! v i (bytevector-u8-ref b i)))))
""".replace("\\\\", "\\")

# (name, source expression (length 3), call with {src} and {r}, length of the result when the range is valid: "range" = end-start, or a fixed number)
RANGE_PROCS = [
    ("string->list", '(string #\\a #\\b #\\c)', "(string->list {src} {r})", "range"),
    ("string->vector", '(string #\\a #\\b #\\c)', "(string->vector {src} {r})", "range"),
    ("string-copy", '(string #\\a #\\b #\\c)', "(string-copy {src} {r})", "range"),
    ("substring", '(string #\\a #\\b #\\c)', "(substring {src} {r})", "range2"),
    ("string->utf8", '(string #\\a #\\b #\\c)', "(string->utf8 {src} {r})", "range"),
    ("string-fill!", '(string #\\a #\\b #\\c)', "(let ((t {src})) (string-fill! t #\\z {r}) t)", 3),
    ("string-copy!", '(string #\\a #\\b #\\c)', "(let ((t (make-string 5 #\\z))) (string-copy! t 1 {src} {r}) t)", 5),
    ("write-string", '(string #\\a #\\b #\\c)', "(let ((p (open-output-string))) (write-string {src} p {r}) (get-output-string p))", "range"),
    ("vector->list", "(vector 1 2 3)", "(vector->list {src} {r})", "range"),
    ("vector->string", '(vector #\\a #\\b #\\c)', "(vector->string {src} {r})", "range"),
    ("vector-copy", "(vector 1 2 3)", "(vector-copy {src} {r})", "range"),
    ("vector-fill!", "(vector 1 2 3)", "(let ((t {src})) (vector-fill! t 9 {r}) t)", 3),
    ("vector-copy!", "(vector 1 2 3)", "(let ((t (make-vector 5 9))) (vector-copy! t 1 {src} {r}) t)", 5),
    ("bytevector-copy", "(bytevector 97 98 99)", "(bytevector-copy {src} {r})", "range"),
    ("bytevector-copy!", "(bytevector 97 98 99)", "(let ((t (make-bytevector 5 122))) (bytevector-copy! t 1 {src} {r}) t)", 5),
    ("utf8->string", "(bytevector 97 98 99)", "(utf8->string {src} {r})", "range"),
    ("write-bytevector", "(bytevector 97 98 99)", "(let ((p (open-output-bytevector))) (write-bytevector {src} p {r}) (get-output-bytevector p))", "range"),
    ("read-bytevector!", "(bytevector 97 98 99)", "(let ((t {src})) (read-bytevector! t (open-input-bytevector (make-bytevector 9 122)) {r}) t)", 3),
]
RANGES = [(), (0, 3), (1, 2), (3, 3), (0, 0), (1,), (3,), (0,), (2, 3),
          (0, 4), (0, 100000), (-1, 3), (-5, 1), (2, 1), (4, 4), (4,), (-1,), (0, FIXMAX), (1 << 61, (1 << 61) + 1), (0, -1), (3, 2), (-100000, 2),
          ("1.0", 2), ("'a",), ("(expt 2 70)",), (0, "(expt 2 70)"), (0, "2.5"), (FIXMIN, 3), (100000, 100001), (5, 100000)]


def ranges_and_zero_stream(ctx, d, dflt):
    """K-outer under ASan: (a) every division-like procedure with every kind of zero divisor and every kind of dividend;
    (b) every R7RS procedure with optional start/end arguments, with valid, out-of-range, reversed, negative, huge and
    ill-typed ranges.  Oracle (a): value or error object.  Oracle (b): a valid range (0 <= start <= end <= 3) must give a
    value of the right length; any other range must give an error object, or a value no longer than the objects involved
    whose elements all come from them (chibi's heap is one malloc block: ASan cannot see a read of a neighbouring
    object, the CONTENT of the result can)."""
    exprs, meta = [], []
    for op in ARITH_OPS:
        for b in DIVISORS:
            for a in DIVIDENDS:
                if op in ("exact-integer-sqrt", "exact"):
                    e = "(begin (%s %s) 1)" % (op, b if op == "exact" else a)
                    if b != DIVISORS[0] and op != "exact":
                        continue
                    if op == "exact":
                        e = "(begin (exact (/ %s %s)) 1)" % (a, b)
                else:
                    if op == "expt" and "expt 2 70" in a:
                        continue        # bignum base with a flonum exponent: see HANG_PROBES
                    e = "(begin (%s %s %s) 1)" % (op, a, b)
                exprs.append(e)
                meta.append(("arith", op, None, None))
    for name, src, call, rl in RANGE_PROCS:
        for r in RANGES:
            if rl == "range2" and len(r) != 2:
                continue
            e = "(verif-sum (lambda () %s))" % call.replace("{src}", src).replace("{r}", " ".join(str(x) for x in r))
            ints = all(isinstance(x, int) for x in r)
            st = r[0] if len(r) >= 1 else 0
            en = r[1] if len(r) >= 2 else 3
            valid = ints and 0 <= st <= en <= 3
            exprs.append(e)
            meta.append(("range", name, valid, ((en - st) if rl in ("range", "range2") else rl) if valid else None))
    from concurrent.futures import ThreadPoolExecutor

    def probe(kp):
        k, (op, e) = kp
        path = os.path.join(B.SCRATCH, "c01_hang_%d_%d.scm" % (os.getpid(), k))
        open(path, "w").write("(import (scheme base) (scheme write) (scheme inexact)) (write (guard (e (#t 'error-object)) (begin %s 'value)))" % e)
        try:
            r = B.run_chibi(dflt, [path], timeout=hang_tmo)
            res = "rc=%s %s" % (r.returncode, (r.stdout + r.stderr)[-100:])
            good = r.returncode in (0, 70)
        except subprocess.TimeoutExpired:
            res, good = "no answer after %d s (killed)" % hang_tmo, False
        os.unlink(path)
        return op, e, good, res
    hang_tmo = 40 if ctx.thorough else 10      # an answering probe needs < 1 s (3 s on the loaded machine)
    with ThreadPoolExecutor(6) as ex:
        for op, e, good, res in ex.map(probe, enumerate(HANG_PROBES)):
            ctx.count(1, key=("hang-probe", e), nontrivial=True)
            if not good:
                kind = "bignum-base-flonum-exponent" if op == "expt" and "(expt 2 70)" in e else "nonfinite-operand"
                ctx.violation("arith:%s:%s:%s" % (op, kind, "hang" if "no answer" in res else "crash"), input=e,
                              expected="a value or an error object", observed=res,
                              replay="LD_LIBRARY_PATH=%s CHIBI_MODULE_PATH=%s/lib CHIBI_IGNORE_SYSTEM_PATH=1 timeout 60 %s/chibi-scheme -e \"%s\"" % (dflt, dflt, dflt, e))
    na = sum(1 for m in meta if m[0] == "arith")       # the two parts get a crash budget each
    io = (run_cases(d, exprs[:na], prelude_extra=RANGE_SUM, timeout=120, extra_env=ASAN_ENV, max_crashes=6, chunk=400)
          + run_cases(d, exprs[na:], prelude_extra=RANGE_SUM, timeout=120, extra_env=ASAN_ENV, max_crashes=6, chunk=400))
    soft = {}
    for e, (kind, name, valid, ln), r in zip(exprs, meta, io):
        ctx.count(1, key=("rz", e), nontrivial=True)
        if r == "SKIPPED":
            continue
        rep = replay_cmd(d, e.replace("(verif-sum (lambda () ", "(begin (begin ") if kind == "range" else e)
        if r is None or r.startswith("CRASH") or r == "TIMEOUT":
            ctx.violation("%s:%s:crash" % (kind, name), input=e, expected="a value or an error object", observed=r, replay=rep)
            continue
        if kind == "arith":
            continue
        is_err = r.startswith("ERR")
        if valid:
            if is_err:
                soft.setdefault(name, (e, "a value (the range is valid)", r))
            elif r != "f%x" % (4 * ln + 3):
                ctx.violation("range:%s:wrong-result" % name, input=e, expected="a result of %d elements taken from the source" % ln, observed=_decode_sum(r), replay=rep)
            continue
        if is_err:
            continue
        code = _z(r[1:]) if r.startswith("f") else -1
        limit = 5
        if code < 0 or (code >> 2) > limit or not (code & 2):
            ctx.violation("range:%s:out-of-bounds-value" % name, input=e,
                          expected="an error object (the range is not inside the object), or a value made of the objects' own elements",
                          observed=_decode_sum(r), replay=rep)
    for name, (e, exp, got) in soft.items():
        ctx.broken("outer:range:" + name, "%s: expected %s, implementation answered %s" % (e, exp, got))
    ctx.sample(dict(kind="range", expr=exprs[-1], impl=io[-1]))


# ------------------------------------------------------------------------------------ part 5b: (scheme bytevector) accessors
def bv_accessor_cases():
    """every sized accessor of lib/scheme/bytevector.stub (s8, s/u 16/32/64, ieee single/double; native and with an
    endianness; ref and set!) at the offsets around the end of a 16-byte bytevector: the window [k, k+width) must lie
    inside the bytevector or the call must raise.  -> (name, expr, expected or None, valid, kind)"""
    import struct
    L = 16
    src = bytes((37 * i + 11) % 256 for i in range(L))
    out = []
    accs = [("s8", 1, "s", False)]
    for bits in (16, 32, 64):
        for sg in "su":
            accs.append(("%s%d" % (sg, bits), bits // 8, sg, True))
    accs += [("ieee-single", 4, "f", True), ("ieee-double", 8, "f", True)]
    for nm, w, sg, multi in accs:
        offs = sorted({-1, 0, 1, L - w - 1, L - w, L - w + 1, L - w + w // 2, L - 1, L, L + 1, 100000, -100000})
        variants = [("", None)] if not multi else [("-native", None), ("", "little"), ("", "big")]
        for suffix, en in variants:
            order = en or "little"
            for k in offs:
                valid = 0 <= k <= L - w
                enarg = (" '%s" % en) if en else ""
                # ref
                name = "bytevector-%s%s-ref" % (nm, suffix)
                exp = None
                if valid:
                    chunk = src[k:k + w]
                    if sg == "f":
                        v = struct.unpack(("<" if order == "little" else ">") + ("f" if w == 4 else "d"), chunk)[0]
                        exp = ("ok" if v == v and abs(v) != float("inf") else None, repr(v))
                    else:
                        v = int.from_bytes(chunk, order, signed=(sg == "s"))
                        exp = (("f" if FIXMIN <= v <= FIXMAX else "b") + zhex(v), None)
                if exp and exp[1] is not None:
                    e = "(let ((v (%s (bytevector-copy verif-bv) %d%s))) (if (and (real? v) (inexact? v) (= v %s)) 'ok (list 'got v)))" % (name, k, enarg, exp[1]) if exp[0] else "(begin (%s (bytevector-copy verif-bv) %d%s) 'any)" % (name, k, enarg)
                    want = exp[0] or "any"
                else:
                    e = "(%s (bytevector-copy verif-bv) %d%s)" % (name, k, enarg)
                    want = exp[0] if exp else None
                out.append((name, e, want, valid, "ref"))
                # set!
                name = "bytevector-%s%s-set!" % (nm, suffix)
                if sg == "f":
                    val, packed = "1.5", struct.pack(("<" if order == "little" else ">") + ("f" if w == 4 else "d"), 1.5)
                else:
                    v = -2 if sg == "s" else (1 << (8 * w)) - 2
                    val, packed = str(v), v.to_bytes(w, order, signed=(sg == "s"))
                e = "(let ((t (bytevector-copy verif-bv))) (%s t %d %s%s) (verif-hex t))" % (name, k, val, enarg)
                want = None
                if valid:
                    want = '"%s"' % (src[:k] + packed + src[k + w:]).hex()
                out.append((name, e, want, valid, "set"))
    return out, src


def bv_accessor_stream(ctx, d):
    cases, src = bv_accessor_cases()
    pre = ("(import (scheme bytevector))\n(define verif-bv (bytevector %s))\n"
           "(define (verif-hex b) (let lp ((i (- (bytevector-length b) 1)) (acc '())) (if (< i 0) (apply string-append acc)"
           " (lp (- i 1) (cons (let ((s (number->string (bytevector-u8-ref b i) 16))) (if (< (bytevector-u8-ref b i) 16) (string-append \"0\" s) s)) acc)))))\n"
           % " ".join(str(x) for x in src))
    io = run_cases(d, [c[1] for c in cases], prelude_extra=pre, timeout=300, extra_env=ASAN_ENV, max_crashes=6, chunk=2000)
    soft = {}
    for (name, e, want, valid, kind), r in zip(cases, io):
        ctx.count(1, key=("bvacc", e), nontrivial=True)
        if r == "SKIPPED":
            continue
        rep = replay_cmd(d, "(begin %s %s)" % (pre.replace("\n", " "), e))
        if r is None or r.startswith("CRASH") or r == "TIMEOUT":
            ctx.violation("range:%s:crash" % name, input=e, expected="a value or an error object", observed=r, replay=rep)
            continue
        is_err = r.startswith("ERR")
        if not valid:
            if not is_err:
                ctx.violation("range:%s:no-error" % name, input=e,
                              expected="an error object: the accessed window is not inside the 16-byte bytevector", observed=r, replay=rep)
            continue
        if is_err:
            soft.setdefault(name, (e, "a value (the window is inside the bytevector)", r))
        elif want not in (None, "any") and r != want:
            if kind == "set":
                ctx.violation("range:%s:wrong-bytes" % name, input=e, expected="exactly the window's bytes replaced: %s" % want, observed=r, replay=rep)
            else:
                soft.setdefault(name, (e, want, r))
    for name, (e, exp, got) in soft.items():
        ctx.broken("outer:bytevector-accessor:" + name, "%s: expected %s, implementation answered %s" % (e, exp, got))
    ctx.note("(scheme bytevector) accessor stream: %d calls (%d procedures x offsets -1, 0, 1, len-w-1 .. len+1, +-100000 x native/little/big)"
             % (len(cases), len({c[0] for c in cases})))


# ------------------------------------------------------------------------------------ part 5c: ill-formed strings from Scheme
def illformed_string_stream(ctx, d):
    """strings whose last byte is a UTF-8 lead byte cut off by the end of the string, made with R7RS procedures alone
    (utf8->string of arbitrary bytes; integer->char of a non-scalar value), at sizes with and without slack behind the byte store.
    string-ref of that character has no in-bounds execution: error object; string-set! there must replace exactly the bytes
    that are left; every other string procedure must answer a value or an error object"""
    cases = []
    for n in (1, 2, 3, 5, 14, 15, 16, 30, 31, 46, 47, 48, 62, 63):
        for lead in (0xC3, 0xE2, 0xF0, 0xF4):
            mk = "(utf8->string (let ((b (make-bytevector %d 97))) (bytevector-u8-set! b %d %d) b))" % (n, n - 1, lead)
            pre = "a" * (n - 1)
            cases.append(("string-ref", "(let ((s %s) (after (make-vector 3 'x))) (char->integer (string-ref s %d)))" % (mk, n - 1), "ERR", n, lead))
            cases.append(("string-cursor-ref", "(let ((s %s) (after (make-vector 3 'x))) (char->integer (string-cursor-ref s (string-cursor-prev s (string-cursor-end s)))))" % mk, "ERR", n, lead))
            cases.append(("string-set!", "(let ((s %s)) (string-set! s %d #\\b) (list (string-length s) (string->utf8 s) (string? s)))" % (mk, n - 1),
                          "(%d #u8(%s) #t)" % (n, " ".join(["#x61"] * (n - 1) + ["#x62"])), n, lead))
            if lead == 0xF0:
                cases.append(("string-set!", "(let ((s %s)) (string-set! s %d (integer->char 955)) (list (string-length s) (string->utf8 s)))" % (mk, n - 1),
                              "(%d #u8(%s))" % (n, " ".join(["#x61"] * (n - 1) + ["#xCE", "#xBB"])), n, lead))
                for op in ("(string->list s)", "(string-copy s)", "(string-append s s)", "(string-upcase s)", "(string->vector s)", "(string->symbol s)",
                           "(let ((o (open-output-string))) (write s o) (string-length (get-output-string o)))", "(string-for-each (lambda (c) c) s)",
                           "(string-map char-upcase s)", "(string=? s (string-copy s))", "(string<? s \"b\")", "(substring s 0 (string-length s))",
                           "(string->number s)", "(read (open-input-string s))"):
                    cases.append(("any", "(let ((s %s)) (begin %s 'done))" % (mk, op), None, n, lead))
        # non-scalar integer->char: (integer->char -5) is stored as the single byte FB
        mk = "(string-append (make-string %d #\\a) (string (integer->char -5)))" % (n - 1)
        cases.append(("string-set!", "(let ((s %s)) (string-set! s %d #\\b) (list (string-length s) (string->utf8 s) (string? s)))" % (mk, n - 1),
                      "(%d #u8(%s) #t)" % (n, " ".join(["#x61"] * (n - 1) + ["#x62"])), n, 0xFB))
    io = run_cases(d, [c[1] for c in cases], imports=IMPORTS, timeout=300, extra_env=ASAN_ENV, max_crashes=6)
    for (kind, e, want, n, lead), r in zip(cases, io):
        ctx.count(1, key=("illformed", e), nontrivial=True)
        if r == "SKIPPED":
            continue
        rep = replay_cmd(d, e)
        if r is None or r.startswith("CRASH") or r == "TIMEOUT":
            ctx.violation("utf8:%s:truncated-lead:crash" % kind, input=e, expected="a value or an error object", observed=r, replay=rep)
        elif want == "ERR":
            zero = "f%x" % ((lead & 0x1f) << 6 if lead < 0xe0 else (lead & 0x1f) << 12 if lead < 0xf0 else (lead & 0x0f) << 18)
            if not r.startswith("ERR"):
                ctx.violation("utf8:%s:truncated-lead:out-of-bounds-read" % kind, input=e,
                              expected="an error object: the lead byte %#x at the end of the %d-byte string announces bytes that are not there" % (lead, n),
                              observed="%s  (a character assembled from the terminator and the bytes after the string%s)"
                                       % (r, "; the bits below the lead byte's are not zero: memory of the neighbouring object" if r != zero else ""), replay=rep)
        elif want is not None and r != want:
            ctx.violation("utf8:string-set!:truncated-lead:corrupted", input=e, expected=want, observed=r, replay=rep)
    ctx.note("ill-formed string stream: %d cases (truncated lead bytes C3/E2/F0/F4/FB at the end of strings of 1..63 bytes)" % len(cases))



# ------------------------------------------------------------------------------------ part 6 (round 4): reader buffers
READBUF_PRE = r"""
(define (verif-cmp kind got exp)
  (case kind
    ((s) (if (and (string? got) (string=? got exp)) 'ok (list 'bad-string (if (string? got) (string-length got) 'not-a-string))))
    ((y) (if (and (symbol? got) (string=? (symbol->string got) exp)) 'ok (list 'bad-symbol (if (symbol? got) (string-length (symbol->string got)) 'not-a-symbol))))
    ((p) (if (and (pair? got) (null? (cdr got)) (symbol? (car got)) (string=? (symbol->string (car got)) exp)) 'ok (list 'bad-symbol-in-list)))
    ((n) (if (and (real? got) (or (= got exp) (< (abs (- got exp)) (* 1e-12 (abs exp))))) 'ok (list 'bad-number got)))
    ((u) (if (equal? got exp) 'ok (list 'bad-datum)))
    ((e) 'ok)
    (else 'bad-kind)))
(define (verif-rd kind src exp)
  (let* ((p (open-input-string (string-append src " 7")))
         (got (verif-c-read p)))
    (if (eq? kind 'e)
        'ok
        (let ((nxt (verif-c-read p)))
          (if (eqv? nxt 7) (verif-cmp kind got exp) (list 'bad-next-datum))))))
"""
READBUF_IMPORTS = "(import (rename (only (chibi) read) (read verif-c-read)))"


def _sx(s):
    """a Scheme expression that builds the string s WITHOUT a long literal (runs of one ASCII letter through make-string, characters
    beyond ASCII by number): the case file stays ASCII and the builder does not go through the reader routine under test"""
    parts, lit, i = [], "", 0

    def flush():
        nonlocal lit
        if lit:
            parts.append('"%s"' % lit)
            lit = ""
    while i < len(s):
        c = s[i]
        j = i
        while j < len(s) and s[j] == c:
            j += 1
        if j - i >= 8 and c.isalnum():
            flush()
            parts.append("(make-string %d #\\%s)" % (j - i, c))
            i = j
            continue
        if c == '"' or c == "\\":
            lit += "\\" + c
        elif c == "\n":
            lit += "\\n"
        elif c == "\t":
            lit += "\\t"
        elif 32 <= ord(c) < 127:
            lit += c
        else:
            flush()
            parts.append("(string (integer->char %d))" % ord(c))
        i += 1
    flush()
    return "(string-append %s)" % " ".join(parts) if len(parts) != 1 else parts[0]


def reader_buffer_sizes(d):
    """the buffer constants of the reader, from THIS sexp.c"""
    import re
    src = open(os.path.join(d, "sexp.c"), encoding="utf-8", errors="replace").read()
    m1 = re.search(r"#define\s+INIT_STRING_BUFFER_SIZE\s+(\d+)", src)
    m2 = re.search(r"#define\s+SEXP_FLOAT_DIGITS_LEN\s+(\d+)", src)
    return (int(m1.group(1)) if m1 else None), (int(m2.group(1)) if m2 else None)


def reader_buffer_cases(init, flen, thorough):
    """tokens whose length sits at every offset -6..+2 around every size the reader's buffers go through (the initial on-stack buffer
    and its doublings), the element that straddles the boundary being each kind of thing the routine can write in one iteration.
    -> list of (routine, kind, source text, expected (python value), delivery paths)"""
    W4, W3, W2 = "\U00010400", "€", "λ"
    sizes = [init << k for k in range(6 if thorough else 3)]
    offs = range(-6, 3)
    # (name, source fragment, what it denotes)
    selems = [("ascii", "Z", "Z"), ("utf8-2", W2, W2), ("utf8-3", W3, W3), ("utf8-4", W4, W4),
              ("x41", "\\x41;", "A"), ("x3bb", "\\x3bb;", W2), ("x20ac", "\\x20ac;", W3), ("x10400", "\\x10400;", W4),
              ("esc-n", "\\n", "\n"), ("esc-backslash", "\\\\", "\\"), ("esc-quote", None, None), ("esc-t", "\\t", "\t"),
              ("line-continuation", "\\\n   ", ""), ("raw-newline", "\n", "\n"), ("close", "", "")]
    wide = ("x20ac", "x10400", "utf8-4", "close")
    cases = []
    for S in sizes:
        for o in offs:
            n = S + o
            for name, frag, den in selems:
                sufs = [("", "")]
                if name in wide or thorough:
                    sufs += [("q", "q"), ("\\x10400;\\x10400;", W4 + W4)]
                for q, sentinel, routine, kind in (('"', '"', "read_string", "s"), ("|", "|", "read_string_bar", "y")):
                    if sentinel == "|" and name in ("line-continuation", "raw-newline", "esc-t", "esc-n") and not thorough:
                        continue
                    f, dn = (("\\" + q, q) if name == "esc-quote" else (frag, den))
                    for sf, sd in sufs:
                        if sentinel == "|" and sf == "q" and not thorough:
                            continue
                        src = q + "a" * n + f + sf + q
                        cases.append((routine, kind, "%s@%d%+d" % (name, S, o), src, "a" * n + dn + sd))
            # plain symbols / character names / #! names: sexp_read_symbol (1 byte per iteration; NUL written at buf[i] after the loop)
            for name, frag in (("ascii", "Z"), ("utf8-2", W2), ("utf8-3", W3), ("utf8-4", W4), ("close", "")):
                tok = "a" * n + frag
                cases.append(("read_symbol", "y", "%s@%d%+d" % (name, S, o), tok, tok))
                cases.append(("read_symbol", "p", "%s-in-list@%d%+d" % (name, S, o), "(" + tok + ")", tok))
            cases.append(("read_symbol", "e", "char-name@%d%+d" % (S, o), "#\\" + "a" * n, None))
            cases.append(("read_symbol", "e", "hash-bang@%d%+d" % (S, o), "#!" + "a" * n, None))
            cases.append(("read_symbol", "e", "hash-t@%d%+d" % (S, o), "#t" + "a" * n, None))
            if S <= 4 * init:
                cases.append(("read_u8", "u", "u8@%d%+d" % (S, o), "#u8(" + "7 " * n + ")", ("u8", n)))
    if flen:
        for base in (flen, flen + 32):
            for o in offs:
                n = base + o
                for name, txt in (("fraction", "0." + "3" * n), ("fraction-exp", "2." + "5" * n + "e3"), ("neg-fraction", "-12." + "7" * (n - 2)),
                                  ("whole-fraction", "1" + "0" * 300 + "." + "4" * (n - 301)), ("fraction-negexp", "." + "9" * n + "e-7"),
                                  ("fraction-bigexp", "1." + "2" * n + "e999999"), ("fraction-exp-at-limit", "1." + "2" * n + "e-999999")):
                    try:
                        v = float(txt)
                    except (ValueError, OverflowError):
                        continue
                    cases.append(("read_float_tail", "n" if (v == v and abs(v) != float("inf") and v != 0.0) else "e", "%s@%d%+d" % (name, base, o), txt, v))
    return cases


def reader_buffer_stream(ctx, d):
    """every reader routine with a growable / fixed buffer, on the ASan build, with tokens around every buffer size; both through
    `read` from a string port (source built at run time) and through the loader (the token stands in the case file)"""
    init, flen = reader_buffer_sizes(d)
    if init is None:
        ctx.broken("reader-buffers:constants", "INIT_STRING_BUFFER_SIZE no longer found in sexp.c: the boundary tokens cannot be regenerated")
        return
    cases = reader_buffer_cases(init, flen, ctx.thorough)
    cases.sort(key=lambda c: (c[3].count("\\x10400;") > 1 or c[3].endswith('q"') or c[3].endswith("q|")))   # the shortest failing token first
    exprs, meta = [], []

    def expx(kind, exp):
        if kind == "e":
            return "#f"
        if kind == "u":
            return "(make-bytevector %d 7)" % exp[1]
        if kind == "n":
            return repr(exp)
        return _sx(exp)
    for routine, kind, label, src, exp in cases:
        exprs.append("(verif-rd '%s %s %s)" % (kind, _sx(src), expx(kind, exp)))
        meta.append((routine, kind, label, src, "string-port"))
        if kind in ("s", "y", "n", "u"):          # the token itself in the program text: read by the loader from a file port
            lit = ("'" + src) if kind == "y" else src
            exprs.append("(verif-cmp '%s %s %s)" % (kind, lit, expx(kind, exp)))
            meta.append((routine, kind, label, src, "source-text"))
    t0 = time.time()
    io = run_cases(d, exprs, imports=READBUF_IMPORTS, prelude_extra=READBUF_PRE, timeout=600, extra_env=ASAN_ENV, max_crashes=8, chunk=100000)
    bad = 0
    for e, (routine, kind, label, src, path), r in zip(exprs, meta, io):
        ctx.count(1, key=("readbuf", routine, label, path), nontrivial=True)
        if r == "SKIPPED":
            continue
        prog = "(import (scheme base) (scheme write) (scheme inexact)) %s %s (write %s)" % (READBUF_IMPORTS, READBUF_PRE.replace("\n", " "), e)
        if path == "source-text":
            rep = prog                    # scheme text: the token is in it
        else:
            rep = ("printf '%%s' '%s' | ASAN_OPTIONS=detect_leaks=0:detect_odr_violation=0 LD_LIBRARY_PATH=%s CHIBI_MODULE_PATH=%s/lib CHIBI_IGNORE_SYSTEM_PATH=1 %s/chibi-scheme /dev/stdin"
                   % (prog.replace("'", "'\\''"), d, d, d))
        what = "%s, %d-byte token, element %s, via %s" % (routine, len(src.encode("utf-8")), label, path)
        if r is None or r.startswith("CRASH") or r == "TIMEOUT":
            bad += 1
            ctx.violation("reader:%s:buffer-boundary:crash" % routine, input=what, source_head=src[:12] + "..." + src[-24:],
                          expected="the datum (buffer sizes %d, %d, ...: the token must fit after each doubling)" % (init, 2 * init),
                          observed=r, replay=rep)
        elif r.startswith("ERR") and kind != "e":
            ctx.violation("reader:%s:buffer-boundary:error" % routine, input=what, source_head=src[:12] + "..." + src[-24:],
                          expected="the datum", observed=r, replay=rep)
        elif r != "ok" and kind != "e":
            ctx.violation("reader:%s:buffer-boundary:wrong-datum" % routine, input=what, source_head=src[:12] + "..." + src[-24:],
                          expected="the datum the token denotes", observed=r, replay=rep)
    ctx.note("reader buffer stream: %d cases in %.1f s (INIT_STRING_BUFFER_SIZE=%s and its %d doublings, SEXP_FLOAT_DIGITS_LEN=%s; offsets -6..+2; "
             "sexp_read_string with both sentinels, sexp_read_symbol incl. character / #! names, the digit buffer of sexp_read_float_tail, #u8)"
             % (len(exprs), time.time() - t0, init, (6 if ctx.thorough else 3) - 1, flen))


# ------------------------------------------------------------------------------------ part 7 (round 4): continuations resumed on a small stack
REENTRY_PRE = r"""
(define verif-k #f) (define verif-n 0) (define verif-log '())
(define (verif-deep n) (if (= n 0) (call-with-current-continuation (lambda (c) (set! verif-k c) 0)) (+ 1 (verif-deep (- n 1)))))
(define (verif-deep-args n j) (if (= n 0) (apply + (call-with-current-continuation (lambda (c) (set! verif-k c) 0)) (make-list j 0)) (+ 1 (verif-deep-args (- n 1) j))))
(define (verif-reenter-eval d v)
  (set! verif-n 0) (set! verif-log '())
  (let ((r (verif-deep d)))
    (set! verif-n (+ verif-n 1))
    (set! verif-log (cons (list r verif-n) verif-log))
    (if (= verif-n 1) (eval (list 'apply (list 'quote verif-k) (list 'quote (list v))) (environment '(scheme base))))
    verif-log))
(define (verif-capture d)
  (set! verif-n 0)
  (let ((r (verif-deep d)))
    (set! verif-n (+ verif-n 1))
    (list r verif-n (verif-probe2))))
(define (verif-probe2) (let ((v (make-vector 50 'x))) (length (vector->list v))))
"""


def continuation_reentry_stream(ctx, d, consts):
    """sexp_restore_stack WITH growth.  Inside one context it is dead code (the capture's own make_call has already made room), but a
    continuation is resumed on a FRESH, initial-size stack whenever it is invoked from a later top-level form (the loader evaluates
    every form in a context of its own) or inside `eval` (sexp_eval_op makes a context with its own stack): both R7RS-small.  Captured
    at every depth around the sizes at which the restore must grow (saved length + 64 against INIT, and the exact-fit request beyond
    2*INIT), resumed both ways; the value that comes back through the restored frames is fixed by the language."""
    init, mx = consts["init_stack_size"], consts["max_stack_size"]
    # words per level of verif-deep are not assumed: every depth from far below INIT/8 words-per-frame to beyond 2*INIT/4
    if ctx.thorough:
        ds = list(range(60, (4 * init) // 4 + 40)) + [init, 2 * init + 1, 5 * init, 30 * init]
    else:
        ds = list(range(init // 10, init // 4, 3)) + list(range(init // 10 + 1, (2 * init) // 4 + 30, 7)) + [init, 5 * init]
        ds = sorted(set(ds))
    # (1) the embedding caller's half: successive sexp_eval_string calls on ONE context ("later programs in the same context"; also
    # what successive -e options do).  sexp_eval_op gives each call a context with a fresh stack of INIT words, so a continuation
    # captured by an earlier program and invoked by a later one is restored onto a stack that must grow first.
    emb = B.cc_embed(d, os.path.join(HERE, "..", "harness", "embed_c01.c"), os.path.join(d, "embed_c01"))
    hexs = lambda t: "eval " + t.encode().hex()
    defs = hexs("(begin (define verif-k #f) (define verif-r #f) (define verif-n 0) "
                "(define (verif-deep n) (if (= n 0) (call-with-current-continuation (lambda (c) (set! verif-k c) 0)) (+ 1 (verif-deep (- n 1))))) "
                # captured while the LAST operand of a 41-operand call is evaluated (operands are pushed right to left): the resumed frame
                # pushes 40 more words and makes a call: the restored stack needs the 64-word margin the ensure_stack discipline relies on
                "(define (verif-deep2 n) (if (= n 0) (apply + (list %s (call-with-current-continuation (lambda (c) (set! verif-k c) 0)))) (+ 1 (verif-deep2 (- n 1))))))"
                % " ".join(str(i) for i in range(1, 41)))
    lines, idx = [], []
    for dd in ds:
        lines.append(defs)          # per group: a process restarted after a sanitizer abort has lost the definitions
        idx.append((dd, len(lines)))
        lines += [hexs("(begin (set! verif-r (verif-deep %d)) (set! verif-n (+ verif-n 1)))" % dd), hexs("verif-r"), hexs("(verif-k 5)"), hexs("verif-r"),
                  hexs("(begin (set! verif-r (verif-deep2 %d)) (set! verif-n (+ verif-n 1)))" % dd), hexs("verif-r"), hexs("(verif-k 9)"), hexs("verif-r")]
    hres = run_harness(emb, d, lines, max_crashes=4)
    nbad = 0
    for k, (dd, at) in enumerate(idx):
        got = hres[at:at + 8]
        ctx.count(2, key=("reentry-embed", dd), nontrivial=True)
        want = ["V ? P", "V f%d P" % dd, None, "V f%d P" % (dd + 5), "V ? P", "V f%d P" % (dd + 820), None, "V f%d P" % (dd + 829)]
        okv = all(g is not None and not g.startswith("CRASH") and (w is None or g == w) and g.endswith(" P") for g, w in zip(got, want))
        if okv or nbad >= 6 or "SKIPPED" in got[:4]:
            continue
        nbad += 1
        crash = any(g is None or g.startswith("CRASH") for g in got)
        prog = ("-e '(define verif-k #f)' -e '(define (verif-deep n) (if (= n 0) (call-with-current-continuation (lambda (c) (set! verif-k c) 0)) (+ 1 (verif-deep (- n 1)))))' "
                "-e '(define (verif-deep2 n) (if (= n 0) (apply + (list %s (call-with-current-continuation (lambda (c) (set! verif-k c) 0)))) (+ 1 (verif-deep2 (- n 1)))))' "
                "-e '(define verif-r (verif-deep %d))' -e '(verif-k 5)' -p verif-r -e '(define verif-r (verif-deep2 %d))' -e '(verif-k 9)' -p verif-r"
                % (" ".join(str(i) for i in range(1, 41)), dd, dd))
        ctx.violation("continuation:resume-in-later-program:%s" % ("crash" if crash else "wrong-value"),
                      input="successive sexp_eval_string calls on one context: (set! verif-r (verif-deep %d)) ; (verif-k 5) ; verif-r ; (set! verif-r (verif-deep2 %d)) ; (verif-k 9) ; verif-r   "
                            "[each later program runs on a fresh %d-word stack; verif-deep2 captures with 40 operands of a call still to be pushed]" % (dd, dd, init),
                      expected="verif-r = %d, then %d after the resume; %d, then %d; the probe program right and sexp_context_top restored after every call (P)" % (dd, dd + 5, dd + 820, dd + 829),
                      observed=" ; ".join(str(g)[:160] for g in got),
                      replay="ASAN_OPTIONS=detect_leaks=0:detect_odr_violation=0 LD_LIBRARY_PATH=%s CHIBI_MODULE_PATH=%s/lib CHIBI_IGNORE_SYSTEM_PATH=1 %s/chibi-scheme %s   # prints %d and %d" % (d, d, d, prog, dd + 5, dd + 829))
    # (2) inside one program (Scheme-level eval and load call the compiled thunk in the SAME context: no growth in the restore; kept as
    # the check of the saved / restored frames' content)
    ds = ds[::4] if not ctx.thorough else ds
    exprs, exps, kinds = [], [], []
    for dd in ds:
        exprs.append("(verif-reenter-eval %d 7)" % dd)
        exps.append("((%d 2) (%d 1))" % (dd + 7, dd))
        kinds.append("eval")
        # capture in this form ...
        exprs.append("(verif-capture %d)" % dd)
        exps.append("(%d 1 50)" % dd)
        kinds.append("toplevel-capture")
        # ... resume from the next top-level form: a fresh context with a stack of initial size.  The case number of THIS form is already
        # written; the rest of the line is written by the resumed continuation of the previous form (its second pass)
        exprs.append("(verif-k 5)")
        exps.append("(%d 2 50)" % (dd + 5))
        kinds.append("toplevel-resume")
    io = run_cases(d, exprs, prelude_extra=REENTRY_PRE, timeout=600, extra_env=ASAN_ENV, max_crashes=4, chunk=100000)
    pre1 = REENTRY_PRE.replace("\n", " ")
    for i, (e, x, kd, r) in enumerate(zip(exprs, exps, kinds, io)):
        ctx.count(1, key=("reentry", e, kd), nontrivial=True)
        if r == "SKIPPED":
            continue
        if kd == "toplevel-resume":
            inp = "%s ; then, as the next top-level form: %s" % (exprs[i - 1], e)
            rep = ("(import (scheme base) (scheme write) (scheme eval)) %s (define (verif-capture d) (set! verif-n 0) (let ((r (verif-deep d))) (set! verif-n (+ verif-n 1)) "
                   "(write (list r verif-n (verif-probe2))) (newline))) %s (verif-k 5)" % (pre1, exprs[i - 1]))
            sig = "continuation:resume-on-fresh-stack:toplevel"
        elif kd == "toplevel-capture":
            inp, rep, sig = e, replay_cmd(d, "(begin %s %s)" % (pre1, e)), "continuation:capture"
        else:
            inp = e
            rep = replay_cmd(d, "(begin %s %s)" % (pre1, e)).replace("(import (scheme base) (scheme write) (chibi))", "(import (scheme base) (scheme write) (scheme eval) (chibi))")
            sig = "continuation:resume-on-fresh-stack:eval"
        if r is None or r.startswith("CRASH") or r == "TIMEOUT":
            ctx.violation(sig + ":crash", input=inp, expected=x, observed=r, replay=rep)
        elif r != x:
            ctx.violation(sig + ":wrong-value", input=inp, expected=x + "  (frames saved at depth %s, restored on a fresh stack of %d words that has to grow for them)" % (exprs[i - (kd == "toplevel-resume")].split()[1].strip(")"), init),
                          observed=r, replay=rep)
    ctx.note("continuation re-entry stream: %d depths (every depth around the sizes at which sexp_restore_stack must grow a fresh %d-word stack) through successive "
             "sexp_eval_string calls on one context, plain and with 40 pending operands; %d depths resumed inside one program (Scheme-level eval, next top-level form)"
             % (len(idx), init, len(ds)))

# ------------------------------------------------------------------------------------ part 5d: record slot accessors
def slot_accessor_stream(ctx, d):
    """SEXP_OP_SLOT_REF / SLOT_SET trust their instruction operands (type index, slot index); the operands come from
    make-getter / make-setter, which must therefore refuse a slot the type's objects do not have and a type index that names no
    type.  Then: getter on an object of the type = the field; on anything else = error (the opcode's type guard)."""
    pre = ("(define-record-type point (make-point x y) point? (x point-x) (y point-y))\n"
           "(define-record-type cell3 (make-cell3 a b c) cell3? (a cell3-a) (b cell3-b) (c cell3-c))\n"
           "(define verif-pt (make-point 'px 'py)) (define verif-c3 (make-cell3 1 2 3))\n")
    cases = []
    for k in (-1, 0, 1, 2, 3, 5, 1000, 100000, FIXMAX):
        for ty, n, obj_, fields in (("point", 2, "verif-pt", ["px", "py"]), ("cell3", 3, "verif-c3", ["f1", "f2", "f3"])):
            ok = 0 <= k < n
            cases.append(("make-getter", "(let ((g (make-getter \"g\" %s %d))) (g %s))" % (ty, k, obj_), fields[k] if ok else "ERR"))
            cases.append(("make-setter", "(let ((o (%s)) (s! (make-setter \"s\" %s %d))) (s! o 'new) 'stored)"
                          % ("make-point 1 2" if ty == "point" else "make-cell3 1 2 3", ty, k), "stored" if ok else "ERR"))
        # core type: a pair has car, cdr (and a source slot)
        cases.append(("make-getter", "(let ((g (make-getter \"g\" (type-of (cons 1 2)) %d))) (g (cons 'kar 'kdr)) 'value)" % k, "value" if 0 <= k < 2 else ("ERR" if k >= 3 or k < 0 else None)))
        cases.append(("make-setter", "(let ((s! (make-setter \"s\" (type-of (cons 1 2)) %d))) (s! (cons 'kar 'kdr) 9) 'stored)" % k, "stored" if 0 <= k < 2 else ("ERR" if k >= 3 or k < 0 else None)))
    for t in (100000, 5000, FIXMAX, -1):
        cases.append(("make-getter", "(let ((g (make-getter \"g\" %d 0))) (g verif-pt))" % t, "ERR"))
        cases.append(("make-setter", "(let ((g (make-setter \"g\" %d 0))) (g verif-pt 1))" % t, "ERR"))
    for v in ("5", "'sym", "(cons 1 2)", "verif-c3", "(vector 1 2 3)", "\"str\"", "#f", "(lambda (x) x)", "1.5"):
        cases.append(("slot-ref", "(point-y %s)" % v, "ERR"))
        cases.append(("slot-ref", "((make-getter \"g\" point 1) %s)" % v, "ERR"))
        cases.append(("slot-set", "((make-setter \"s\" point 1) %s 7)" % v, "ERR"))
    io = run_cases(d, [c[1] for c in cases], imports="(import (only (chibi) make-getter make-setter) (only (chibi ast) type-of))", prelude_extra=pre,
                   timeout=300, extra_env=ASAN_ENV, max_crashes=6)
    for (kind, e, want), r in zip(cases, io):
        ctx.count(1, key=("slot", e), nontrivial=True)
        if r == "SKIPPED" or want is None and not (r is None or r.startswith("CRASH")):
            continue
        rep = replay_cmd(d, "(begin %s %s)" % (pre.replace("\n", " "), e)).replace("(import (scheme base) (scheme write) (chibi))", "(import (scheme base) (scheme write) (chibi) (chibi ast))")
        if r is None or r.startswith("CRASH") or r == "TIMEOUT":
            ctx.violation("slot:%s:crash" % kind, input=e, expected="a value or an error object", observed=r, replay=rep)
        elif want == "ERR" and not r.startswith("ERR"):
            ctx.violation("slot:%s:out-of-range:no-error" % kind, input=e,
                          expected="an error object: the type's objects have no such slot / the operand is not of the type", observed=r, replay=rep)
        elif want != "ERR" and r != want:
            ctx.broken("outer:slot-accessor:" + kind, "%s: expected %s, implementation answered %s" % (e, want, r))
    ctx.note("slot accessor stream: %d cases (make-getter / make-setter with slot indices -1 .. beyond the type's slots, bogus type indices; getters and setters on objects of other types)" % len(cases))


def _decode_sum(r):
    if r.startswith("f"):
        c = _z(r[1:])
        return "a value of %d elements, %s" % (c >> 2, "all from the sources" if c & 2 else "NOT all from the sources (foreign memory)")
    return r


def _z(s):
    return -int(s[1:], 16) if s.startswith("-") else int(s, 16)


def _near(args):
    ln = None
    for a in args:
        if "len" in a:
            ln = a["len"]
    for a in args:
        if a["cls"] in ("fix", "cur") and ln is not None and (abs(a["z"] - ln) <= 1 or a["z"] in (-1, 0)):
            return True
    return False
