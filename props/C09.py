"""C09 — optimisation passes and numeric build variants preserve meaning.
   (G)  gen/c09_luint.py re-translates the 128-bit emulation helpers of include/chibi/bignum.h into coq/Gen/C09_Luint.v
   (T)  coq/Properties_C09.v
   (K-inner A) harness/embed_c09.c (helpers compiled with SEXP_USE_CUSTOM_LONG_LONGS=1) vs the extracted translation vs
               native __int128 vs the Z spec computed here
   (K-outer A) exact-integer arithmetic through the Scheme API on the customll build vs the default build vs Z
   (K-inner B / K-outer B) see _simplify_part; round 2: kind-exact AST comparison (Kinded.v), the pass run under an installed
               handler + parameterize (fold_eval_unobservable), _handler_part (code compiled by eval/load while handlers,
               parameters, wind extents, threads are active), _unbound_part, _opcode_table
   (G)  gen/c09_callers.py re-translates the callers of the helpers (bignum.c digit loops, fixnum*fixnum in sexp_mul and the VM)."""
import os, shutil, signal, subprocess, time
from vlib import build as B, scm

HERE = os.path.dirname(os.path.abspath(__file__))
M64, M128 = 1 << 64, 1 << 128
MASK = M64 - 1
FIXMAX, FIXMIN = (1 << 62) - 1, -(1 << 62)


# ------------------------------------------------------------------------------------------------ (A) helpers
def shex(v):
    return "-%x" % -v if v < 0 else "%x" % v


def smod(v, bits):
    v &= (1 << bits) - 1
    return v - (1 << bits) if v >> (bits - 1) else v


def fmtu(v):
    v %= M128
    return "%x,%x" % (v >> 64, v & MASK)


def fmts(v):
    v = smod(v, 128)
    return "%s,%x" % (shex(v >> 64), v & MASK)


def U(p):
    return p[0] * M64 + p[1]


WORDS = [0, 1, 2, 3, 0x7fffffff, 0x80000000, 0xffffffff, 0x100000000, 0x100000001, 0xffffffff00000000, 0x00000000ffffffff,
         (1 << 62) - 1, 1 << 62, (1 << 62) + 1, (1 << 63) - 1, 1 << 63, (1 << 63) + 1, MASK - 1, MASK,
         0xc000000000000000, 0xbfffffffffffffff, 0x3fffffffffffffff, 0x4000000000000000, 0x5555555555555555, 0xaaaaaaaaaaaaaaaa]
SHIFTS = [0, 1, 2, 31, 32, 33, 62, 63, 64, 65, 66, 95, 96, 97, 126, 127]


def rword(rng):
    r = rng.random()
    if r < 0.45:
        return rng.choice(WORDS)
    if r < 0.6:
        return rng.getrandbits(rng.choice([1, 8, 31, 32, 33, 62, 63]))
    if r < 0.7:
        return MASK ^ rng.getrandbits(rng.choice([1, 8, 31, 32, 33]))
    return rng.getrandbits(64)


def upair(rng):
    return (rword(rng), rword(rng))


def spair(rng):
    return (smod(rword(rng), 64), rword(rng))


def su(p):
    return "%x,%x" % p


def ss(p):
    return "%s,%x" % (shex(p[0]), p[1])


UN_S = ("lsint_lt_0", "sexp_lsint_fits_sint", "luint_from_lsint", "lsint_to_sint", "lsint_to_sint_hi", "lsint_negate", "lsint_is_fixnum")
UN_U = ("sexp_luint_fits_uint", "lsint_from_luint", "luint_to_uint", "luint_to_uint_hi", "luint_is_fixnum")
BIN_UU = ("luint_eq", "luint_lt", "luint_add", "luint_sub", "luint_and", "luint_div")
BIN_UW = ("luint_add_uint", "luint_mul_uint", "luint_div_uint")


def mk(fn, a, b=None):
    """request, answer by the Z spec, non-trivial? — for explicit operands (None when outside the defined domain)"""
    if fn in UN_S:
        v = U(a)
        exp = {"lsint_lt_0": lambda: "1" if v < 0 else "0",
               "sexp_lsint_fits_sint": lambda: "1" if -(1 << 63) <= v < (1 << 63) else "0",
               "luint_from_lsint": lambda: fmtu(v), "lsint_to_sint": lambda: shex(smod(v, 64)),
               "lsint_to_sint_hi": lambda: shex(v >> 64), "lsint_negate": lambda: fmts(-v),
               "lsint_is_fixnum": lambda: "1" if FIXMIN <= v <= FIXMAX else "0"}[fn]()
        return "%s %s" % (fn, ss(a)), exp, a[0] not in (0, -1) or fn in ("lsint_negate", "lsint_is_fixnum")
    if fn in UN_U:
        v = U(a)
        exp = {"sexp_luint_fits_uint": lambda: "1" if v < M64 else "0", "lsint_from_luint": lambda: fmts(v),
               "luint_to_uint": lambda: "%x" % (v & MASK), "luint_to_uint_hi": lambda: "%x" % (v >> 64),
               "luint_is_fixnum": lambda: "1" if v <= FIXMAX else "0"}[fn]()
        return "%s %s" % (fn, su(a)), exp, a[0] != 0 or fn == "luint_is_fixnum"
    if fn == "lsint_from_sint":
        return "%s %s" % (fn, shex(a)), fmts(a), a < 0
    if fn == "luint_from_uint":
        return "%s %x" % (fn, a), fmtu(a), a != 0
    if fn in ("luint_shl", "luint_shr"):
        v = U(a)
        if not 0 <= b < 128:
            return None
        return "%s %s %x" % (fn, su(a), b), (fmtu(v << b) if fn == "luint_shl" else fmtu(v >> b)), b != 0 and v != 0
    if fn in BIN_UU:
        x, y = U(a), U(b)
        if fn == "luint_div" and y == 0:
            return None
        exp = {"luint_eq": lambda: "1" if x == y else "0", "luint_lt": lambda: "1" if x < y else "0",
               "luint_add": lambda: fmtu(x + y), "luint_sub": lambda: fmtu(x - y), "luint_and": lambda: fmtu(x & y),
               "luint_div": lambda: fmtu(x // y)}[fn]()
        return "%s %s %s" % (fn, su(a), su(b)), exp, (a[0] != 0 or b[0] != 0)
    if fn in BIN_UW:
        x = U(a)
        if fn == "luint_div_uint" and b == 0:
            return None
        exp = {"luint_add_uint": lambda: fmtu(x + b), "luint_mul_uint": lambda: fmtu(x * b), "luint_div_uint": lambda: fmtu(x // b)}[fn]()
        return "%s %s %x" % (fn, su(a), b), exp, a[0] != 0 or (x * b >= M64)
    if fn == "lsint_mul_sint":
        if b == -(1 << 63):
            return None                   # -b is undefined in C for INT64_MIN (see signed_sites)
        return "%s %s %s" % (fn, ss(a), shex(b)), fmts(U(a) * b), abs(U(a) * b) >= M64
    raise KeyError(fn)


HI_U = [0, 1, 2, 0x3fffffffffffffff, 0x4000000000000000, (1 << 63) - 1, 1 << 63, MASK - 1, MASK, 0xffffffff, 0x100000000]
LO_B = [0, 1, 0xffffffff, 0x100000000, 0x3ffffffffffffffe, 0x3fffffffffffffff, 0x4000000000000000, 0x4000000000000001,
        (1 << 63) - 1, 1 << 63, 0xbfffffffffffffff, 0xc000000000000000, 0xc000000000000001, MASK - 1, MASK]


def lattice_cases(fn):
    """deterministic boundary lattice, run before the random cases: every high word class x every low word class"""
    out = []
    if fn in UN_S or fn in UN_U:
        his = [smod(h, 64) for h in HI_U] if fn in UN_S else HI_U
        out = [mk(fn, (h, l)) for h in his for l in LO_B]
    elif fn in ("lsint_from_sint", "luint_from_uint"):
        out = [mk(fn, smod(w, 64) if fn == "lsint_from_sint" else w) for w in WORDS]
    elif fn in ("luint_shl", "luint_shr"):
        out = [mk(fn, (h, l), s) for h in (0, 1, 1 << 63, MASK, 0x5555555555555555) for l in (0, 1, 1 << 63, MASK, 0xaaaaaaaaaaaaaaaa) for s in SHIFTS]
    elif fn in BIN_UU:
        ps = [(h, l) for h in (0, 1, 0xffffffff, 1 << 63, MASK) for l in (0, 1, 0xffffffff, 0x100000000, 1 << 63, MASK)]
        out = [mk(fn, a, b) for a in ps for b in ps]
    elif fn in BIN_UW:
        ps = [(h, l) for h in (0, 1, 0xffffffff, 1 << 63, MASK) for l in (0, 1, 0xffffffff, 0x100000000, 1 << 63, MASK)]
        out = [mk(fn, a, w) for a in ps for w in (0, 1, 2, 0xffffffff, 0x100000000, 0x100000001, (1 << 63) - 1, 1 << 63, MASK)]
    elif fn == "lsint_mul_sint":
        ps = [(h, l) for h in (0, 1, -1, -2, (1 << 63) - 1, -(1 << 63)) for l in (0, 1, 0xffffffff, 1 << 63, MASK)]
        out = [mk(fn, a, w) for a in ps for w in (0, 1, -1, 2, -2, 0xffffffff, -0x100000000, (1 << 62) - 1, -(1 << 62), (1 << 63) - 1, -(1 << 63) + 1)]
    return [c for c in out if c is not None]


def helper_case(rng, fn):
    """-> (request line, expected answer by the Z spec, non-trivial?) with random / boundary operands"""
    if fn in UN_S:
        return mk(fn, spair(rng))
    if fn in UN_U:
        return mk(fn, upair(rng))
    if fn == "lsint_from_sint":
        return mk(fn, smod(rword(rng), 64))
    if fn == "luint_from_uint":
        return mk(fn, rword(rng))
    if fn in ("luint_shl", "luint_shr"):
        return mk(fn, upair(rng), rng.choice(SHIFTS) if rng.random() < 0.7 else rng.randrange(128))
    if fn in BIN_UU:
        a, b = upair(rng), upair(rng)
        r = rng.random()
        if r < 0.15:
            b = a
        elif r < 0.3:
            b = (a[0], (a[1] + rng.choice([1, -1])) & MASK)
        elif r < 0.4:
            b = ((a[0] + rng.choice([1, -1])) & MASK, a[1])
        if fn == "luint_div":
            if rng.random() < 0.5:
                b = (0, b[1]) if rng.random() < 0.6 else (b[0] >> rng.randrange(1, 64), b[1])
            if U(b) == 0:
                b = (0, 3)
        return mk(fn, a, b)
    if fn in BIN_UW:
        a, b = upair(rng), rword(rng)
        if fn == "luint_div_uint" and b == 0:
            b = 7
        return mk(fn, a, b)
    if fn == "lsint_mul_sint":
        a, b = spair(rng), smod(rword(rng), 64)
        if rng.random() < 0.5:            # the shape the callers produce: a fixnum-sized value times a fixnum
            a = ((-1, rword(rng) | (1 << 63)) if rng.random() < 0.5 else (0, rword(rng) >> 1))
        if b == -(1 << 63):
            b += 1
        return mk(fn, a, b)
    raise KeyError(fn)


def _luint_part(ctx, d_custom, exe, sigs):
    rng = ctx.rng
    fns = list(sigs)
    n = (400 if not ctx.thorough else 20000)
    emb = os.path.join(d_custom, "embed_c09")
    cmd = ["cc", "-O1", "-g", "-D%s=1" % B.GUARD, "-DSEXP_USE_CUSTOM_LONG_LONGS=1", "-I" + os.path.join(d_custom, "include"), "-o", emb,
           os.path.join(HERE, "..", "harness", "embed_c09.c")]     # static inline helpers only: no libchibi-scheme needed
    rc = subprocess.run(cmd, capture_output=True, text=True)
    if rc.returncode != 0:
        ctx.broken("inner-correspondence:C09:luint", "harness compile failed: %s\n%s" % (" ".join(cmd), rc.stderr[-1500:]))
        return
    reqs, exps, nts = [], [], []
    for fn in fns:
        for q, e, nt in lattice_cases(fn) + [helper_case(rng, fn) for _ in range(n)]:
            reqs.append(q); exps.append(e); nts.append(nt)
    mo = ctx.run_model(exe, reqs)
    r = subprocess.run([emb], input="\n".join(reqs) + "\n", capture_output=True, text=True, env=B.chibi_env(d_custom), timeout=900)
    io = r.stdout.split("\n")
    if r.returncode != 0 or len(io) < len(reqs):
        ctx.broken("inner-correspondence:C09:luint", "embedding harness died rc=%s after %d answers: %s" % (r.returncode, len(io), r.stderr[-500:]))
        return
    seen_sample = set()
    for q, e, nt, m, i in zip(reqs, exps, nts, mo, io):
        fn = q.split()[0]
        ctx.count(1, key=q, nontrivial=nt)
        ctx.cov["traces_validated_against_impl"] += 1
        helper, _, native = i.partition("|")
        replay = "echo '%s' | LD_LIBRARY_PATH=%s %s   # answer: helper|native __int128 ; Z spec says %s" % (q, d_custom, emb, e)
        if helper != e:
            ctx.violation("luint:" + fn, input=q, expected=e, observed=helper, native_int128=native, model=m, replay=replay,
                          why="the struct-based helper differs from Z arithmetic modulo 2^128 (and from the native build's __int128)")
        elif native != e and native != "-":
            ctx.broken("oracle:C09:" + fn, "native __int128 result %s differs from the Z spec %s on %s (harness or oracle error)" % (native, e, q))
        elif m != helper:
            ctx.broken("correspondence:luint:" + fn, "translated model and C helper differ although the C result is right: %s model=%s impl=%s" % (q, m, helper))
        if fn not in seen_sample and nt:
            seen_sample.add(fn)
            if fn in ("luint_add", "luint_mul_uint", "luint_div", "luint_shl"):
                ctx.sample(dict(kind="inner-luint", request=q, model=m, impl=i, spec=e))


OUTER_OPS = ["(* {a} {b})", "(quotient {a} {b})", "(remainder {a} {b})", "(modulo {a} {b})", "(+ {a} {b})", "(- {a} {b})",
             "(exact-integer-sqrt (abs {a}))", "(string->number (number->string {a} 10) 10)", "(number->string {a} 7)",
             "(gcd {a} {b})", "(expt {a} 3)", "(square {a})", "(exact (floor (/ {a} {b})))"]


def _py_outer(t, a, b):
    import math
    def tq(x, y):
        q = abs(x) // abs(y)
        return q if (x < 0) == (y < 0) else -q
    if t.startswith("(* "): return [a * b]
    if t.startswith("(quotient"): return None if b == 0 else [tq(a, b)]
    if t.startswith("(remainder"): return None if b == 0 else [a - b * tq(a, b)]
    if t.startswith("(modulo"): return None if b == 0 else [a % b]
    if t.startswith("(+ "): return [a + b]
    if t.startswith("(- "): return [a - b]
    if t.startswith("(exact-integer-sqrt"):
        s = math.isqrt(abs(a)); return [s, abs(a) - s * s]
    if t.startswith("(string->number"): return [a]
    if t.startswith("(number->string"):
        return "str7"
    if t.startswith("(gcd"): return [math.gcd(a, b)]
    if t.startswith("(expt"): return [a ** 3]
    if t.startswith("(square"): return [a * a]
    if t.startswith("(exact (floor"): return None if b == 0 else [a // b]


def _base7(a):
    if a == 0: return '"0"'
    s, x = "", abs(a)
    while x:
        s = "0123456"[x % 7] + s; x //= 7
    return '"%s%s"' % ("-" if a < 0 else "", s)


def _outer_values(rng, thorough):
    vals = {0, 1, -1, 2, 3, 7, 10}
    for k in (30, 31, 32, 33, 61, 62, 63, 64, 65, 95, 96, 97, 126, 127, 128, 129, 190, 192, 256):
        for d in (-1, 0, 1):
            vals.add((1 << k) + d)
    for _ in range(40 if not thorough else 400):
        vals.add(rng.getrandbits(rng.choice([20, 40, 61, 62, 63, 64, 65, 100, 124, 128, 130, 200, 300])))
    out = sorted(vals)
    return out + [-v for v in out if v]


def _arith_outer(ctx, d_default, d_custom):
    rng = ctx.rng
    vals = _outer_values(rng, ctx.thorough)
    n = 1500 if not ctx.thorough else 60000
    exprs, meta = [], []
    for _ in range(n):
        t = rng.choice(OUTER_OPS)
        a, b = rng.choice(vals), rng.choice(vals)
        if rng.random() < 0.2 and b:
            a = b * rng.choice(vals[:60]) + rng.choice([0, 1, -1])
        exprs.append(t.format(a=scm.hexlit(a), b=scm.hexlit(b)))
        meta.append((t, a, b))
    def run_bounded(d):
        # a build whose arithmetic is broken may loop on MANY cases (round 3: seeded change b3 made the check run for 70 minutes,
        # vlib.scm.run_cases pays one full timeout per hanging case): own runner, at most 3 dead cases per build, then give up
        res, dead, lo, tmo = [None] * len(exprs), 0, 0, (40 if not ctx.thorough else 120)
        while lo < len(exprs) and dead < 3:
            hi = min(len(exprs), lo + 250)
            path = os.path.join(B.SCRATCH, "tmp-c09-arith-%d.scm" % os.getpid())
            with open(path, "w") as fh:
                fh.write("\n".join([scm.PRELUDE] + ["(verif-case %d %s)" % (i, exprs[i]) for i in range(lo, hi)] + ['(write-string "DONE")(newline)']))
            try:
                r = B.run_chibi(d, [path], timeout=tmo)
                out, rc = r.stdout, r.returncode
            except subprocess.TimeoutExpired as e:
                out, rc = (e.stdout.decode() if isinstance(e.stdout, bytes) else (e.stdout or "")), "TIMEOUT"
            finally:
                os.unlink(path)
            last, done = lo - 1, False
            for line in out.split("\n"):
                sp = line.find(" ")
                if line == "DONE":
                    done = True
                elif sp > 0 and line[:sp].isdigit() and lo <= int(line[:sp]) < hi:
                    last = max(last, int(line[:sp])); res[int(line[:sp])] = line[sp + 1:]
                elif line and last >= lo and res[last] is not None and not done:
                    res[last] += "\n" + line
            if done:
                lo = hi
            else:           # the case after the last completed one hung or killed the process
                dead += 1
                if last + 1 < hi:
                    res[last + 1] = "TIMEOUT" if rc == "TIMEOUT" else "CRASH rc=%s" % rc
                lo = last + 2
        if dead >= 3:
            ctx.note("arithmetic expressions under build %s: gave up after 3 hanging / crashing cases (%d of %d expressions not run)" % (os.path.basename(d), sum(1 for x in res if x is None), len(exprs)))
        return res
    od = run_bounded(d_default)
    oc = run_bounded(d_custom)
    for e, (t, a, b), x, y in zip(exprs, meta, od, oc):
        big = abs(a) > FIXMAX or abs(b) > FIXMAX or abs(a * b) > FIXMAX
        ctx.count(1, key=("outerA", t, a, b), nontrivial=big)
        exp = _py_outer(t, a, b)
        replay = "echo '(import (scheme base) (scheme write)) (write (call-with-values (lambda () %s) list))' > /tmp/c.scm; for d in %s %s; do LD_LIBRARY_PATH=$d CHIBI_MODULE_PATH=$d/lib $d/chibi-scheme /tmp/c.scm; echo; done" % (e, d_default, d_custom)
        def ok(out):
            if out is None: return False
            if exp is None: return out.startswith("ERR")
            if exp == "str7": return out == _base7(a)
            got = out.split(" ")
            if len(got) != len(exp): return False
            for g, v in zip(got, exp):
                p = scm.parse_int(g)
                if p is None or p[1] != v or (p[0] == "f") != (FIXMIN <= v <= FIXMAX):
                    return False
            return True
        if x is None or y is None:
            continue          # not run: the runner gave up after 3 dead cases in that build (those cases are reported below as TIMEOUT / CRASH results)
        if not ok(y):
            if ok(x):
                ctx.violation("customll-arith:" + t.split()[0].strip("("), input=e, expected=x, observed_customll=y, replay=replay,
                              why="the SEXP_USE_CUSTOM_LONG_LONGS=1 build computes a different result than the native-integer build (which agrees with Z)")
            else:
                ctx.violation("arith-both-builds:" + t.split()[0].strip("("), input=e, expected=str(exp), observed_default=x, observed_customll=y, replay=replay)
        elif x != y:
            ctx.violation("default-arith:" + t.split()[0].strip("("), input=e, expected=y, observed_default=x, replay=replay)
    ctx.sample(dict(kind="outer-arith", expr=exprs[0], default=od[0], customll=oc[0]))


def _build(variant, timeout=240):
    """vlib.build.build with a time limit: a variant whose own Scheme tools loop (broken arithmetic helpers, broken
    optimiser) must not hang the check.  Same directory naming, lock and stamp as vlib/build.py."""
    h = B.source_hash()
    d = os.path.join(B.SCRATCH, "%s-%s" % (variant, h))
    with B.Lock("build-" + variant):
        if os.path.exists(os.path.join(d, ".built-ok")):
            return d
        B._clean_stale(h)
        if os.path.isdir(d):
            shutil.rmtree(d)
        os.makedirs(d)
        for f in B._source_files():
            dst, src = os.path.join(d, f), os.path.join(B.REPO, f)
            os.makedirs(os.path.dirname(dst), exist_ok=True)
            if os.path.islink(src):
                os.symlink(os.readlink(src), dst)
            else:
                shutil.copy2(src, dst)
        cmd = ["make", "-j8", "all"] + ["%s=%s" % kv for kv in B.VARIANTS[variant].items()]
        env = dict(os.environ)
        env.pop("MAKEFLAGS", None)
        t0 = time.time()
        p = subprocess.Popen(cmd, cwd=d, stdout=subprocess.PIPE, stderr=subprocess.STDOUT, text=True, env=env, start_new_session=True)
        try:
            out, _ = p.communicate(timeout=timeout)
            timed_out = False
        except subprocess.TimeoutExpired:
            try:
                os.killpg(p.pid, signal.SIGKILL)
            except OSError:
                pass
            out, _ = p.communicate()
            timed_out = True
        with open(os.path.join(d, ".build.log"), "w") as fh:
            fh.write(" ".join(cmd) + "\n" + (out or ""))
        if timed_out:
            raise B.BuildError("build of variant %s did not finish within %d s (a Scheme tool run by make does not terminate); last output:\n%s" % (variant, timeout, (out or "")[-1500:]))
        if p.returncode != 0 or not os.path.exists(os.path.join(d, "chibi-scheme")):
            raise B.BuildError("build of variant %s failed (see %s/.build.log):\n%s" % (variant, d, (out or "")[-3000:]))
        with open(os.path.join(d, ".built-ok"), "w") as fh:
            fh.write("%.1f\n" % (time.time() - t0))
        return d


def _builds(ctx):
    """build the four variants; a variant that does not build while its reference variant does is itself a violation of
    the property (the build runs chibi's own Scheme tools: init-7.scm, meta-7.scm, chibi-ffi are the failing program)"""
    B.VARIANTS.setdefault("nosimplify_customll", dict(CPPFLAGS="-D%s=1 -DSEXP_USE_SIMPLIFY=0 -DSEXP_USE_CUSTOM_LONG_LONGS=1" % B.GUARD))
    names = dict(default="default", nosimplify="nosimplify", customll="customll", both="nosimplify_customll")
    dirs, errs = {}, {}
    for k, v in names.items():
        if k == "both" and "did not finish" in errs.get("customll", ""):
            ctx.note("variant nosimplify_customll not built: the customll build already ran into the time limit")
            continue
        try:
            dirs[k] = _build(v)
        except B.BuildError as e:
            errs[k] = str(e)
            ctx.checker_cmds.append("build of variant %s failed" % v)
    refs = dict(default="nosimplify", customll="default", both="nosimplify")
    for k, err in errs.items():
        ref = refs.get(k)
        lines = [l for l in err.split("\n") if l.strip()]
        tail = ([l for l in lines if "ERROR" in l or "rror:" in l or "called from" in l or "did not finish" in l][-6:] + lines[-4:])[-12:]
        step = next((l for l in reversed(tail) if "chibi-scheme" in l and ("tools/" in l or "-q" in l)), tail[-1] if tail else "")
        d = os.path.join(B.SCRATCH, "%s-%s" % (names[k], B.source_hash()))
        if ref and ref in dirs:
            ctx.violation("build-variant:%s-breaks-bootstrap" % ("simplify" if k == "default" else "customll"),
                          input="the build's own Scheme programs (lib/init-7.scm, lib/meta-7.scm, tools/chibi-ffi) run by `make all`: %s" % step.strip()[:300],
                          expected="the same make step completes under variant %s (it does)" % names[ref], observed="\n".join(tail)[-900:], variant=names[k],
                          replay="cd %s && make all %s   # fails; the same tree builds with variant %s" % (d, " ".join("%s='%s'" % kv for kv in B.VARIANTS[names[k]].items()), names[ref]),
                          why="turning the variant on changes the behaviour of a program that runs correctly without it")
        else:
            ctx.broken("build:" + names[k], err[-1500:])
        # the core binary of a variant whose library build failed can usually still run small programs
        if os.path.exists(os.path.join(d, "chibi-scheme")) and os.path.exists(os.path.join(d, "lib", "chibi", "ast.so")):
            errs[k] = d
    return dirs, errs


def run(ctx):
    ctx.cov["rule"] = ("(A) inner: every helper of bignum.h:63-392 on {hi,lo} pairs: first a deterministic lattice (every high-word class x every "
                       "low-word class: 0, 1, 2^32+-1, 2^62-2..2^62+1, 2^63+-1, 2^64-2^62+-1, 2^64-1; all boundary shift counts), then random/boundary "
                       "words, near-equal operand pairs, divisors of every size; compared helper = extracted translation = native __int128 = Z spec; "
                       "non-trivial when a high word is involved or the result crosses 2^64.  outer: + - * quotient remainder modulo gcd expt sqrt "
                       "number<->string on values around 2^31, 2^62, 2^64, 2^96, 2^128 and random, customll build = default build = Z.  "
                       "(B) generated let-fragment programs (see notes: folds incl. raising and overflowing ones, constant lets, shadowing, assigned "
                       "parameters, literal tests, dropped and effectful statements) + corpus: analysed and optimised AST compared token for token with "
                       "the model, SPEC value before = after; the same programs and richer ones (closures, recursion, rest parameters) under four builds.  "
                       "Round 2: every constant position in BOTH spellings (self-evaluating = immediate / heap datum, quoted = SEXP_LIT node; incl. '#f '() quoted "
                       "pairs, characters, quoted bignums, fold results that are #f), cond/and/or/when/unless, exact division; the dump keeps the kind "
                       "(I/L/B) and must equal the kind-exact model Kinded.ksimplify; the pass runs inside with-exception-handler + parameterize and the "
                       "observed handler calls / parameter value must equal the model's (none / unchanged); 100 eval/load-under-handler programs "
                       "(10 dynamic-context families x 8 code shapes x 14 raising folds, dead and live) on four builds = R7RS oracle.  "
                       "Round 3: procedures with rest parameters called with several argument counts, pairs / vectors built and read (third SPEC interpreter Sem3); "
                       "lets with rest parameters with exactly / more than the fixed count; operators that only become lambdas by simplification (9 tower shapes, nested) "
                       "against the exact-pass-order model Kinded2.ksimpN; bare rest lambdas whose uses / assignments of the rest parameter are removed, kept or absent: "
                       "procedure-flags of the compiled procedure = Rest.rest_unused on the optimised dump; the registered optimisation list of each binary; "
                       "the programs of the C03 / C05 generators under the four builds.")
    from gen import c09_luint
    dirs, errs = _builds(ctx)
    d_custom = dirs.get("customll") or os.path.join(B.SCRATCH, "customll-%s" % B.source_hash())
    if not os.path.exists(os.path.join(d_custom, "include", "chibi", "install.h")):
        ctx.broken("translator:C09_Luint", "no customll build tree with generated headers to translate from")
        return
    got = c09_luint.regen(ctx, d_custom)
    from gen import c09_callers
    c09_callers.regen(ctx, B.REPO)          # Gen/C09_Callers.v: digit loops of fxmul / fxdiv, fixnum*fixnum of sexp_mul and of the VM
    ctx.coq_obligations("Properties_C09")
    if got is None:
        return
    sigs, report = got
    for s_ in sorted(set(report["signed_sites"])):
        ctx.assume("signed C arithmetic modelled as two's complement; the generated _safe condition (proved for b <> INT64_MIN) is what makes it defined C: " + s_)
    ctx.assume("shift counts of luint_shl/luint_shr are inside [0,128): larger counts are undefined behaviour in C and outside the theorems (generated _safe conditions; the callers pass literals 1, 32)")
    exe = ctx.extract("C09")
    if exe is None:
        return
    _luint_part(ctx, d_custom, exe, sigs)
    if "default" in dirs and "customll" in dirs:
        _arith_outer(ctx, dirs["default"], dirs["customll"])
    partial = {k: d for k, d in errs.items() if os.path.isdir(str(d))}
    if "default" in dirs or "default" in partial:
        alld = dict(partial); alld.update(dirs)
        if partial:
            ctx.note("variants whose library build failed but whose core binary is used for the program runs: %s" % sorted(partial))
        _simplify_part(ctx, exe, alld)


# ------------------------------------------------------------------------------------------------ (B) simplify
OPCODES = {"+": 0, "*": 1, "-": 2, "/": 3, "quotient": 4, "remainder": 5, "<": 10, "=": 11,
           "cons": 20, "car": 21, "cdr": 22, "pair?": 23, "null?": 24, "vector-ref": 25, "vector-length": 26}      # 20..26: Sem3.data_eval (never folded)
BIGS = [(1 << 62) - 1, -(1 << 62), (1 << 61), 3037000500, (1 << 62), 1 << 70]


def _unq(a):
    if a.startswith("(quote ") and a.endswith(")"): return a[7:-1]
    return a[1:] if a.startswith("'") else a


def _isint(a):
    return _unq(a).lstrip("-").isdigit()


class Gen:
    """let-fragment programs aimed at the case split of simplify.c: foldable arithmetic (incl. results beyond the fixnum
    range, zero divisors, non-numeric operands, wrong arity), lets binding literals / folded constants / non-constants,
    shadowing of the same name by nested lets, parameters assigned by set! (lambda-set-vars), literal and folded `if`
    tests, value-only and effectful statements in non-tail sequence positions, rest parameters (rich=True)."""
    def __init__(self, rng, rich=False):
        self.rng, self.rich = rng, rich
        self.ratnames = set()     # names bound somewhere to an exact division: never injected into an integer expression
        self.stats = dict(fold=0, fold_raises=0, let_const=0, let_mutated=0, shadow=0, const_test=0, seq_drop=0, effect_stmt=0, rest=0,
                          quoted=0, quoted_false_test=0, macro_cond=0, ratio=0, tower=0)

    def q(self, s):
        """either spelling of a self-evaluating constant: as itself (analyze returns an immediate, or the heap datum) or
        quoted (analyze makes a SEXP_LIT node around it, eval.c:1152-1161) - simplify.c tests the two with different predicates"""
        r = self.rng.random()
        if r < 0.3:
            self.stats["quoted"] += 1
            return "'" + s
        if r < 0.36:
            self.stats["quoted"] += 1
            return "(quote %s)" % s
        return s

    def lit(self):
        r = self.rng.random()
        if r < 0.5: return self.q(str(self.rng.choice([0, 1, 2, 3, 5, 7, -1, -4, 10, 100])))
        if r < 0.62: return self.q(str(self.rng.choice(BIGS)))
        if r < 0.76: return self.q(self.rng.choice(["#t", "#f", "#f"]))
        if r < 0.84: return self.q('"s%d"' % self.rng.randrange(1, 4))
        if r < 0.88: return self.q("#\\" + self.rng.choice("abc"))
        if r < 0.94: return "'q%d" % self.rng.randrange(1, 4)
        self.stats["quoted"] += 1
        return self.rng.choice(["'()", "'(1 2)", "'(q1 . 2)", "'(#f)", "'#(1 2)"])

    def intlit(self):
        return self.q(str(self.rng.choice([0, 1, 2, 3, 7, -5, 12, (1 << 62) - 1, 1 << 40, -(1 << 62), 3037000500])))

    # scope = (names in scope, subset surely bound to integers)
    def intexpr(self, scope, d):
        """an expression whose value, when defined, is an integer"""
        names, ints = scope
        r = self.rng.random()
        if d <= 0 or r < 0.3:
            iv = [v for v in names if v in ints]
            if iv and self.rng.random() < 0.5: return self.rng.choice(iv)
            return self.intlit()
        if r < 0.7:
            op = self.rng.choice(["+", "+", "*", "-", "-", "quotient", "remainder"])
            n = 2 if op in ("quotient", "remainder") else self.rng.choice([0, 1, 2, 2, 2, 3])
            if op in ("quotient", "remainder") and self.rng.random() < 0.1: n = self.rng.choice([1, 3])
            if op == "-" and n == 0: n = 1
            args = [self.intexpr(scope, d - 1) for _ in range(n)]
            if op in ("+", "*", "-") and n >= 2 and self.rng.random() < 0.08:
                args[self.rng.randrange(n)] = self.rng.choice(['#t', "'#f", '"s1"', "'\"s2\"", "'q2", "'()", "'(1 2)", "#\\a"] + [v for v in names if v not in self.ratnames])   # evaluation raises (a ratio would not)
                self.stats["fold_raises"] += 1
            if all(_isint(a) for a in args): self.stats["fold"] += 1
            if op in ("quotient", "remainder") and n == 2 and _isint(args[1]) and int(_unq(args[1])) == 0: self.stats["fold_raises"] += 1
            return "(%s)" % " ".join([op] + args)
        if r < 0.85: return "(if %s %s %s)" % (self.test(scope, d), self.intexpr(scope, d - 1), self.intexpr(scope, d - 1))
        return self.let(scope, d, want_int=True)

    def test(self, scope, d):
        r = self.rng.random()
        if r < 0.35:
            self.stats["const_test"] += 1
            t = self.rng.choice(["#t", "#f", "'#f", "'#f", "(quote #f)", "'#t", "0", "'0", "'()", '"s1"', "'\"s1\"", "'q1", "'(1 2)", "#\\a",
                                 "(+ 1 2)", "(- 1 1)", "(+ '#f)", "(* '#f)"] + list(scope[0]) * 2)
            if t in ("'#f", "(quote #f)", "(+ '#f)", "(* '#f)"): self.stats["quoted_false_test"] += 1
            return t
        return "(%s %s %s)" % (self.rng.choice(["<", "="]), self.intexpr(scope, d - 1), self.intexpr(scope, d - 1))

    def ifexpr(self, scope, d):
        r = self.rng.random()
        if r < 0.55:
            return "(if %s %s %s)" % (self.test(scope, d), self.expr(scope, d - 1), self.expr(scope, d - 1))
        self.stats["macro_cond"] += 1
        if r < 0.7:
            return "(cond (%s %s) (%s %s) (else %s))" % (self.test(scope, d), self.expr(scope, d - 1), self.test(scope, d), self.expr(scope, d - 1), self.expr(scope, d - 1))
        if r < 0.85:
            return "(and %s %s)" % (self.test(scope, d), self.expr(scope, d - 1))
        return "(or %s %s)" % (self.test(scope, d), self.expr(scope, d - 1))

    def stmt(self, scope, d):
        names, ints = scope
        r = self.rng.random()
        iv = [v for v in names if v in ints]
        if r < 0.3:
            self.stats["effect_stmt"] += 1
            return "(out %s)" % self.expr(scope, d - 1)
        if r < 0.5 and iv:
            self.stats["effect_stmt"] += 1
            return "(set! %s %s)" % (self.rng.choice(iv), self.intexpr(scope, d - 1))
        if r < 0.7:
            self.stats["seq_drop"] += 1
            return self.rng.choice([self.lit(), self.lit(), self.rng.choice(names) if names else "7", "(+ 1 2)", "(+ '1 2)", "(if #t 1 2)", "(if '#f 1 '2)"])
        if r < 0.8:
            self.stats["macro_cond"] += 1
            return "(%s %s %s)" % (self.rng.choice(["when", "unless"]), self.test(scope, d), " ".join(self.stmt(scope, d - 1) for _ in range(self.rng.choice([1, 2]))))
        return self.expr(scope, d - 1)

    def body(self, scope, d, want_int=False):
        n = self.rng.choice([1, 1, 2, 3, 4])
        return " ".join([self.stmt(scope, d) for _ in range(n - 1)] + [self.intexpr(scope, d) if want_int else self.expr(scope, d)])

    def let(self, scope, d, want_int=False):
        names, ints = scope
        n = self.rng.choice([1, 1, 2, 3])
        new = self.rng.sample(["x", "y", "z", "w"], n)
        if any(nm in names for nm in new): self.stats["shadow"] += 1
        args, newints = [], set()
        for nm in new:
            r = self.rng.random()
            if r < 0.45:
                a = self.lit(); self.stats["let_const"] += 1
                if _isint(a): newints.add(nm)
            elif r < 0.6:
                a = "(+ 1 %d)" % self.rng.randrange(5); self.stats["let_const"] += 1; newints.add(nm)
            elif r < 0.67 and d > 1:
                a = self.ratexpr(scope, d - 1); self.ratnames.add(nm)
            else:
                a = self.intexpr(scope, d - 1); newints.add(nm)
            args.append(a)
        inner = ([s for s in names if s not in new] + new, (set(ints) - set(new)) | newints)
        params = " ".join(new)
        if self.rich and self.rng.random() < 0.2:
            self.stats["rest"] += 1
            params = (params + " . r") if self.rng.random() < 0.7 else params
            if self.rng.random() < 0.5: args.append(self.lit())
        b = self.body(inner, d - 1, want_int)
        if "(set! " in b: self.stats["let_mutated"] += 1
        return "(%s %s)" % (self.tower("(lambda (%s) %s)" % (params, b)), " ".join(args))

    TOWERS = ["(if #t %s 0)", "(if '#f 0 %s)", "(begin 'q1 %s)", "(if (+ 1 2) %s 1)", "(begin 1 \"s1\" %s)", "(if (if #t '#f 1) 2 %s)",
              "(if (- 1 1) %s (lambda z 0))", "(begin (if #f #f) %s)", "(if '() %s 3)"]

    def tower(self, lam, p=0.08):
        """round 3: the operator is NOT syntactically a lambda but simplifies to one (literal `if` test, `begin` whose other
        elements are dropped): simplify.c:61 then applies the let handling to the SIMPLIFIED operator and simplifies its
        body a second time (Simplify2.simpN)"""
        while self.rng.random() < p:
            self.stats["tower"] += 1
            lam = self.rng.choice(self.TOWERS) % lam
            p = 0.3
        return lam

    def ratexpr(self, scope, d):
        """exact division and arithmetic on its (possibly non-integer) results: never an operand of quotient/remainder"""
        self.stats["ratio"] += 1
        i = lambda: self.intexpr(scope, d - 1) if self.rng.random() < 0.5 else self.q(str(self.rng.choice([0, 1, 2, 3, 4, 6, -6, 7, 12, -9, 1 << 62, 3037000500])))
        quo = lambda: "(/ %s)" % " ".join(i() for _ in range(self.rng.choice([1, 2, 2, 2, 3])))
        r = self.rng.random()
        if r < 0.5: return quo()
        if r < 0.6: return self.q("%d/%d" % (self.rng.choice([1, -3, 5, 7]), self.rng.choice([2, 4, 9])))
        if r < 0.8: return "(%s %s %s)" % (self.rng.choice(["+", "*", "-"]), quo(), self.rng.choice([i(), quo(), "1/2", "'2/3"]))
        if r < 0.9: return "(- %s)" % quo()
        return "(/ %s %s)" % (quo(), quo())

    def expr(self, scope, d):
        r = self.rng.random()
        if d > 0 and r > 0.9: return self.ratexpr(scope, d)
        if d <= 0:
            return self.intexpr(scope, 0) if r < 0.7 else (self.rng.choice(scope[0]) if scope[0] and r < 0.85 else self.lit())
        if r < 0.35: return self.let(scope, d)
        if r < 0.5: return "(begin %s)" % self.body(scope, d)
        if r < 0.65: return self.ifexpr(scope, d)
        return self.intexpr(scope, d)

    def program(self):
        return self.let(([], set()), self.rng.choice([2, 3, 3, 4]))

    def arity_program(self):
        """a lambda with a rest parameter, simplified ONCE (folds, propagated constants in both spellings, dropped
        statements inside it), then called with several different argument counts; the rest list is used, unused or
        assigned.  Rest parameters are outside the SPEC interpreters: four-build differential."""
        r = self.rng
        c1, c2 = self.lit(), self.intlit()
        use = r.choice(["(out r)", "(out (length r))", "(set! r (cons k r)) (out r)", "'unused", "(if (pair? r) (out (car r)) (out 'none))", "(out (apply + a r))"])
        body = "((lambda (k flag) %s (if flag (+ a k (quotient 7 2)) (quotient a 0))) %s %s)" % (use, c2, r.choice(["'#t", "#t", "'0", "'()", "(+ 1 2)"]))
        calls = " ".join("(out (f %s))" % " ".join(str(r.randrange(9)) for _ in range(n)) for n in r.sample([1, 2, 3, 4], r.choice([2, 3])))
        return "((lambda (f) %s %s (f 0)) (lambda (a . r) %s %s))" % (calls, c1, r.choice(["1", "'x", "a", "r"]), body)

    # ---- round 3: rest parameters, pairs / vectors as values, several call arities: inside the third SPEC interpreter (Sem3.eval3)
    def dexpr(self, ints, lists, d):
        """an expression over integer variables `ints` and list variables `lists` (rest parameters): any value"""
        r, k = self.rng, self.rng.randrange
        i = lambda: self.intexpr((list(ints), set(ints)), 1) if ints and r.random() < 0.6 else self.intlit()
        L = lambda: r.choice(lists) if lists and r.random() < 0.75 else r.choice(["'()", "(list %s)" % i(), "(cons %s '())" % i(), "(list %s %s)" % (i(), i())])
        t = k(14) if d > 0 else k(5)
        if t == 0: return i()
        if t == 1: return L()
        if t == 2: return "(length %s)" % L()
        if t == 3: return "(null? %s)" % L()
        if t == 4: return "(pair? %s)" % r.choice([L(), i()])
        if t == 5: return "(cons %s %s)" % (self.dexpr(ints, lists, d - 1), self.dexpr(ints, lists, d - 1))
        if t == 6: return "(if (null? %s) %s (car %s))" % ((lambda l: (l, self.dexpr(ints, lists, d - 1), l))(L()))
        if t == 7: return "(if (pair? %s) (cdr %s) %s)" % ((lambda l: (l, l, self.q(r.choice(["#f", "0", "\"s1\""]))))(L()))
        if t == 8: return "(vector-ref (vector %s %s %s) %s)" % (i(), self.dexpr(ints, lists, d - 1), L(), r.choice(["0", "1", "2", "(- 3 1)", "(+ 1 2)", "'1"]))
        if t == 9: return "(vector-length (vector %s))" % " ".join(i() for _ in range(k(4)))
        if t == 10: return "(list %s)" % " ".join(self.dexpr(ints, lists, d - 1) for _ in range(k(4)))
        if t == 11:   # a let whose lambda has a rest parameter: as many arguments as fixed parameters (parameters deleted, rest = '()) or more
            n, extra = k(1, 3), r.choice([0, 0, 1, 2])
            ps = ["k%d" % j for j in range(n)]
            args = [self.q(str(k(9))) if r.random() < 0.6 else i() for _ in range(n + extra)]
            return "(%s %s)" % (self.tower("(lambda (%s . q) %s)" % (" ".join(ps), self.dexpr(list(ints) + ps, list(lists) + ["q"], d - 1)), 0.15), " ".join(args))
        if t == 12: return "(car %s)" % L()          # raises on '()
        return "(begin (out %s) %s)" % (self.dexpr(ints, lists, d - 1), self.dexpr(ints, lists, d - 1))

    def data_program(self):
        """a procedure with a rest parameter bound to a variable and called with several argument counts; the body works on
        the rest list and on pairs / vectors it builds, holds foldable arithmetic, constant lets (also with rest parameters,
        with exactly the fixed count = parameters deleted, or more arguments) and operators that only become lambdas"""
        r, k = self.rng, self.rng.randrange
        nfix = k(0, 3)
        ps = ["a", "b"][:nfix]
        pre = r.choice(["", "", "(set! r (cons %s r)) " % self.intlit(), "(out (length r)) ", "r ", "'q1 "])
        body = pre + self.dexpr(ps, ["r"], 3)
        lam = "(lambda %s %s)" % (("(%s . r)" % " ".join(ps)) if ps else "r", body)
        calls = []
        for n in r.sample([0, 1, 2, 3, 5], r.choice([2, 3])):
            calls.append("(out (f %s))" % " ".join(str(k(9)) for _ in range(nfix + n)))
        if r.random() < 0.15: calls.append("(out (f))" if nfix else "(out (f 'x \"s1\"))")      # too few arguments: an error
        return "((lambda (f) %s (f %s)) %s)" % (" ".join(calls), " ".join(str(k(9)) for _ in range(nfix + 1)), lam)

    REST_BODIES = ["(if #f r a)", "(if '#f (set! r 1) a)", "(if #f (begin (set! r (cons a r)) r) a)", "((lambda (k) (if k a (car r))) #t)",
                   "((lambda (k) (if k a (set! r k))) '#t)", "(begin r a)", "(begin (if #f r 1) (+ a 1))", "(if a r 0)", "(cons a r)", "a", "(+ a 1 2)",
                   "(begin (set! r 5) a)", "(lambda () r)", "((lambda (x . r) x) a)", "((lambda (x . q) (if (null? q) x r)) a)",
                   "(if (quotient 1 0) r a)", "((if #t (lambda (k) (if k a r)) 0) 7)", "((lambda (k) (if (- k k) a (length r))) 3)",
                   "(if (+ '#f) (set! r 2) (* a 2))", "(if (null? r) a b)", "(if (pair? r) (car r) 'none)", "((lambda (k) (if (if k (pair? r) k) 1 2)) 5)", "((lambda (f) (f)) (lambda () (if '#f r a)))", "(begin (if '#f (set! b r) 0) (cons a b))"]

    def restflag_lambda(self):
        """a bare lambda with a rest parameter whose only uses / assignments sit in code the pass removes (dead branch behind
        a literal, folded or propagated test; dropped statement), or stay, or do not exist: sexp_rest_unused_p runs on the
        SIMPLIFIED lambda while the set-vars list dates from before the pass"""
        b = self.rng.choice(self.REST_BODIES)
        return "(lambda %s %s)" % (self.rng.choice(["(a b . r)", "(a b c . r)"] + ([] if " b" in b else ["(a . r)"])), b)

    def closure_program(self):
        """core forms only (lambda, set!, if, application): first-class closures, recursion through an assigned
        variable, counters, closures capturing propagated constants — inside the second SPEC interpreter (Sem2)"""
        r, k = self.rng, self.rng.randrange
        ie = lambda names: self.intexpr((list(names), set(names)), 2)
        t = r.randrange(6)
        if t == 0:
            return "((lambda (f) (out (f %s %s)) (f %s (+ 1 2))) (lambda (a b) %s))" % (self.intlit(), k(9), k(9), ie(["a", "b"]))
        if t == 1:
            return ("((lambda (loop n) (set! loop (lambda (i acc) (if (< i n) (loop (+ i 1) (%s acc i %d)) acc))) 'q1 n (out (loop 0 %s)) (loop 1 (+ 1 %d))) #f %d)"
                    % (r.choice(["+", "*", "-"]), k(1, 5), self.intlit(), k(4), k(1, 7)))
        if t == 2:
            return "((lambda (n) ((lambda (inc) (inc) n (inc) (out n) (inc)) (lambda () (set! n (+ n %d)) n))) %d)" % (k(1, 9), k(9))
        if t == 3:
            return "((lambda (k) ((lambda (g) (+ (g 1) (g k))) (lambda (x) %s))) %d)" % (ie(["x", "k"]), k(1, 9))
        if t == 4:
            return ("((lambda (mk) ((lambda (a b) (out (a)) (out (b)) (+ (a) (b))) (mk %d) (mk (* 2 %d)))) (lambda (start) ((lambda (c) (lambda () (set! c (+ c 1)) c)) start)))"
                    % (k(9), k(9)))
        return ("((lambda (x y) ((lambda (f) (if (if #t (< x y) 0) (f (lambda (z) (+ z x %d)) y) (f (lambda (z) (* z y)) (+ 1 2)))) (lambda (h v) (out (h v)) (h (h v))))) %d %d)"
                % (k(5), k(9), k(9)))


class Names:
    def __init__(self):
        # global procedures the third SPEC interpreter knows (Sem3.OUT/LIST/VECTOR/LENGTH); tag 0 = the empty list (Sem3.NIL)
        self.names, self.tags = {"out": 1, "list": 2, "vector": 3, "length": 4}, {"()": 0}

    def name(self, s):
        return self.names.setdefault(s, len(self.names) + 1)

    def const(self, c):
        if c[0] == "i": return "i" + shex(int(c[1:]))
        if c[0] == "r":
            n, d = c[1:].split("/")
            return "r%s/%s" % (shex(int(n)), shex(int(d)))
        if c in ("t", "f", "v"): return c
        return "o%d" % self.tags.setdefault(c[1:], len(self.tags) + 1)


def to_model_tokens(toks, nm):
    """translate a dump line of harness/c09_simplify.scm (symbolic names) into the numeric syntax of the model driver"""
    out, i = [], 0

    def expr():
        nonlocal i
        t = toks[i]; i += 1
        if t in ("L", "B", "I"):
            out.extend([t, nm.const(toks[i])]); i += 1
        elif t == "R":
            out.extend([t, str(nm.name(toks[i])), toks[i + 1]]); i += 2
        elif t == "S":
            out.extend([t, str(nm.name(toks[i])), toks[i + 1]]); i += 2
            expr()
        elif t == "C":
            out.append(t); expr(); expr(); expr()
        elif t == "Q":
            n = int(toks[i]); out.extend([t, toks[i]]); i += 1
            for _ in range(n): expr()
        elif t == "A":
            n = int(toks[i]); out.extend([t, toks[i]]); i += 1
            for _ in range(n + 1): expr()
        elif t == "O":
            out.extend([t, str(OPCODES.get(toks[i], 99))]); i += 1
        elif t == "M":
            out.extend([t, toks[i], toks[i + 1]]); n = int(toks[i + 1]); i += 2
            for _ in range(n):
                out.append(str(nm.name(toks[i]))); i += 1
            out.append(toks[i]); i += 1
            m = int(toks[i]); out.append(toks[i]); i += 1
            for _ in range(m):
                out.append(str(nm.name(toks[i]))); i += 1
            expr()
        else:
            raise ValueError("token " + t)
    expr()
    if i != len(toks):
        raise ValueError("trailing tokens")
    return out


def _show_const(c, nm):
    """how (write v) prints a model constant"""
    if c[0] == "i":
        return str(int(c[1:], 16)) if not c.startswith("i-") else str(-int(c[2:], 16))
    if c[0] == "r":
        n, d = c[1:].split("/")
        return "%d/%d" % (int(n, 16) if not n.startswith("-") else -int(n[1:], 16), int(d, 16))
    if c == "t": return "#t"
    if c == "f": return "#f"
    if c == "v": return None
    inv = {v: k for k, v in nm.tags.items()}
    return inv[int(c[1:])].replace("~", " ")          # the dump harness writes the datum with (write), spaces as ~


def _dat_text(toks, nm):
    """Sem3 datum as printed by the driver (show_dat) -> what (write v) prints; None when it holds the unspecified value"""
    out = []
    for t in toks:
        if t in ("(", ")", "#(", "."):
            out.append(t)
        else:
            c = _show_const(t, nm)
            if c is None:
                return None
            out.append(c)
    return " ".join(out).replace("( ", "(").replace(" )", ")")


def _spec_of(ans, nm, third=False):
    """answer of a run / run2 / run3 request -> (value text | None = a procedure or unspecified, [output texts]) or None = undefined"""
    if not ans.startswith("V"):
        return None
    val, _, outl = ans.partition(" |")
    vt = val.split()[1:]
    if third:
        outs = [_dat_text(o.split(), nm) for o in outl.split(" ; ")[1:]]
        v = None if vt == ["proc"] else _dat_text(vt, nm)
    else:
        outs = [_show_const(c, nm) for c in outl.split()]
        v = None if vt == ["proc"] else _show_const(vt[0], nm)
    return (v, outs)


OUTER_PRELUDE = """(import (scheme base) (scheme write))
(define (out x) (write x) (newline))
(define (run-case n thunk)
  (write-string "CASE ") (write n) (newline)
  (guard (e (#t (write-string "ERR") (newline)))
    (let ((v (thunk))) (write-string "RES ") (write v) (newline))))
"""


def _heredoc_replay(text, ds, comment):
    """a shell command that writes the Scheme program and runs it under the given builds"""
    return ("cat > /tmp/c09r.scm <<'C09EOF'\n%sC09EOF\nfor d in %s; do echo $d; LD_LIBRARY_PATH=$d CHIBI_IGNORE_SYSTEM_PATH=1 CHIBI_MODULE_PATH=$d/lib $d/chibi-scheme /tmp/c09r.scm; done   # %s"
            % (text if text.endswith("\n") else text + "\n", " ".join(ds), comment))


def _run_file(d, text, name):
    path = os.path.join(B.SCRATCH, "tmp-c09-%s-%d.scm" % (name, os.getpid()))
    with open(path, "w") as fh:
        fh.write(text)
    try:
        try:
            r = B.run_chibi(d, [path], timeout=300)
        except subprocess.TimeoutExpired as e:
            class R: pass
            r = R()
            r.stdout = e.stdout.decode() if isinstance(e.stdout, bytes) else (e.stdout or "")
            r.stderr, r.returncode = "timeout after 300 s", "TIMEOUT"
    finally:
        os.unlink(path)
    return r


def _split_cases(stdout):
    cases, cur = {}, None
    for line in stdout.split("\n"):
        if line.startswith("CASE "):
            cur = int(line[5:]); cases[cur] = []
        elif cur is not None and line != "":
            cases[cur].append(line)
    return cases


RICH = [  # closures, recursion, rest parameters, internal defines: compared across the four builds only
    "(let loop ((i 0) (acc 1)) (if (< i 10) (loop (+ i 1) (* acc 3)) (begin (out acc) (+ acc (* 2 3)))))",
    "(let ((f (lambda (a . r) (out (+ a 1 2)) r))) (f 1 2 3) (out (f 4)) (f (+ 2 3) (* 2 (+ 1 1))))",
    "(let ((f (lambda (a . r) a))) (list (f 3) 2 1))",
    "(let ((g (lambda (a . r) (set! r 5) a))) (list (g 3) 2 1))",
    "(let ((g (lambda (a . r) (set! r (cons a r)) (if (< a 0) r a)))) (out (g -1 2)) (list (g 3) 2 1))",
    "(let ((k 5)) (define (g n) (if (< n 1) k (+ (* 1 1) (g (- n 1))))) (out (g 4)) (set! k (+ k (- 10 3))) (g 2))",
    "(let* ((x 2) (y (+ x 3)) (x (* y 2))) (out x) (let ((x (+ 1 1)) (y x)) (out (+ x y)) (set! x (+ x 40)) x))",
    "(let ((v (vector 1 2 3))) (vector-set! v 0 (+ 4 5)) 'a \"str\" v (vector-ref v 0))",
    "(let ((x 1)) ((lambda (x) (set! x (+ x 1)) (out x)) 10) (out x) ((lambda (y) (if #f y (+ y x))) 7))",
    "(let ((f (lambda args (apply + (* 2 3) args)))) (out (f)) (f 1 2 (quotient 7 2)))",
    "(let ((x (quotient 1 0))) x)",
    "(let ((x 3)) (if (= 0 (remainder 9 3)) (begin (out (* 4611686018427387903 2)) (/ 6 3)) (car x)))",
    "(letrec ((ev? (lambda (n) (if (= n 0) #t (od? (- n 1))))) (od? (lambda (n) (if (= n 0) #f (ev? (- n 1)))))) (list (ev? 10) (od? (+ 3 4))))",
    "(let ((x 5) (y (+ 1 2))) (do ((i 0 (+ i 1))) ((= i y)) (set! x (+ x i)) 'ignored 42 x) (list x y (* 1.5 2) (+ 1/2 1/2) (exact->inexact (/ 1 3))))",
    "(call-with-current-continuation (lambda (k) (let ((a 1)) (out a) (k (+ a (* 3 4))) (out 'never))))",
    "(let ((p (cons (+ 1 2) (- 2)))) (set-car! p (* (car p) (+ 2 2))) \"s\" #\\a p)",
    "(let ((s (string-append \"a\" \"b\"))) (string-length s) (if \"x\" (string-length s) 0))",
]


# ---------------------------------------------------------------- (A) code compiled while handlers / parameters / wind extents are active
HPRELUDE = """(import (scheme base) (scheme write) (scheme eval) (scheme file) (scheme load) (srfi 18))
(define env (environment '(scheme base)))
(define trace '())
(define (note x) (set! trace (cons x trace)))
(define (kind e) (cond ((error-object? e) 'err) ((symbol? e) e) ((number? e) e) (else 'other)))
(define prm (make-parameter 'p0))
(define (run-case n thunk)
  (set! trace '())
  (write-string "CASE ") (write n) (newline)
  (guard (e (#t (write-string "ERR ") (write (kind e)) (newline)))
    (let ((v (thunk))) (write-string "RES ") (write v) (newline)))
  (write-string "TRACE ") (write (reverse trace)) (newline))
"""

RAISING_FOLDS = ["(quotient 7 0)", "(remainder 7 0)", "(quotient '7 '0)", "(+ 1 'a)", "(* \"s\" 2)", "(- 'q)", "(/ 5 (- 2 2))", "(/ 1 0)",
                 "(quotient 1 (- 3 3))", "(+ 1 (quotient 1 0))", "(+ 2 (* 3 'z))", "(- 5 '#f)", "(remainder (+ 1 2) (* 0 4))", "(+ '(1) 1)"]
VALUE_FOLDS = [("(+ 1 2)", "3"), ("(* 6 7)", "42"), ("(quotient 9 2)", "4"), ("(- '10 3)", "7"), ("(+ 4611686018427387903 1)", "4611686018427387904")]


LOADFILE = os.path.join(B.SCRATCH, "tmp-c09-load-%d.scm" % os.getpid())


def handler_programs(rng, n):
    """programs that COMPILE code (eval) while an exception handler, a guard, a parameterize, a dynamic-wind extent or a
    thread is active (the last family compiles by LOADing a file the program wrote).  The compiled code holds constant arithmetic applications whose evaluation raises, in positions
    that are never executed (dead) or that are executed (live).  -> (program text, expected RES/ERR line, expected trace):
    the SPEC is R7RS: compiling executes nothing, so the trace holds only what the EXECUTED code raises, in order, and
    raise-continuable returns what the handler returns.  Escaping handlers come last (a broken build may not survive them)."""
    out = []
    for k in range(n):
        rf, rf2 = rng.choice(RAISING_FOLDS), rng.choice(RAISING_FOLDS)
        vf, vv = rng.choice(VALUE_FOLDS)
        shapes = [("(lambda (x) (if x %s 'fine))" % rf, "fine"),
                  ("(lambda (x) (if x (begin %s 1) %s))" % (rf, vf), vv),
                  ("(lambda (x) ((lambda (k) (if x (+ k %s) k)) 5))" % rf, "5"),
                  ("(lambda (x) (if (if x #f #t) 'fine (car %s)))" % rf, "fine"),
                  ("(lambda (x) (let ((d '#f)) (if d %s (if x %s 'fine))))" % (rf2, rf), "fine"),
                  ("(lambda (x) (if '#f %s (if x %s %s)))" % (rf2, rf, vf), vv),
                  ("(lambda (x) (cond (x %s) ('#f %s) (else (quote ok))))" % (rf, rf2), "ok"),
                  ("(lambda (x) (define (f) %s) (if x (f) %s))" % (rf, vf), vv)]
        code, dead = rng.choice(shapes)
        live = rng.random() < 0.5
        arg = "#t" if live else "#f"
        c = k % 10
        if c == 0:     # returning handler; the code with the raising fold is compiled, the fold never runs
            p = ("(with-exception-handler (lambda (e) (note (list 'h (kind e))) 99) (lambda () (let ((p (eval '%s env))) (note 'compiled) (let ((v (p #f))) (note 'ran) v))))" % code)
            exp = ("RES " + dead, "(compiled ran)")
        elif c == 1:   # guard
            p = "(guard (e (#t (note (list 'g (kind e))) 'caught)) (let ((p (eval '%s env))) (note 'compiled) (p %s)))" % (code, arg)
            exp = ("RES caught", "(compiled (g err))") if live else ("RES " + dead, "(compiled)")
        elif c == 2:   # parameterize + dynamic-wind + guard
            p = ("(parameterize ((prm 'p1)) (dynamic-wind (lambda () (note 'in)) (lambda () (guard (e (#t (note (list 'g (kind e) (prm))) (list 'caught (prm)))) "
                 "(let ((p (eval '%s env))) (note (list 'compiled (prm))) (list (p %s) (prm))))) (lambda () (note 'out))))" % (code, arg))
            exp = ("RES (caught p1)", "(in (compiled p1) (g err p1) out)") if live else ("RES (%s p1)" % dead, "(in (compiled p1) out)")
        elif c == 3:   # raise-continuable in the executed part: the handler's return value comes back, once
            p = ("(with-exception-handler (lambda (e) (note (list 'h (kind e))) (if (number? e) (* e 10) 0)) (lambda () (let ((p (eval '(lambda (x) (if x %s (+ (raise-continuable 4) %s))) env))) "
                 "(note 'compiled) (p #f))))" % (rf, vf))
            exp = ("RES %d" % (40 + int(vv)), "(compiled (h 4))")
        elif c == 4:   # nested handlers: both still installed, in the right order, after the compilation
            p = ("(with-exception-handler (lambda (e) (note (list 'outer (kind e))) 1) (lambda () (with-exception-handler (lambda (e) (note (list 'inner (kind e))) (+ 1 (raise-continuable 'again))) "
                 "(lambda () (let ((p (eval '%s env))) (note 'compiled) (+ (raise-continuable 'first) (if (procedure? p) 100 0)))))))" % code)
            exp = ("RES 102", "(compiled (inner first) (outer again))")
        elif c == 5:   # a whole form evaluated: the raising fold is a statement that runs / sits in a dead branch
            if live:
                p = "(guard (e (#t (note (list 'g (kind e))) 'caught)) (note 'before) (let ((v (eval '(begin %s %s) env))) (note 'after) v))" % (rf, vf)
                exp = ("RES caught", "(before (g err))")
            else:
                p = "(guard (e (#t (note (list 'g (kind e))) 'caught)) (note 'before) (let ((v (eval '(if '#f %s %s) env))) (note 'after) v))" % (rf, vf)
                exp = ("RES " + vv, "(before after)")
        elif c == 6:   # in a thread, with a parameter binding made inside it
            p = ("(thread-join! (thread-start! (make-thread (lambda () (parameterize ((prm 't1)) (with-exception-handler (lambda (e) (note (list 'h (kind e))) 99) "
                 "(lambda () (let ((p (eval '%s env))) (note (list 'compiled (prm))) (list (p #f) (prm))))))))))" % code)
            exp = ("RES (%s t1)" % dead, "((compiled t1))")
        elif c == 7:   # the handler is itself inside compiled code; an uncaught live error reaches the case's own guard
            p = "(let ((p (eval '%s env))) (note 'compiled) (p %s))" % (code, arg)
            exp = ("ERR err", "(compiled)") if live else ("RES " + dead, "(compiled)")
        elif c == 9:   # load of a file (written by the program itself) under a guard: every top-level form of it is compiled then
            p = ("(begin (call-with-output-file \"%s\" (lambda (o) (write '(define c09-unrelated %s) o) (write '(define c09-loaded %s) o))) "
                 "(guard (e (#t (note (list 'g (kind e))) 'caught)) (load \"%s\") (note (list 'loaded c09-unrelated)) (c09-loaded %s)))" % (LOADFILE, vf, code, LOADFILE, arg))
            exp = ("RES caught", "((loaded %s) (g err))" % vv) if live else ("RES " + dead, "((loaded %s))" % vv)
        else:          # escaping handler (call/cc)
            p = ("(call-with-current-continuation (lambda (k) (with-exception-handler (lambda (e) (note (list 'h (kind e))) (k 'escaped)) "
                 "(lambda () (let ((p (eval '%s env))) (note 'compiled) (p %s))))))" % (code, arg))
            exp = ("RES escaped", "(compiled (h err))") if live else ("RES " + dead, "(compiled)")
        out.append((c == 8, p, exp))
    out.sort(key=lambda t: t[0])
    return [(p, e) for _, p, e in out]


def _handler_part(ctx, dirs):
    rng = ctx.rng
    hp = handler_programs(rng, 100 if not ctx.thorough else 3000)
    text = HPRELUDE + "\n".join("(run-case %d (lambda () %s))" % (i, p) for i, (p, _) in enumerate(hp)) + "\n"
    outs = {}
    for v, d in dirs.items():
        r = _run_file(d, text, "outerH-" + v)
        outs[v] = _split_cases(r.stdout)
        if len(outs[v]) != len(hp):
            ctx.broken("outer-correspondence:C09:handlers:" + v, "build %s ran %d of %d eval-under-handler programs (rc=%s): %s" % (v, len(outs[v]), len(hp), r.returncode, r.stderr[-400:]))
    if os.path.exists(LOADFILE):
        os.unlink(LOADFILE)
    order = [v for v in ("default", "customll", "both", "nosimplify") if v in outs]
    for i, (p, (eres, etr)) in enumerate(hp):
        ctx.count(1, key=("outerH", p), nontrivial=True)
        exp = [eres, "TRACE " + etr]
        replay = _heredoc_replay(HPRELUDE + "(run-case 0 (lambda () %s))\n" % p, list(dirs.values()), "expected: CASE 0 / %s / TRACE %s" % (eres, etr))
        for v in order:
            got = outs[v].get(i)
            if got == exp:
                continue
            ref = outs.get("nosimplify", {}).get(i)
            if v != "nosimplify" and ref == exp:
                tr = (got or ["", ""])[-1]
                early = got is None or "compiled" not in tr or tr.index("compiled") > tr.index("(") + 12     # something happened before 'compiled'
                sig = (("simplify:compile-time-effect-under-handler" if early else "simplify:changes-outcome-of-evaluated-code") if v == "default"
                       else "build-variant:%s-changes-handler-trace" % v)
                why = "the program's handler / trace / result differs from the SEXP_USE_SIMPLIFY=0 build and from R7RS: compiling code (eval) must execute none of it"
            else:
                sig = "sem:handler-trace-differs-from-spec:" + v
                why = "build %s prints something else than R7RS prescribes for this program (oracle in props/C09.py handler_programs)" % v
            ctx.violation(sig, input=p, expected=exp, observed=got, variant=v, reference_nosimplify=ref, replay=replay, why=why)
            break
    if hp:
        ctx.sample(dict(kind="outer-eval-under-handler", program=hp[0][0], expected=list(hp[0][1]), outputs={v: outs[v].get(0) for v in outs}))
    ctx.note("eval/load-under-handler programs: %d (10 context families x 8 code shapes x %d raising folds), all four builds = R7RS oracle" % (len(hp), len(RAISING_FOLDS)))


# A non-final sequence element that is a bare variable reference is dropped (simplify.c:139-141) even when the variable
# is an UNBOUND global.  R7RS 4.1.1 / 1.3.2: referencing an unbound variable "is an error" - an implementation is not
# required to detect it - so losing the error is permitted, while every other outcome is not: the statement has no
# other effect, the value of the sequence is that of its last element, and a reference in TAIL position must stay.
UNBOUND_STMT = [("(begin c09-unbound-a 5)", ["RES 5"]), ("((lambda (x) c09-unbound-b x) 7)", ["RES 7"]),
                ("((lambda (x) (out x) c09-unbound-c (out (+ x 1)) 'done) 1)", ["1", "2", "RES done"]),
                ("(begin 5 c09-unbound-d)", None), ("((lambda (x) (if x c09-unbound-e 1)) '#t)", None)]


def _unbound_part(ctx, dirs):
    text = OUTER_PRELUDE + "\n".join("(run-case %d (lambda () %s))" % (i, p) for i, (p, _) in enumerate(UNBOUND_STMT)) + "\n"
    for v, d in dirs.items():
        o = _split_cases(_run_file(d, text, "unbound-" + v).stdout)
        for i, (p, dropped) in enumerate(UNBOUND_STMT):
            got = o.get(i)
            ctx.count(1, key=("unbound", v, p), nontrivial=True)
            err = got is not None and got and got[-1] == "ERR" and (dropped is None or got[:-1] == dropped[:len(got) - 1])
            if not (err or (dropped is not None and got == dropped)):
                ctx.violation("simplify:unbound-reference-statement", input=p, variant=v, observed=got,
                              expected="an error from the unbound reference, or (reference in a non-final position only) %s" % dropped,
                              replay=_heredoc_replay(OUTER_PRELUDE + "(run-case 0 (lambda () %s))\n" % p, [d], "see expected"),
                              why="a dropped reference to an unbound global may lose the error (R7RS does not require it) but nothing else may change")
    ctx.assume("a non-final sequence element that references an UNBOUND global may be dropped by the pass: R7RS calls the reference 'an error' without requiring it to be signalled; "
               "the default build then continues where SEXP_USE_SIMPLIFY=0 raises (checked: no other outcome occurs, tail references are kept)")


def _registered_passes(ctx, dirs):
    """(round 3) which passes run between analysis and code generation in THIS build: the list sexp_global(ctx, SEXP_G_OPTIMIZATIONS)
    (eval.c sexp_load_standard_env registers sexp_simplify with priority 500 under SEXP_USE_SIMPLIFY; lib/chibi/optimize/{rest,profile}.scm
    call register-lambda-optimization! only when a program imports them) is printed by harness/embed_c09_opts.c right after the
    standard environment is loaded and after importing the libraries the generated programs use.  The model covers exactly
    [500:sexp_simplify] (and [] for SEXP_USE_SIMPLIFY=0): anything else fails closed."""
    src = os.path.join(HERE, "..", "harness", "embed_c09_opts.c")
    imports = "(import (scheme base) (scheme write) (scheme eval) (scheme file) (scheme load) (srfi 18) (chibi ast))"
    names = dict(default="default", nosimplify="nosimplify", customll="customll", both="nosimplify_customll")
    for v, d in sorted(dirs.items()):
        exe = os.path.join(d, "embed_c09_opts")
        try:
            B.cc_embed(d, src, exe, extra=[f for f in B.VARIANTS[names[v]].get("CPPFLAGS", "").split() if f.startswith("-DSEXP_USE_")])
        except B.BuildError as e:
            ctx.broken("table:registered-optimisations:" + v, "cannot compile the harness that lists the registered passes: %s" % str(e)[-600:])
            continue
        r = subprocess.run([exe, imports, "(import (chibi optimize))"], capture_output=True, text=True, env=B.chibi_env(d), timeout=120)
        lines = dict(l.split(":", 1) for l in r.stdout.split("\n") if ":" in l and not l.startswith("WARNING"))
        want = "" if v in ("nosimplify", "both") else " 500:sexp_simplify=sexp_simplify"
        got = {k: lines.get(k) for k in ("standard-env", imports, "(import (chibi optimize))")}
        ctx.count(1, key=("registered-passes", v), nontrivial=True)
        if r.returncode != 0 or any(g != want for g in got.values()):
            ctx.broken("table:registered-optimisations:" + v,
                       "build %s registers other optimisation passes than the model covers: expected '%s' at every moment, observed %s (rc=%s %s)" % (v, want.strip(), got, r.returncode, r.stderr[-300:]))
        else:
            ctx.note("registered optimisation passes, build %s: [%s] after sexp_load_standard_env, after importing the libraries the programs use, and after (import (chibi optimize)) "
                     "(lib/chibi/optimize/rest.scm and profile.scm register a pass only when imported; no library of the distribution imports them)" % (v, want.strip()))


def _foreign_programs(ctx):
    """(round 3) read-only reuse of the OUTPUT of the program generators of C03 (scoping / closure conversion: corpus, fixed call-protocol
    cases, capture / rest-parameter / forward-reference / top-level / chain / constants / tail-call families) and C05 (tail calls: loop
    programs over every tail context x callee shape, random spines): -> [(key, text of the top-level forms)]"""
    from props import C03 as K3, C05 as K5
    rng, q = ctx.rng, not ctx.thorough
    progs = list(K3.load_corpus()) + [(k, f) for k, f in K3.FIXED_CASES] + [("misc-" + k, f) for k, f in K3.MISC_CASES] + [(k, f) for k, f in K3.REDEFINE_READS_OLD]
    for fam in (lambda: K3.nary_family(), lambda: K3.rest_family(rng, 4 if q else None), lambda: K3.capture_pos_family(rng, 60 if q else None),
                lambda: K3.fwd_family(rng, 60 if q else None), lambda: K3.toplevel_family(rng, 60 if q else 1500), lambda: K3.chain_family(rng, 40 if q else None),
                lambda: K3.const_family(rng, quick=q), lambda: K3.argeval_family(), lambda: K3.tailcall_family()):
        try:
            progs += [(k, f) for k, f in fam()]
        except Exception as e:              # another builder's generator changed its interface: not this property's failure
            ctx.note("a C03 program family could not be reused (%s: %s)" % (type(e).__name__, e))
    out = [("C03:" + str(k), " ".join(K3.scm(f) for f in forms)) for k, forms in progs]
    for i in range(100 if q else 2000):
        g = K3.Gen(rng, derived=(i % 2 == 1))
        out.append(("C03:random-typed", " ".join(K3.scm(f) for f in g.program(rng.choice([2, 3, 4])))))
    try:
        tails = [c for c in K5.CONTEXTS if c[1]]
        cases = [([c], None, callee, "value") for c in K5.CONTEXTS for callee in K5.CALLEES + K5.TOPLET]
        for n, c in enumerate(tails):
            for sb in K5.SIBLINGS:
                if K5.compatible(c, sb):
                    cases.append(([c], [sb], K5.CALLEES[n % len(K5.CALLEES)], K5.EXITS[(n // 3) % len(K5.EXITS)]))
        for n in range(60 if q else 2000):
            cs = [rng.choice(tails) for _ in range(rng.choice([2, 2, 3, 4]))]
            sbs = [rng.choice([sb for sb in K5.SIBLINGS if K5.compatible(c, sb)]) for c in cs]
            cases.append((cs, sbs, rng.choice(K5.CALLEES if rng.random() < 0.7 else K5.TOPLET), rng.choice(K5.EXITS)))
        if q:
            cases = [cases[i] for i in sorted(rng.sample(range(len(cases)), min(len(cases), 400)))]
        for cs, sbs, callee, ek in cases:
            forms, _ = K5.loop_program(cs, callee, 5, False, sbs, ek)
            out.append(("C05:" + "+".join(c[0] for c in cs) + "/" + callee, " ".join(K3.scm(f) for f in forms)))
    except Exception as e:
        ctx.note("the C05 loop programs could not be reused (%s: %s)" % (type(e).__name__, e))
    seen, uniq = set(), []
    for k, t in out:
        if t not in seen:
            seen.add(t); uniq.append((k, t))
    return uniq


FOREIGN_PRELUDE = """(import (scheme base) (scheme write) (scheme read) (scheme eval) (only (meta) mutable-environment))
(define (run-prog n text)
  (write-string "CASE ") (write n) (newline)
  (let ((env (mutable-environment '(scheme base) '(scheme write) '(scheme cxr))) (p (open-input-string text)))   ; fresh and mutable: top-level defines allowed
    (guard (e (#t (write-string "ERR") (newline)))
      (let loop ((v (if #f #f)))
        (let ((form (read p)))
          (if (eof-object? form)
              (begin (write-string "RES ") (write v) (newline))
              (loop (eval form env))))))))
"""


def _foreign_part(ctx, dirs):
    """the programs of the C03 / C05 generators, each evaluated form by form in a fresh environment, under the four builds: printed output
    and result (or ERR) must be identical - build-variant equality on program shapes this property's own generator does not produce"""
    progs = _foreign_programs(ctx)
    esc = lambda t: t.replace("\\", "\\\\").replace('"', '\\"')
    text = FOREIGN_PRELUDE + "\n".join('(run-prog %d "%s")' % (i, esc(t)) for i, (_, t) in enumerate(progs)) + "\n"
    outs = {}
    for v, d in dirs.items():
        r = _run_file(d, text, "foreign-" + v)
        outs[v] = _split_cases(r.stdout)
        if len(outs[v]) != len(progs):
            ctx.broken("outer-correspondence:C09:foreign:" + v, "build %s ran %d of %d programs of the C03/C05 generators (rc=%s): %s" % (v, len(outs[v]), len(progs), r.returncode, r.stderr[-400:]))
    pairs = [(v, base, kind) for v, base, kind in [("default", "nosimplify", "simplify"), ("customll", "default", "customll"),
                                                    ("both", "nosimplify", "customll-without-simplify")] if v in outs and base in outs]
    nerr = 0
    for i, (k, t) in enumerate(progs):
        ctx.count(1, key=("foreign", t), nontrivial=True)
        ref = outs.get("nosimplify", {}).get(i)
        nerr += bool(ref) and ref[-1] == "ERR"
        for v, base, kind in pairs:
            if outs[v].get(i) != outs[base].get(i):
                ctx.violation("build-variant:%s-changes-output" % kind, input=t, family=k, expected=outs[base].get(i), observed=outs[v].get(i), variant=v, reference=base,
                              replay=_heredoc_replay(FOREIGN_PRELUDE + '(run-prog 0 "%s")\n' % esc(t), list(dirs.values()), "all builds must print the same"),
                              why="identical program text (a program of the %s generator, forms evaluated one by one in a fresh environment) prints different output under build variant %s than under %s" % (k.split(":")[0], v, base))
    ctx.note("programs of the C03 / C05 generators run under the four builds: %d (C03 %d, C05 %d); ending in an error (in every build alike): %d"
             % (len(progs), sum(1 for k, _ in progs if k.startswith("C03")), sum(1 for k, _ in progs if k.startswith("C05")), nerr))
    if progs:
        ctx.sample(dict(kind="outer-foreign", family=progs[0][0], program=progs[0][1], outputs={v: outs[v].get(0) for v in outs}))


def _opcode_table(ctx):
    """(G-lite) the set of opcodes the pass may fold = class SEXP_OPC_ARITHMETIC in opcodes.c; the model's is_arith says 0..5"""
    import re
    try:
        src = open(os.path.join(B.REPO, "opcodes.c")).read()
    except OSError as e:
        ctx.broken("table:arithmetic-opcode-class", "cannot read opcodes.c: %s" % e)
        return
    names = re.findall(r'_OP\(\s*SEXP_OPC_ARITHMETIC\s*,[^\n]*?"([^"]+)"', src)
    want = [k for k, v in sorted(OPCODES.items(), key=lambda kv: kv[1]) if v <= 5]
    if sorted(names) != sorted(want):
        ctx.broken("table:arithmetic-opcode-class", "opcodes.c flags %s as SEXP_OPC_ARITHMETIC (foldable by simplify.c:39); the model (Simplify.is_arith, prim_eval) knows %s" % (sorted(names), sorted(want)))
    m = re.search(r"sexp_opcode_class\(sexp_car\(app\)\)\s*==\s*(\w+)", open(os.path.join(B.REPO, "simplify.c")).read())
    if not m or m.group(1) != "SEXP_OPC_ARITHMETIC":
        ctx.broken("table:arithmetic-opcode-class", "simplify.c no longer restricts folding to class SEXP_OPC_ARITHMETIC (found %s)" % (m.group(1) if m else None))


def _simplify_part(ctx, exe, dirs):
    rng = ctx.rng
    _opcode_table(ctx)
    n = 500 if not ctx.thorough else 20000
    g = Gen(rng)
    progs = [g.program() for _ in range(n)]
    g3 = Gen(rng, rich=True)          # with rest parameters: outside the SPEC interpreters, inside the model of the pass
    progs += [g3.program() for _ in range(n // 4)]
    progs += [g.closure_program() for _ in range(n // 4)]      # closures / recursion: second SPEC interpreter (Sem2.eval2)
    # round 3: rest parameters called with several arities, pairs / vectors as values: third SPEC interpreter (Sem3.eval3)
    progs += [g3.data_program() for _ in range(n // 4)] + [g3.arity_program() for _ in range(n // 10)]
    FLAGCALL = "((lambda (f) (list (f 1 2) 20 (f 3 4 5) 30 (f 6 7 8 9) 10)) %s)"
    flaglams = sorted(set(Gen.REST_BODIES))
    flaglams = ["(lambda (a b . r) %s)" % b for b in flaglams] + [g3.restflag_lambda() for _ in range(n // 20)]
    progs += [FLAGCALL % l for l in flaglams]                  # the flagged procedures really called (SPEC + four builds)
    # corpus: minimised past disagreements and hand-written boundary programs run first
    cdir = os.path.join(HERE, "..", "corpus", "C09")
    corpus = []
    if os.path.isdir(cdir):
        for f in sorted(os.listdir(cdir)):
            if f.endswith(".scm"):
                corpus += [l.strip() for l in open(os.path.join(cdir, f)) if l.strip() and not l.startswith(";")]
    progs = corpus + progs
    flag_lo = len(progs)
    progs += flaglams                                           # bare lambdas: dumps + procedure flags (K-inner only)
    flagset = set(range(flag_lo, len(progs)))
    d0 = dirs["default"]
    # probe: the exact-arithmetic defect of C04 (most negative fixnum divided by the bignum 2^62, fix pending in
    # fixes/C04-quotient-min-fixnum-by-bignum.patch) also shows up as a difference between the SPEC interpreter and
    # every build; it gets its own narrow signature
    c04_minfix = False
    if "nosimplify" in dirs:
        pr = _run_file(dirs["nosimplify"], '(import (scheme base) (scheme write)) (write (list (quotient -4611686018427387904 4611686018427387904) (remainder -4611686018427387904 4611686018427387904)))', "probe")
        c04_minfix = pr.stdout.strip() != "(-1 0)"
        if c04_minfix:
            ctx.note("probe: (quotient/remainder -2^62 2^62) = %s in every build, Z says (-1 0): C04's defect (fixes/C04-quotient-min-fixnum-by-bignum.patch not applied to this tree)" % pr.stdout.strip())
    # ---------------------------------------------------------------- K-inner: analyze / optimize / dump
    htext = open(os.path.join(HERE, "..", "harness", "c09_simplify.scm")).read()
    before, after, dynobs, pflags = {}, {}, {}, {}
    # one chibi process per 1000 programs (a session of many thousand analyze/optimize calls is not what is under test);
    # if a process dies, the cases it did not finish are run again in a fresh process, and the death is reported
    CH, r = 1000, None
    for lo in range(0, len(progs), CH):
        todo = list(range(lo, min(lo + CH, len(progs))))
        for attempt in range(3):
            if not todo:
                break
            text = htext + "\n".join(("(c09-flag %d '%s)" % (i, progs[i])) if i in flagset else ("(c09-case %d '(lambda () %s))" % (i, progs[i])) for i in todo) + "\n"
            r = _run_file(d0, text, "inner")
            done = set()
            for line in r.stdout.split("\n"):
                f = line.split(" ")
                if len(f) > 2 and f[0].isdigit() and f[1] in ("A", "B"):
                    (before if f[1] == "A" else after)[int(f[0])] = f[2:]
                elif len(f) == 3 and f[0].isdigit() and f[1] == "F":
                    pflags[int(f[0])] = f[2]
                elif len(f) >= 2 and f[0].isdigit() and f[1] in ("H", "X"):
                    dynobs[int(f[0])] = f[1:]
                    done.add(int(f[0]))
            rest = [i for i in todo if i not in done]
            if isinstance(r.returncode, int) and r.returncode < 0 and rest and len(rest) < len(todo):
                keep = os.path.join(B.SCRATCH, "c09-crash-%d.scm" % todo[0])
                with open(keep, "w") as fh:
                    fh.write(text)
                ctx.violation("vm:crash-in-analyze-optimize-session", input="the dump harness (harness/c09_simplify.scm) followed by %d (c09-case ..) forms: %s" % (len(todo), keep),
                              expected="the process runs all cases", observed="chibi-scheme died with signal %d after case %d (%d of %d done); the remaining cases run in a fresh process" % (-r.returncode, max(done), len(done), len(todo)),
                              replay="LD_LIBRARY_PATH=%s CHIBI_IGNORE_SYSTEM_PATH=1 CHIBI_MODULE_PATH=%s/lib %s/chibi-scheme %s > /dev/null; echo $?   # heap-layout dependent: depends on the file's path and content" % (d0, d0, d0, keep),
                              why="the default build crashes while running a valid Scheme program.  Known cause (C02 defect 7, fixes/C02-analyze-opcode-arity-ref-root.patch): eval.c analyze keeps the fresh "
                                  "Ref of a wrong-arity opcode call - (quotient x), (remainder a b c): the generator emits them on purpose - in an unrooted C local while the arguments are analyzed; "
                                  "a collection in between sweeps it.  Not the simplification pass; gone once that patch is in the checked tree")
                todo = rest[1:] if attempt == 1 else rest       # second death on the same first case: skip that case
                continue
            break
    if r.returncode != 0 or len(after) != len(progs):
        ctx.broken("inner-correspondence:C09:simplify", "dump harness rc=%s, %d of %d cases: %s" % (r.returncode, len(after), len(progs), (r.stderr or r.stdout)[-600:]))
    for i in range(len(progs)):
        if i not in before:
            continue
        ctx.count(1, key=("innerDyn", progs[i]), nontrivial=("quotient" in progs[i] or "remainder" in progs[i] or "'q" in progs[i] or '"s' in progs[i]))
        # (A) the dynamic state of the compiling program: the model (fold_eval_unobservable) says no handler call during
        # the pass, the handler still installed afterwards (the probe reaches it), the parameter binding intact
        obs = dynobs.get(i)
        if obs != ["H", "p", "prm-ok"]:
            hreplay = _heredoc_replay(
                "(import (scheme base) (scheme write) (scheme eval))\n(define prm (make-parameter 0))\n"
                "(with-exception-handler\n  (lambda (e) (write-string \"HANDLER CALLED: \") (write (if (symbol? e) e 'error)) (newline) 0)\n"
                "  (lambda () (parameterize ((prm 1))\n    (eval '(lambda () %s) (environment '(scheme base)))\n"
                "    (write-string \"compiled\") (newline) (raise-continuable 'probe) (write (prm)) (newline))))\n" % progs[i],
                [d0] + ([dirs["nosimplify"]] if "nosimplify" in dirs else []), "must print exactly: compiled / HANDLER CALLED: probe / 1")
            if obs is None:
                pass            # the case produced no dump at all: reported above
            elif "h" in obs or obs[0] == "X":
                ctx.violation("simplify:fold-calls-user-handler", input="(with-exception-handler H (lambda () (eval '(lambda () %s) env)))" % progs[i],
                              expected="the handler H is not called while the code is compiled (nothing of it is executed): handler calls during the pass = []",
                              observed=("handler called %d time(s) during sexp_simplify; observed calls: %s" % (obs.count("h"), " ".join(obs[1:])) if obs[0] == "H" else
                                        "the handler was called during sexp_simplify and, when it returned, an exception escaped from the compilation"), replay=hreplay,
                              why="constant folding evaluates an application that raises with the program's own exception handler installed: "
                                  "code that is never executed has an observable effect (SEXP_USE_SIMPLIFY=0 never evaluates it); model: Kinded.fold_eval / fold_eval_unobservable")
            else:
                ctx.violation("simplify:fold-disturbs-dynamic-state", input="(with-exception-handler H (lambda () (parameterize ((p v)) (eval '(lambda () %s) env) (raise-continuable 'probe) (p))))" % progs[i],
                              expected="after compiling, the handler H is still installed (the probe reaches it) and (p) is still v: H p prm-ok",
                              observed=" ".join(obs), replay=hreplay,
                              why="the constant folder does not restore the exception handler / parameter bindings of the program that called eval (vm.c sexp_apply_no_err_handler)")
    reqs, idx, nms = [], [], {}
    for i in range(len(progs)):
        if i in before and i in after:
            nm = Names()
            try:
                a = to_model_tokens(before[i], nm); b = to_model_tokens(after[i], nm)
            except Exception as e:
                ctx.broken("inner-correspondence:C09:simplify", "cannot read the dump of case %d (%s): %s" % (i, progs[i], e))
                continue
            nms[i] = (nm, a, b)
            # the programs are analysed as (lambda () <program>); their meaning is that of calling the thunk
            # the pass ran under an installed handler (7) and a parameter binding: the model is asked under the same state
            # simplifyN = the kind-exact model with the code's pass order (Kinded2.ksimpN: an operator that only became a lambda gets the let handling)
            reqs += ["simplifyN 7:%d " % (i + 1) + " ".join(a), "run A 0 " + " ".join(a), "run A 0 " + " ".join(b), "wf " + " ".join(a),
                     "run2 400 A 0 " + " ".join(a), "run2 400 A 0 " + " ".join(b), "erased_agree - " + " ".join(a),
                     "run3 400 A 0 " + " ".join(a), "run3 400 A 0 " + " ".join(b), "becomes " + " ".join(a), "stableN " + " ".join(a),
                     "restflags " + " ".join(b)]
            idx.append(i)
    NREQ = 12
    mo = ctx.run_model(exe, reqs)
    sem, sem2_defined, sem3_defined, sem3_only, n_becomes, n_stale = {}, 0, 0, 0, 0, 0
    for k, i in enumerate(idx):
        nm, a, b = nms[i]
        m_simpl, m_run, m_run_opt, m_wf, m_run2, m_run2_opt, m_erased, m_run3, m_run3_opt, m_becomes, m_stable, m_rflags = mo[NREQ * k: NREQ * k + NREQ]
        if m_erased != "1":
            ctx.broken("theorem-instance:ksimplify_refines_simplify", "erase (ksimplify e) <> simplify (erase e) on %s" % progs[i])
        if m_stable != "1":
            ctx.broken("model:simpN-level-bound", "ksimpN (size e) differs from ksimpN (size e + 1), or erase does not commute with it, on %s" % progs[i])
        n_becomes += m_becomes == "1"
        specs = [(_spec_of(m_run, nm), _spec_of(m_run_opt, nm)), (_spec_of(m_run2, nm), _spec_of(m_run2_opt, nm)),
                 (_spec_of(m_run3, nm, True), _spec_of(m_run3_opt, nm, True))]
        agree = lambda x, y: x is None or y is None or (x[1] == y[1] and (x[0] is None or y[0] is None or x[0] == y[0]))
        if not agree(specs[0][0], specs[1][0]) or not agree(specs[1][0], specs[2][0]) or not agree(specs[0][0], specs[2][0]):
            ctx.broken("spec:interpreters-differ", "eval gives %s, eval2 gives %s, eval3 gives %s on %s" % (m_run, m_run2, m_run3, progs[i]))
        # the let-fragment interpreter decides where it is defined, else the one with closures, else the one with rest parameters and data
        spec, spec_opt = next(((x, y) for x, y in specs if x is not None), (None, None))
        sem2_defined += specs[1][0] is not None
        sem3_defined += specs[2][0] is not None
        sem3_only += specs[2][0] is not None and specs[1][0] is None and specs[0][0] is None
        sem[i] = (spec, nm)
        m_run, m_run_opt = ("V %s" % (spec,), "V %s" % (spec_opt,) if spec_opt is not None else "undefined (error / outside the interpreter)") if spec is not None else ("NONE", "NONE")
        # ---- unused-rest analysis (simplify.c:190-205) on the SIMPLIFIED lambda vs. the set-vars computed before the pass
        stale = [e for e in m_rflags.split()[1:] if e.endswith(":0:1")]
        n_stale += bool(stale)
        if i in flagset and i in pflags:
            ent = next((e.split(":") for e in m_rflags.split()[1:] if e.startswith("1:")), None)
            ctx.count(1, key=("restflag", progs[i]), nontrivial=True)
            if ent is None or not pflags[i].isdigit():
                ctx.broken("inner-correspondence:C09:rest-flags", "no procedure flags / no rest lambda for %s: %s / %s" % (progs[i], pflags[i], m_rflags))
            else:
                impl_unused = bool(int(pflags[i]) & 2)
                call = FLAGCALL % progs[i]
                rp = _heredoc_replay(OUTER_PRELUDE + "(run-case 0 (lambda () %s))\n" % call, [d0] + ([dirs["nosimplify"]] if "nosimplify" in dirs else []),
                                     "the two builds must print the same")
                if impl_unused and ent[1] == "0" and ent[2] == "1":
                    ctx.violation("rest:unused-rest-flag-with-boxed-rest-parameter", input=progs[i], analysed=" ".join(before[i]), optimized=" ".join(after[i]),
                                  expected="procedure flags without SEXP_PROC_UNUSED_REST: the rest parameter is in the lambda's set-vars, so the prologue boxes its stack slot (vm.c:699-707)",
                                  observed="procedure-flags = %s: flagged unused-rest; called with surplus arguments no rest slot exists and the prologue boxes a slot of the CALLER's frame" % pflags[i],
                                  replay=rp, why="the pass removed every assignment to the rest parameter (dead branch), sexp_rest_unused_p looks only at the simplified body, "
                                                 "the set-vars list dates from before the pass: model Rest.rest_unused (repaired analysis) vs rest_unused_old; fix fixes/C09-unused-rest-stale-set-vars.patch")
                elif impl_unused != (ent[1] == "1"):
                    ctx.broken("inner-correspondence:C09:rest-flags", "sexp_rest_unused_p on the simplified lambda: procedure-flags %s, model Rest.rest_unused says %s on %s (simplified: %s)" % (pflags[i], ent[1], progs[i], " ".join(after[i])))
        ctx.count(1, key=("innerB", progs[i]), nontrivial=(a != b))
        ctx.cov["traces_validated_against_impl"] += 1
        replay = "cat %s > /tmp/c09.scm; echo \"(c09-case 0 '(lambda () %s))\" >> /tmp/c09.scm; LD_LIBRARY_PATH=%s CHIBI_MODULE_PATH=%s/lib %s/chibi-scheme /tmp/c09.scm   # A = analysed, B = after sexp_simplify" % (
            os.path.join(HERE, "..", "harness", "c09_simplify.scm"), progs[i].replace('"', '\\"'), d0, d0, d0)
        if m_wf != "1":
            ctx.broken("inner-correspondence:C09:wf", "analysed program is not well-formed for the model (lambda-set-vars / lambda identities): %s" % progs[i])
        if m_simpl != " ".join(b):
            # decide with the SPEC: does the implementation's output still mean the same?
            if m_run.startswith("V") and m_run_opt != m_run and c04_minfix and "-4611686018427387904" in progs[i] and ("quotient" in progs[i] or "remainder" in progs[i]):
                ctx.violation("arith:min-fixnum-quotient-remainder-by-bignum", input=progs[i], expected="result/output %s" % m_run,
                              observed="the constant folder (which runs the VM) computed %s" % m_run_opt, replay=replay,
                              why="(quotient/remainder -2^62 2^62) is wrong in the VM itself (C04, fixes/C04-quotient-min-fixnum-by-bignum.patch); simplify folds with that value, so the optimised and unoptimised builds still agree")
            elif m_run.startswith("V") and m_run_opt != m_run:
                ctx.violation("simplify:changes-meaning", input=progs[i], analysed=" ".join(before[i]), optimized=" ".join(after[i]),
                              expected="result/output %s" % m_run, observed="the simplified AST evaluates (SPEC interpreter) to %s" % m_run_opt,
                              model_simplify=m_simpl, replay=replay,
                              why="sexp_simplify rewrote a program with a defined meaning into one with another meaning")
            else:
                ctx.broken("correspondence:simplify", "model of simplify.c and the implementation produce different ASTs (same meaning under the SPEC): %s model=%s impl=%s" % (progs[i], m_simpl, " ".join(b)))
        elif m_run.startswith("V") and m_run_opt != m_run:
            ctx.broken("theorem-instance:simplify_sound", "SPEC interpreter gives %s before and %s after the model's simplify on %s%s" % (
                m_run, m_run_opt, progs[i], " (an operator became a lambda: second pass, outside the proved level-0 model)" if m_becomes == "1" else ""))
    if idx:
        i = idx[min(len(idx) - 1, len(corpus))]
        ctx.sample(dict(kind="inner-simplify", program=progs[i], analysed=" ".join(before[i]), optimized=" ".join(after[i]), spec=str(sem[i][0])))
    # ---------------------------------------------------------------- K-outer: the same programs under the four builds
    g2 = Gen(rng, rich=True)
    rich = RICH + [g2.program() for _ in range(n // 2)] + [g2.arity_program() for _ in range(n // 10)]
    progs = progs[:flag_lo]          # the bare lambdas are not run (their call programs are)
    allp = progs + rich
    text = OUTER_PRELUDE + "\n".join("(run-case %d (lambda () %s))" % (i, p) for i, p in enumerate(allp)) + "\n"
    outs = {}
    for v, d in dirs.items():
        r = _run_file(d, text, "outer-" + v)
        outs[v] = _split_cases(r.stdout)
        if len(outs[v]) != len(allp):
            ctx.broken("outer-correspondence:C09:" + v, "build %s ran %d of %d programs (rc=%s): %s" % (v, len(outs[v]), len(allp), r.returncode, r.stderr[-400:]))
    pairs = [(v, base, kind) for v, base, kind in [("default", "nosimplify", "simplify"), ("customll", "default", "customll"),
                                                    ("both", "nosimplify", "customll-without-simplify")] if v in outs and base in outs]
    if "nosimplify" not in outs:
        ctx.broken("outer-correspondence:C09:nosimplify", "no SEXP_USE_SIMPLIFY=0 build to compare with")
    for i, p in enumerate(allp):
        ref = outs.get("nosimplify", {}).get(i)
        ctx.count(1, key=("outerB", p), nontrivial=True)
        replay = "printf '%%s' '%s(run-case 0 (lambda () %s))' > /tmp/c09o.scm; for d in %s; do echo $d; LD_LIBRARY_PATH=$d CHIBI_MODULE_PATH=$d/lib $d/chibi-scheme /tmp/c09o.scm; done" % (
            OUTER_PRELUDE.replace("'", "'\\''"), p.replace("'", "'\\''"), " ".join(dirs.values()))
        for v, base, kind in pairs:
            if outs[v].get(i) != outs[base].get(i):
                ctx.violation("build-variant:%s-changes-output" % kind, input=p, expected=outs[base].get(i), observed=outs[v].get(i), variant=v, reference=base,
                              replay=replay, why="identical program text prints different output under build variant %s than under %s" % (v, base))
        # against the SPEC interpreter where it defines the meaning
        if i < len(progs) and i in sem and sem[i][0] is not None and ref is not None and None not in sem[i][0][1]:
            (v, outl), nm = sem[i]
            exp = list(outl)
            exp.append("RES " + v if v is not None else None)
            got = list(ref)
            if exp[-1] is None and got and got[-1].startswith("RES"):
                exp, got = exp[:-1], got[:-1]
            if exp != got:
                if c04_minfix and "-4611686018427387904" in p and ("quotient" in p or "remainder" in p):
                    ctx.violation("arith:min-fixnum-quotient-remainder-by-bignum", input=p, expected=exp, observed=ref, replay=replay,
                                  why="all four builds agree with each other but not with Z: (quotient -2^62 2^62) is computed as 0 and the remainder as -2^62 "
                                      "(bignum.c sexp_quotient/sexp_remainder FIX_BIG case) - the defect C04 repairs in fixes/C04-quotient-min-fixnum-by-bignum.patch")
                else:
                    ctx.violation("sem:nosimplify-build-differs-from-spec", input=p, expected=exp, observed=ref, replay=replay,
                                  why="the unoptimised build prints something else than the SPEC interpreter (coq/C09/Simplify.v eval) defines")
    _handler_part(ctx, dirs)
    _unbound_part(ctx, dirs)
    _registered_passes(ctx, dirs)
    _foreign_part(ctx, dirs)
    ctx.sample(dict(kind="outer-variants", program=allp[len(progs)], outputs={v: outs[v].get(len(progs)) for v in outs}))
    ctx.note("programs whose meaning a SPEC interpreter defines: %d of %d (eval2, with closures: %d; eval3, with rest parameters and data: %d, of which only eval3: %d); "
             "programs in which an operator only BECAME a lambda (second pass, Simplify2.simpN): %d; programs with a rest parameter left in the set-vars without any assignment after the pass: %d"
             % (sum(1 for v in sem.values() if v[0] is not None), len(sem), sem2_defined, sem3_defined, sem3_only, n_becomes, n_stale))
    ctx.note("generator distribution (let-fragment programs): %s; rich programs: %d fixed + %s" % (g.stats, len(RICH), g2.stats))


def replay(ctx, data):
    """./check C09 --replay evidence/replay/C09-<n>.json : re-run the recorded shell commands of the failing cases"""
    rc = 0
    for c in data.get("failing_cases", []):
        cmd = c.get("replay")
        print("input   :", c.get("input"))
        print("expected:", c.get("expected"))
        print("observed:", c.get("observed", c.get("observed_customll")))
        if cmd:
            print("$", cmd)
            r = subprocess.run(cmd, shell=True, capture_output=True, text=True, timeout=600)
            print(r.stdout[-2000:] + r.stderr[-500:])
        rc = 1
    for u in data.get("no_longer_checks", []):
        print("no longer checks:", u.get("name"), "-", str(u.get("reason"))[:500])
        rc = 1
    return rc
