"""C15 — equal?/eqv?/hash coherence; hash tables are finite maps.
   (G)  gen/c15_consts.py: tags, FNV constants, bounds, resize rule + the exact shape of every statement the models mirror
   (T)  coq/Properties_C15.v
   (K-inner) harness/embed_c15.c: sexp_equalp_bound / equal? / eqv? / hash / string-hash on objects built with a CHOSEN
        representation (bignums with unused high words, strings inside larger / shared stores) vs the extracted models
   (K-outer A) pairs of values computed by different Scheme routes: equal?, core equal?, eqv?, hash, string-hash vs the spec
        (same abstract value) and vs the extracted hash model
   (K-outer B) operation histories on (srfi 69) tables (eq?/eqv?/equal?/string=?/user procedures): after EVERY operation
        size, bucket count, hash-table->alist in its exact order and the lookup of every key vs the extracted table model
        (exact layout) and vs the extracted association-list map (the spec); (srfi 125) histories vs the spec map.
   round 3: strings carved from ONE byte store (pairs + table key universes); results of arithmetic with bignum / ratio / flonum / complex
        operands against the literal (eqv?, equal?, hash, fixnum?, memv/assv/case, table keys); histories through every constructor form that
        chooses a hash function, every key object freshly computed; (G) gen/c15_opthash.py: the default-hash choice of opt-hash / make-hash-table."""
import os, struct, subprocess, json
from fractions import Fraction
from vlib import build as B, scm

MAXFIX = (1 << 62) - 1
B64 = 1 << 64
HERE = os.path.dirname(os.path.abspath(__file__))

# ------------------------------------------------------------------------------------------------ values
# a value is a nested tuple: ('int', n) ('flo', bits) ('str', bytes) ('bv', bytes) ('char', n) ('imm', name)
# ('pair', a, d) ('vec', (x, ...)) ('sym', name)
IMMS = {"#f": "IMM_FALSE", "#t": "IMM_TRUE", "()": "IMM_NULL"}
CHARS = [0x61, 0x62, 0x63, 0x7a, 0x30, 0x20, 0x3bb, 0x20ac, 0x1f600, 0xe9]


def is_fix(n):
    return -MAXFIX - 1 <= n <= MAXFIX


def flo_bits(x):
    return struct.unpack("<Q", struct.pack("<d", x))[0]


def vtype(v):
    return v[0]


def gen_int(rng):
    c = rng.random()
    if c < 0.3:
        n = rng.randrange(-20, 200)
    elif c < 0.45:
        n = rng.choice([MAXFIX, MAXFIX - 1, -MAXFIX - 1, -MAXFIX, MAXFIX + 1, -MAXFIX - 2, 1 << 62, 1 << 63, (1 << 64) - 1, 1 << 64, -(1 << 64)])
    else:
        bits = rng.choice([63, 64, 65, 100, 127, 128, 129, 200, 256, 300])
        n = rng.getrandbits(bits) | (1 << (bits - 1))
        if rng.random() < 0.3:   # zero / all-ones interior words
            w = rng.randrange(0, bits // 64 + 1)
            n = (n & ~((B64 - 1) << (64 * w))) if rng.random() < 0.5 else (n | ((B64 - 1) << (64 * w)))
            n |= 1 << (bits - 1)
        if rng.random() < 0.4:
            n = -n
    return ("int", n)


FLO_SPECIAL = [("0.0", 0.0), ("-0.0", -0.0), ("(- 0.0)", -0.0), ("+inf.0", float("inf")), ("-inf.0", float("-inf")),
               ("(expt 2. 100)", 2.0 ** 100), ("(inexact (expt 2 100))", 2.0 ** 100), ("(- (expt 2. 63))", -(2.0 ** 63)),
               ("(expt 2. 63)", 2.0 ** 63), ("(expt 2. 62)", 2.0 ** 62), ("(expt 2. -1030)", 2.0 ** -1030)]


def gen_flo(rng):
    if rng.random() < 0.3:
        return ("flo", flo_bits(rng.choice(FLO_SPECIAL)[1]))
    k = rng.randrange(-(1 << rng.choice([4, 12, 20])), 1 << rng.choice([4, 12, 20]))
    j = rng.randrange(0, 11)
    return ("flo", flo_bits(k / (1 << j)))


def gen_str(rng, maxlen=6):
    n = rng.choice([0, 1, 1, 2, 3, 3, 4, maxlen])
    return ("str", tuple(rng.choice(CHARS[:6] if rng.random() < 0.6 else CHARS) for _ in range(n)))


def gen_bv(rng):
    n = rng.choice([0, 1, 2, 3, 5, 8, 9])
    return ("bv", bytes(rng.choice([0, 1, 2, 97, 127, 128, 255, rng.randrange(256)]) for _ in range(n)))


def gen_leaf(rng):
    c = rng.random()
    if c < 0.3:
        return gen_int(rng)
    if c < 0.45:
        return gen_flo(rng)
    if c < 0.65:
        return gen_str(rng)
    if c < 0.75:
        return gen_bv(rng)
    if c < 0.85:
        return ("char", rng.choice(CHARS))
    return ("imm", rng.choice(list(IMMS)))


def gen_val(rng, depth=3):
    if depth <= 0 or rng.random() < 0.45:
        return gen_leaf(rng)
    if rng.random() < 0.5:
        # a list (chain of pairs) or a dotted pair
        n = rng.choice([1, 2, 3, 4, 7])
        tail = ("imm", "()") if rng.random() < 0.8 else gen_leaf(rng)
        for _ in range(n):
            tail = ("pair", gen_val(rng, depth - 1), tail)
        return tail
    n = rng.choice([0, 1, 2, 3, 4, 6])
    return ("vec", tuple(gen_val(rng, depth - 1) for _ in range(n)))


def mutate(v, rng):
    """a value that differs from v in one small place (or in representation-relevant ways)"""
    t = v[0]
    if t == "int":
        n = v[1]
        return ("int", rng.choice([n + 1, n - 1, -n if n else 1, n ^ (1 << rng.randrange(0, max(1, n.bit_length()))), n + (1 << 64), n << 64 if n else 5]))
    if t == "rat":
        f = Fraction(v[1], v[2])
        g = rng.choice([f + 1, -f, 1 / f, Fraction(v[1] + 1, v[2]), Fraction(v[1], v[2] + 1), f + Fraction(1, 1 << 64)])
        return mk_num(g) if g != f else ("int", 0)
    if t == "cpx":
        re, im = Fraction(*v[1]), Fraction(*v[2])
        re2, im2 = rng.choice([(re + 1, im), (re, -im), (re, im + 1), (im, re), (re, 0), (-re, im) if re else (re + 1, im)])
        if im2 == 0:
            return mk_num(re2)
        return ("cpx", (re2.numerator, re2.denominator), (im2.numerator, im2.denominator))
    if t == "flo":
        w = ("flo", v[1] ^ rng.choice([1, 1 << 63, 1 << 52]))
        return w if not has_nan(w) else ("flo", v[1] ^ (1 << 63))
    if t == "str":
        s = list(v[1])
        c = rng.random()
        if not s or c < 0.25:
            return ("str", tuple(s + [rng.choice(CHARS)]))
        if c < 0.5:
            return ("str", tuple(s[:-1]))
        i = rng.randrange(len(s))
        s[i] = rng.choice([x for x in CHARS if x != s[i]])
        return ("str", tuple(s))
    if t == "bv":
        b = bytearray(v[1])
        c = rng.random()
        if not b or c < 0.25:
            return ("bv", bytes(b) + bytes([rng.randrange(256)]))
        if c < 0.4:
            return ("bv", bytes(b[:-1]))
        i = len(b) - 1 if c < 0.7 else rng.randrange(len(b))     # the LAST byte most often
        b[i] ^= rng.choice([1, 128, 255])
        return ("bv", bytes(b))
    if t == "char":
        return ("char", rng.choice([x for x in CHARS if x != v[1]]))
    if t == "imm":
        return ("imm", rng.choice([x for x in IMMS if x != v[1]]))
    if t == "pair":
        if rng.random() < 0.5:
            return ("pair", mutate(v[1], rng), v[2])
        return ("pair", v[1], mutate(v[2], rng))
    if t == "vec":
        xs = list(v[1])
        c = rng.random()
        if not xs or c < 0.2:
            return ("vec", tuple(xs + [gen_leaf(rng)]))
        if c < 0.35:
            return ("vec", tuple(xs[:-1]))
        i = len(xs) - 1 if c < 0.6 else rng.randrange(len(xs))
        xs[i] = mutate(xs[i], rng)
        return ("vec", tuple(xs))
    return v


def depth_of(v):
    if v[0] == "pair":
        return max(1 + depth_of(v[1]), depth_of(v[2]))
    if v[0] == "vec":
        xs = v[1]
        if not xs:
            return 0
        return max([1 + depth_of(x) for x in xs[:-1]] + [depth_of(xs[-1])])
    return 0


def size_of(v):
    if v[0] == "pair":
        return 1 + size_of(v[1]) + size_of(v[2])
    if v[0] == "vec":
        return 1 + sum(size_of(x) for x in v[1])
    return 1


def has_nan(v):
    if v[0] == "flo":
        return (v[1] >> 52) & 0x7ff == 0x7ff and (v[1] & ((1 << 52) - 1)) != 0
    if v[0] == "pair":
        return has_nan(v[1]) or has_nan(v[2])
    if v[0] == "vec":
        return any(has_nan(x) for x in v[1])
    return False


# ------------------------------------------------------------------------------------------------ Scheme routes
def utf8(cps):
    return "".join(chr(c) for c in cps).encode("utf-8")


def chr_expr(c):
    return "(integer->char %d)" % c



# ---- exact ratios ('rat', p, q) (q > 1, lowest terms) and exact complex numbers ('cpx', (p, q), (p, q)) (imaginary part != 0):
# only used where no object token is needed (value pairs, constructor histories)
BIGS = [1 << 62, (1 << 62) + 1, (1 << 64) + 1, 3 ** 45, (1 << 100) - 1, 10 ** 25, (1 << 128)]


def fr_str(f):
    return str(Fraction(f))


def mk_num(f):
    f = Fraction(f)
    return ("int", f.numerator) if f.denominator == 1 else ("rat", f.numerator, f.denominator)


def gen_rat(rng):
    while True:
        q = rng.choice([2, 3, 7, 10, 360, (1 << 64) + 1, (1 << 70) + 1, 3 ** 45])
        p = rng.choice([1, -1, 5, rng.randrange(-1000, 1000), rng.getrandbits(70) + 1, -(rng.getrandbits(130) + 1)])
        f = Fraction(p, q)
        if f.denominator != 1:
            return ("rat", f.numerator, f.denominator)


def gen_cpx(rng):
    def part():
        c = rng.random()
        if c < 0.5:
            return Fraction(rng.randrange(-9, 10))
        if c < 0.75:
            return Fraction(rng.choice(BIGS) * rng.choice([1, -1]))
        g = gen_rat(rng)
        return Fraction(g[1], g[2])
    re, im = part(), part()
    if im == 0:
        im = Fraction(1)
    return ("cpx", (re.numerator, re.denominator), (im.numerator, im.denominator))


def cpx_str(re, im):
    re, im = Fraction(re), Fraction(im)
    if im == 0:
        return fr_str(re)
    return ("" if re == 0 else fr_str(re)) + ("+" if im > 0 else "-") + fr_str(abs(im)) + "i"


def gen_number(rng):
    c = rng.random()
    if c < 0.35:
        return gen_int(rng)
    if c < 0.55:
        return gen_flo(rng)
    if c < 0.85:
        return gen_rat(rng)
    return gen_cpx(rng)


def rat_expr(f, rng):
    p, q = f.numerator, f.denominator
    r = rng.random()
    if r < 0.15:
        return "%d/%d" % (p, q)
    if r < 0.35:
        k = rng.choice([2, 3, -5, 1 << 64, 10 ** 20])
        return "(/ %d %d)" % (k * p, k * q)
    if r < 0.55:
        x = Fraction(rng.randrange(-50, 50), rng.choice([q, 2, 3, (1 << 65) + 1]))
        return "(+ %s %s)" % (fr_str(x), fr_str(f - x))
    if r < 0.7:
        return "(* %d 1/%d)" % (p, q)
    if r < 0.85:
        x = Fraction(rng.choice(BIGS), rng.choice([1, 3, 7]))
        return "(- %s %s)" % (fr_str(f + x), fr_str(x))
    return '(string->number "%d/%d")' % (p, q)


def cpx_expr(re, im, rng):
    r = rng.random()
    if r < 0.2:
        return cpx_str(re, im)
    if r < 0.4:
        return "(make-rectangular %s %s)" % (fr_str(re), fr_str(im))
    if r < 0.6:
        return "(+ %s (* %s +i))" % (fr_str(re), fr_str(im))
    if r < 0.8:
        # (sums / differences of two complex LITERALS with bignum or ratio parts are avoided: in bulk they crash the pinned
        # interpreter in sexp_number_type, a GC-timing defect outside this property; see notes/C15.md round 3)
        return "(make-rectangular (+ %s 0) (* 1 %s))" % (fr_str(re), fr_str(im))
    if r < 0.9:
        return "(* %s 1)" % cpx_str(re, im)
    return '(string->number "%s")' % cpx_str(re, im)


def small_routes_all(n, rng):
    """routes to the fixnum-range integer n whose LAST operation has a bignum / ratio / exact-complex operand: the result
    must be the canonical fixnum whatever the route (zero, +-1, small, the +-2^62 boundary)"""
    Bg = rng.choice(BIGS)
    sg = 1 if n >= 0 else -1
    q = rng.choice([1, 2, 5, Bg])
    c = []
    if n == 0:
        c += ["(* 0 %d)" % Bg, "(* %d 0)" % Bg, "(* 0 %d)" % -Bg, "(* %d 0)" % -Bg, "(- %d %d)" % (Bg, Bg), "(+ %d %d)" % (Bg, -Bg),
              "(remainder %d %d)" % (Bg * 3, Bg), "(modulo %d %d)" % (-Bg * 2, Bg), "(quotient %d %d)" % (Bg - 1, Bg),
              "(- 1/%d 1/%d)" % (Bg, Bg), "(* 0 %d/3)" % (Bg * 3 + 1), "(* %d/3 0)" % (Bg * 3 + 1), "(lcm %d 0)" % Bg,
              "(- %s %s)" % (cpx_str(Bg, 1), cpx_str(Bg, 1)), "(* 0 %s)" % cpx_str(Bg, 1), "(arithmetic-shift %d %d)" % (Bg, -200),
              "(call-with-values (lambda () (exact-integer-sqrt %d)) (lambda (s r) r))" % (Bg * Bg),
              "(imag-part (* %s 1))" % cpx_str(Bg, 1) if False else "(- (* %d 1) %d)" % (Bg, Bg)]
    c += ["(quotient %d %d)" % (Bg * n + sg * rng.randrange(0, Bg), Bg),
          "(+ %d %d)" % (Bg + n, -Bg), "(- %d %d)" % (n - Bg, -Bg), "(- %d %d)" % (Bg + n, Bg),
          "(* %s %d)" % (fr_str(Fraction(n, Bg)), Bg), "(* %d %s)" % (Bg, fr_str(Fraction(n, Bg))),
          "(- (+ %d 1/2) 1/2)" % n, "(+ %s %s)" % (fr_str(Fraction(2 * n - 1, 2)), "1/2"),
          "(floor %d/2)" % (2 * n + 1), "(numerator (/ %d %d))" % (n * 3, 3) if n else "(numerator (/ 0 3))",
          "(- %s %s)" % (cpx_str(n, 5), cpx_str(0, 5)), "(+ %s %s)" % (cpx_str(n - Bg, 1), cpx_str(Bg, -1)),
          "(* -1 %d)" % -n, "(- %d)" % -n if n else "(- 0)"]
    if n >= 0:
        c += ["(remainder %d %d)" % (Bg * q + n, Bg), "(modulo %d %d)" % (Bg * rng.choice([1, -1, 7]) + n, Bg),
              "(arithmetic-shift %d -70)" % ((n << 70) | rng.getrandbits(70))]
        if n < Bg:
            c += ["(call-with-values (lambda () (exact-integer-sqrt %d)) (lambda (s r) r))" % (Bg * Bg + n)] if n <= 2 * Bg else []
    else:
        c += ["(remainder %d %d)" % (-(Bg * q) + n, Bg), "(modulo %d %d)" % (-(Bg * 3) + n, -Bg)] if -n < Bg else []
    if n != 0:
        c += ["(/ %d %d)" % (Bg * n, Bg), "(/ %d %d)" % (-Bg * n, -Bg), "(* +i %s)" % cpx_str(0, -n)]
    if n > 0:
        c += ["(gcd %d %d)" % (n * Bg, n * (Bg + 1)), "(abs %d)" % -n]
    if n == 1:
        c += ["(expt %d 0)" % Bg, "(quotient %d %d)" % (Bg, Bg), "(/ %d %d)" % (Bg, Bg), "(* 1/%d %d)" % (Bg, Bg), "(expt 1/%d 0)" % Bg,
              "(gcd %d %d)" % (Bg, Bg + 1), "(/ %s %s)" % (cpx_str(Bg, 1), cpx_str(Bg, 1)), "(denominator (/ %d 3))" % (Bg * 3)]
    if n == -1:
        c += ["(quotient %d %d)" % (Bg, -Bg), "(/ %d %d)" % (Bg, -Bg), "(* +i +i)"]
    if n == 2:
        c += ["(* %s %s)" % (cpx_str(1, 1), cpx_str(1, -1)), "(/ 1 (expt 1/2 1))", "(gcd %d 6)" % (1 << 70)]
    if abs(n) < (1 << 53):
        c += ["(exact %d.)" % n, "(exact (truncate %d.5))" % n if n > 0 else "(exact %d.)" % n]
    return c


def small_routes(n, rng):
    return rng.choice(small_routes_all(n, rng))


def number_expr(v, rng, C):
    if v[0] == "rat":
        return rat_expr(Fraction(v[1], v[2]), rng)
    if v[0] == "cpx":
        return cpx_expr(Fraction(*v[1]), Fraction(*v[2]), rng)
    return expr(v, rng, C)


def expr(v, rng, C):
    """a Scheme expression computing v along a randomly chosen route"""
    t = v[0]
    if t in ("rat", "cpx"):
        return number_expr(v, rng, C)
    if t == "int":
        n = v[1]
        r = rng.random()
        if not is_fix(n):
            if r < 0.2:
                return str(n)
            if r < 0.25:     # sign change / product by a unit (fixnum x bignum), the +-2^62 boundary coming from a fixnum
                c = ["(- %d)" % -n, "(* -1 %d)" % -n, "(* %d -1)" % -n, "(* 1 %d)" % n, "(abs %d)" % (-n if n > 0 else n) if n > 0 else "(- (abs %d))" % n]
                if n == MAXFIX + 1:
                    c += ["(+ %d 1)" % MAXFIX, "(abs %d)" % (-MAXFIX - 1), "(- %d)" % (-MAXFIX - 1), "(* 2 %d)" % (1 << 61), "(expt 2 62)", "(arithmetic-shift 1 62)"]
                if n == -MAXFIX - 2:
                    c += ["(- %d 1)" % (-MAXFIX - 1), "(- -1 %d)" % (MAXFIX + 1)]
                return rng.choice(c)
            k = n.bit_length() + rng.choice([1, 64, 130, 200])
            if r < 0.5:      # leaves unused high words in the result
                return "(- (expt 2 %d) (- (expt 2 %d) %d))" % (k, k, n)
            if r < 0.6:
                return "(+ (- %d (expt 2 %d)) (expt 2 %d))" % (n, k, k)
            if r < 0.7:
                m = rng.choice([3, 1 << 64, (1 << 70) + 1])
                return "(quotient (* %d %d) %d)" % (n, m, m)
            if r < 0.8 and n > 0:      # (right shifts of negative bignums are C17's subject)
                s = rng.choice([1, 63, 64, 65])
                return "(arithmetic-shift (arithmetic-shift %d %d) %d)" % (n, s, -s)
            if r < 0.9:
                return '(string->number "%d")' % n
            a = rng.randrange(0, abs(n))
            return "(+ %d %d)" % (a, n - a)
        if r < 0.3:
            return str(n)
        if r < 0.45:
            a = rng.randrange(-100, 100)
            return "(+ %d %d)" % (a, n - a)
        if r < 0.6:
            return small_routes(n, rng)
        if r < 0.8:
            k = rng.choice([62, 64, 70, 130])
            return "(- (+ %d (expt 2 %d)) (expt 2 %d))" % (n, k, k)
        return "(quotient (* %d %d) %d)" % (n, 1 << 64, 1 << 64)
    if t == "flo":
        bits = v[1]
        cands = [e for e, x in FLO_SPECIAL if flo_bits(x) == bits]
        if cands:
            return rng.choice(cands)
        x = struct.unpack("<d", struct.pack("<Q", bits))[0]
        if x != x:
            return "+nan.0"
        # long decimal literals are avoided on purpose (the reader's decimal->double conversion is C08's subject):
        # every route is exact arithmetic on exactly representable operands
        num, den = x.as_integer_ratio()
        k = den.bit_length() - 1
        r = rng.random()
        if k > 900 or r < 0.3:
            return "(* (inexact %d) (expt 2. %d))" % (num, -k)
        if r < 0.6:
            return "(/ (inexact %d) (inexact %d))" % (num, den)
        if r < 0.8:
            return "(inexact %d/%d)" % (num, den) if den != 1 else "(inexact %d)" % num
        return "(* 1. (/ (inexact %d) (inexact %d)))" % (num, den)
    if t == "str":
        cps = list(v[1])
        n = len(cps)
        r = rng.random()
        plain = all(c in (0x61, 0x62, 0x63, 0x7a, 0x30, 0x20) for c in cps)
        if r < 0.2 and plain:
            return '"%s"' % "".join(chr(c) for c in cps)
        if r < 0.3:
            return "(string %s)" % " ".join(chr_expr(c) for c in cps)
        if r < 0.4:
            k = rng.randrange(0, n + 1)
            return "(string-append (string %s) (string %s))" % (" ".join(chr_expr(c) for c in cps[:k]), " ".join(chr_expr(c) for c in cps[k:]))
        if r < 0.5:
            return "(list->string (list %s))" % " ".join(chr_expr(c) for c in cps)
        if r < 0.65:     # built by mutation (string-set! with chars of other widths reallocates the store)
            fill = rng.choice([0x78, 0x3bb, 0x1f600])
            sets = list(range(n))
            rng.shuffle(sets)
            return "(let ((s (make-string %d %s))) %s s)" % (n, chr_expr(fill), " ".join("(string-set! s %d %s)" % (i, chr_expr(cps[i])) for i in sets))
        if r < 0.75:
            pre, post = rng.randrange(0, 3), rng.randrange(0, 3)
            return "(string-copy (string %s) %d %d)" % (" ".join(chr_expr(c) for c in [0x51] * pre + cps + [0x52] * post), pre, pre + n)
        if r < 0.8:
            return "(utf8->string (bytevector %s))" % " ".join(str(b) for b in utf8(cps))
        # shares / oversizes the byte store: offset and store length differ from a literal's
        pre, post = rng.choice([0, 1, 2, 5]), rng.choice([0, 1, 3])
        bs = [0x50] * pre + list(utf8(cps)) + [0x51] * post
        return "(utf8->string! (bytevector %s) %d %d)" % (" ".join(str(b) for b in bs), pre, pre + len(utf8(cps)))
    if t == "bv":
        b = list(v[1])
        r = rng.random()
        if r < 0.3:
            return "(bytevector %s)" % " ".join(map(str, b))
        if r < 0.45:
            return "#u8(%s)" % " ".join(map(str, b))
        if r < 0.6:
            k = rng.randrange(0, len(b) + 1)
            return "(bytevector-append (bytevector %s) (bytevector %s))" % (" ".join(map(str, b[:k])), " ".join(map(str, b[k:])))
        if r < 0.8:
            pre, post = rng.randrange(0, 3), rng.randrange(0, 3)
            return "(bytevector-copy (bytevector %s) %d %d)" % (" ".join(map(str, [7] * pre + b + [9] * post)), pre, pre + len(b))
        return "(let ((b (make-bytevector %d 255))) %s b)" % (len(b), " ".join("(bytevector-u8-set! b %d %d)" % (i, x) for i, x in enumerate(b)))
    if t == "char":
        return chr_expr(v[1]) if rng.random() < 0.7 or v[1] > 0x7a or v[1] == 0x20 else "#\\%s" % chr(v[1])
    if t == "imm":
        return {"#f": "#f", "#t": "#t", "()": "'()"}[v[1]]
    if t == "sym":
        return "'%s" % v[1] if rng.random() < 0.5 else '(string->symbol "%s")' % v[1]
    if t == "pair":
        # list routes when it is a proper list
        items, tail = [], v
        while tail[0] == "pair":
            items.append(tail[1])
            tail = tail[2]
        if tail == ("imm", "()") and rng.random() < 0.6:
            r = rng.random()
            es = [expr(x, rng, C) for x in items]
            if r < 0.4:
                return "(list %s)" % " ".join(es)
            if r < 0.6:
                return "(reverse (list %s))" % " ".join(reversed(es))
            if r < 0.8:
                k = rng.randrange(0, len(es) + 1)
                return "(append (list %s) (list %s))" % (" ".join(es[:k]), " ".join(es[k:]))
            return "(vector->list (vector %s))" % " ".join(es)
        return "(cons %s %s)" % (expr(v[1], rng, C), expr(v[2], rng, C))
    if t == "vec":
        es = [expr(x, rng, C) for x in v[1]]
        r = rng.random()
        if r < 0.4:
            return "(vector %s)" % " ".join(es)
        if r < 0.7:
            return "(list->vector (list %s))" % " ".join(es)
        return "(let ((v (make-vector %d #f))) %s v)" % (len(es), " ".join("(vector-set! v %d %s)" % (i, e) for i, e in enumerate(es)))
    raise ValueError(v)


# ------------------------------------------------------------------------------------------------ model tokens
def words_of(n):
    ws = []
    n = abs(n)
    while True:
        ws.append(n & (B64 - 1))
        n >>= 64
        if not n:
            return ws


def token(v, C, rng=None):
    """the object description shared by the model driver and the embedding harness.  With rng: the
    representation is chosen at random among those that denote the same value (inner correspondence)."""
    t = v[0]
    if t == "int":
        n = v[1]
        if -MAXFIX - 1 <= n <= MAXFIX:
            return "i%x" % (((n << C["FIXNUM_BITS"]) + C["FIXNUM_TAG"]) % B64)
        ws = words_of(n) + ([0] * rng.choice([0, 0, 1, 2, 3]) if rng else [])
        return "b%s:%s" % ("-" if n < 0 else "+", ".".join("%x" % w for w in ws))
    if t == "flo":
        return "f%x" % v[1]
    if t == "str":
        b = utf8(v[1])
        if rng:
            pre, post = rng.choice([0, 0, 1, 2, 7]), rng.choice([0, 0, 1, 4])
            store = bytes(rng.randrange(1, 256) for _ in range(pre)) + b + bytes(rng.randrange(0, 256) for _ in range(post))
            return "s%d:%d:%s" % (pre, len(b), store.hex())
        return "s0:%d:%s" % (len(b), b.hex())
    if t == "bv":
        return "y" + v[1].hex()
    if t == "char":
        return "i%x" % ((v[1] << C["EXTENDED_BITS"]) + C["CHAR_TAG"])
    if t == "imm":
        return "i%x" % C[IMMS[v[1]]]
    if t == "pair":
        return "p,%s,%s" % (token(v[1], C, rng), token(v[2], C, rng))
    if t == "vec":
        return ",".join(["v%d" % len(v[1])] + [token(x, C, rng) for x in v[1]])
    raise ValueError(v)


def tokenable(v):
    """the object model (and so the token language) has no ratios / complex numbers / heap symbols"""
    if v[0] in ("sym", "rat", "cpx"):
        return False
    if v[0] == "pair":
        return tokenable(v[1]) and tokenable(v[2])
    if v[0] == "vec":
        return all(tokenable(x) for x in v[1])
    return True


def eqv_spec(a, b):
    """R7RS eqv? for two SEPARATELY constructed values; None = unspecified"""
    if a[0] in ("int", "flo", "char", "imm", "sym", "rat", "cpx"):
        return a == b
    if a[0] != b[0]:
        return False
    if a[0] in ("str", "bv", "vec") and len(a[1]) == 0 and len(b[1]) == 0:
        return None
    return False


# ------------------------------------------------------------------------------------------------ Scheme drivers
IMPORTS = """(import (srfi 69) (only (chibi io) utf8->string!) (rename (only (chibi) equal?) (equal? core-equal?))
        (only (chibi) slot-ref) (only (chibi ast) type-of) (only (srfi 151) arithmetic-shift)
        (prefix (only (srfi 125) make-hash-table hash-table-set! hash-table-delete! hash-table-ref/default hash-table-size
                      hash-table->alist hash-table-copy hash-table-update!/default hash-table-update!
                      alist->hash-table hash-table hash-table-unfold hash-table-empty-copy) h125:)
        (only (srfi 128) make-equal-comparator make-eqv-comparator make-eq-comparator make-comparator
              make-default-comparator default-comparator eq-comparator eqv-comparator equal-comparator
              string-comparator string-ci-comparator char-comparator char-ci-comparator real-comparator
              list-comparator vector-comparator make-pair-comparator)
        (prefix (only (srfi 128) string-hash) c128:))"""

PRELUDE = r"""
(define (c15-b x) (if x "1" "0"))
(define (c15-pair a b)
  (string-append (c15-b (equal? a b)) (c15-b (core-equal? a b)) (c15-b (eqv? a b)) (c15-b (equal? b a)) (c15-b (eqv? b a))
                 (c15-b (equal? a a)) (c15-b (eqv? b b)) " " (number->string (hash a) 16) " " (number->string (hash b) 16)
                 (if (and (string? a) (string? b))
                     (string-append " " (c15-b (string=? a b)) " " (number->string (string-hash a) 16) " " (number->string (string-hash b) 16)
                                    " " (number->string (string-hash a 23) 16) " " (number->string (hash a 23) 16))
                     "")))
(define (c15-hex n) (number->string n 16))
(define (c15-hist api ht0 keys ops)
  (let ((ht ht0) (other #f) (n (vector-length keys)) (out (open-output-string))
        (t-set! (vector-ref api 0)) (t-del! (vector-ref api 1)) (t-ref (vector-ref api 2)) (t-size (vector-ref api 3))
        (t-alist (vector-ref api 4)) (t-copy (vector-ref api 5)) (t-upd (vector-ref api 6)) (t-copy-aside (vector-ref api 7)))
    (define (kidx k) (let lp ((i 0)) (cond ((= i n) -1) ((eq? (vector-ref keys i) k) i) (else (lp (+ i 1))))))
    (define (dump1 ht)
      (write-string (c15-hex (t-size ht)) out)
      (write-string "/" out)
      (write-string (number->string (vector-length (slot-ref (type-of ht) ht 0))) out)
      (write-string "/" out)
      (let lp ((al (t-alist ht)) (first #t))
        (cond ((pair? al)
               (if (not first) (write-string "," out))
               (write-string (number->string (kidx (caar al))) out) (write-string ":" out) (write-string (c15-hex (cdar al)) out)
               (lp (cdr al) #f))))
      (write-string "/" out)
      (let lp ((i 0))
        (cond ((< i n)
               (if (> i 0) (write-string "," out))
               (let ((v (t-ref ht (vector-ref keys i) #f)))
                 (write-string (if v (c15-hex v) "-") out))
               (lp (+ i 1))))))
    (define (dump first?)
      (if (not first?) (write-string "|" out))
      (dump1 ht)
      (cond (other (write-string "&" out) (dump1 other))))
    (let lp ((ops ops) (first? #t))
      (cond ((pair? ops)
             (let ((o (car ops)))
               (case (car o)
                 ((s) (t-set! ht (vector-ref keys (cadr o)) (car (cddr o))))
                 ((d) (t-del! ht (vector-ref keys (cadr o))))
                 ((c) (set! other ht) (set! ht (t-copy ht)))
                 ((k) (set! other (t-copy-aside ht)))
                 ((x) (if other (let ((tmp ht)) (set! ht other) (set! other tmp))))
                 ((u) (t-upd ht (vector-ref keys (cadr o)) (lambda (x) (+ x 1)) (car (cddr o))))
                 ;; round 4: hash-table-update! with a default thunk; an update whose procedure / thunk raises; update! without default
                 ((U) ((vector-ref api 8) ht (vector-ref keys (cadr o)) (lambda (x) (+ x 1)) (let ((dflt (car (cddr o)))) (lambda () dflt))))
                 ((e) (guard (exn (#t #f))
                        (if (= 0 (car (cddr o)))
                            (t-upd ht (vector-ref keys (cadr o)) (lambda (x) (error "c15 procedure raises")) 0)
                            ((vector-ref api 8) ht (vector-ref keys (cadr o)) (lambda (x) (error "c15 procedure raises")) (lambda () (error "c15 thunk raises"))))))
                 ((E) (guard (exn (#t #f)) ((vector-ref api 8) ht (vector-ref keys (cadr o)) (lambda (x) (+ x 1)))))))
             (dump first?)
             (lp (cdr ops) #f))))
    (get-output-string out)))
;; ---- round 4: pointer level.  The real spine pairs of the bucket chains are numbered by identity before an operation
;; (bucket by bucket, front to back) and looked up again afterwards: "len;i=k:v,k:v;i=..~len;i=a:k:v,a:k:v;.." (a = -1: a new pair)
(define (c15-chains ht keys ops)
  (let ((n (vector-length keys)) (out (open-output-string)))
    (define (kidx k) (let lp ((i 0)) (cond ((= i n) -1) ((eq? (vector-ref keys i) k) i) (else (lp (+ i 1))))))
    (define (bvec) (slot-ref (type-of ht) ht 0))
    (define (snapshot)
      (let ((v (bvec)))
        (let lp ((i (- (vector-length v) 1)) (acc '()))
          (if (< i 0)
              (cons (vector-length v) acc)
              (lp (- i 1)
                  (if (pair? (vector-ref v i))
                      (cons (cons i (let sp ((p (vector-ref v i)) (a '()) (c 0))
                                      (if (and (pair? p) (< c 3000)) (sp (cdr p) (cons p a) (+ c 1)) (reverse a))))
                            acc)
                      acc))))))
    (define (show-cell c) (write-string (number->string (kidx (car c))) out) (write-string ":" out) (write-string (c15-hex (cdr c)) out))
    (define (addr-of p numbered) (let ((e (assq p numbered))) (if e (cdr e) -1)))
    (let lp ((ops ops) (first? #t))
      (cond ((pair? ops)
             (let* ((o (car ops)) (before (snapshot)) (numbered '()) (next 0))
               (if (not first?) (write-string "|" out))
               (write-string (number->string (car before)) out)
               (for-each (lambda (b)
                           (write-string ";" out) (write-string (number->string (car b)) out) (write-string "=" out)
                           (let cl ((ps (cdr b)) (f #t))
                             (cond ((pair? ps)
                                    (if (not f) (write-string "," out))
                                    (set! numbered (cons (cons (car ps) next) numbered)) (set! next (+ next 1))
                                    (show-cell (car (car ps)))
                                    (cl (cdr ps) #f)))))
                         (cdr before))
               (case (car o)
                 ((s) (hash-table-set! ht (vector-ref keys (cadr o)) (car (cddr o))))
                 ((d) (hash-table-delete! ht (vector-ref keys (cadr o)))))
               (let ((after (snapshot)))
                 (write-string "~" out)
                 (write-string (number->string (car after)) out)
                 (for-each (lambda (b)
                             (write-string ";" out) (write-string (number->string (car b)) out) (write-string "=" out)
                             (let cl ((ps (cdr b)) (f #t))
                               (cond ((pair? ps)
                                      (if (not f) (write-string "," out))
                                      (write-string (number->string (addr-of (car ps) numbered)) out) (write-string ":" out)
                                      (show-cell (car (car ps)))
                                      (cl (cdr ps) #f)))))
                           (cdr after))))
             (lp (cdr ops) #f))))
    (get-output-string out)))
(define c15-api69 (vector hash-table-set! hash-table-delete! hash-table-ref/default hash-table-size hash-table->alist hash-table-copy hash-table-update!/default
                          hash-table-copy hash-table-update!))
;; (srfi 125): the copy the history continues on is the mutable variant, the copy kept aside the immutable one
(define c15-api125 (vector h125:hash-table-set! h125:hash-table-delete! h125:hash-table-ref/default h125:hash-table-size h125:hash-table->alist
                           (lambda (t) (h125:hash-table-copy t #t)) h125:hash-table-update!/default
                           (lambda (t) (h125:hash-table-copy t)) h125:hash-table-update!))
;; ---- round 3: results of arithmetic with a bignum / ratio / flonum / complex operand against the literal of the same value
(define (c15-tab r lit t)
  (hash-table-set! t lit 1) (hash-table-set! t r 2)
  (c15-b (and (= (hash-table-size t) 1) (eqv? (hash-table-ref/default t lit #f) 2) (eqv? (hash-table-ref/default t r #f) 2))))
(define (c15-tab125 r lit t)
  (h125:hash-table-set! t lit 1) (h125:hash-table-set! t r 2)
  (c15-b (and (= (h125:hash-table-size t) 1) (eqv? (h125:hash-table-ref/default t lit #f) 2) (eqv? (h125:hash-table-ref/default t r #f) 2))))
(define (c15-num r lit)
  (string-append
   (c15-b (eqv? r lit)) (c15-b (eqv? lit r)) (c15-b (equal? r lit)) (c15-b (core-equal? r lit))
   (c15-b (= (hash r) (hash lit))) (c15-b (eq? (fixnum? r) (fixnum? lit)))
   (c15-b (and (memv r (list 'x lit)) #t)) (c15-b (and (assv r (list (cons 'x 0) (cons lit 1))) #t))
   (c15-b (and (member r (list 'x lit)) #t)) (c15-b (= r lit))
   (c15-tab r lit (make-hash-table eqv?)) (c15-tab r lit (make-hash-table equal?)) (c15-tab r lit (make-hash-table))
   (c15-tab r lit (make-hash-table =))
   (c15-tab125 r lit (h125:make-hash-table eqv?)) (c15-tab125 r lit (h125:make-hash-table (make-eqv-comparator)))
   (c15-tab125 r lit (h125:make-hash-table (make-default-comparator))) (c15-tab125 r lit (h125:make-hash-table = hash))))
;; ---- round 3: histories in which EVERY key is a freshly computed object (routes = vector, per key, of vectors of thunks)
(define (c15-fill t-set! t al) (for-each (lambda (p) (t-set! t (car p) (cdr p))) al) t)
(define (c15-flat al) (if (null? al) '() (cons (caar al) (cons (cdar al) (c15-flat (cdr al))))))
(define (c15-fresh api mk routes init ops)
  (let* ((n (vector-length routes)) (rc 0) (out (open-output-string)) (other #f)
         (t-set! (vector-ref api 0)) (t-del! (vector-ref api 1)) (t-ref (vector-ref api 2)) (t-size (vector-ref api 3))
         (t-alist (vector-ref api 4)) (t-copy (vector-ref api 5)) (t-upd (vector-ref api 6)) (t-copy-aside (vector-ref api 7)))
    (define (key i)
      (let ((rs (vector-ref routes i)))
        (set! rc (+ rc 1))
        ((vector-ref rs (modulo rc (vector-length rs))))))
    (define ids (let ((v (make-vector n #f))) (do ((i 0 (+ i 1))) ((= i n) v) (vector-set! v i ((vector-ref (vector-ref routes i) 0))))))
    (define (kidx k) (let lp ((i 0)) (cond ((= i n) -1) ((equal? (vector-ref ids i) k) i) (else (lp (+ i 1))))))
    (define (dump1 ht)
      (write-string (c15-hex (t-size ht)) out)
      (write-string "/0/" out)
      (let lp ((al (t-alist ht)) (first #t))
        (cond ((pair? al)
               (if (not first) (write-string "," out))
               (write-string (number->string (kidx (caar al))) out) (write-string ":" out) (write-string (c15-hex (cdar al)) out)
               (lp (cdr al) #f))))
      (write-string "/" out)
      (let lp ((i 0))
        (cond ((< i n)
               (if (> i 0) (write-string "," out))
               (let ((v (t-ref ht (key i) #f)))
                 (write-string (if v (c15-hex v) "-") out))
               (lp (+ i 1))))))
    (let ((ht (mk (map (lambda (p) (cons (key (car p)) (cdr p))) init))))
      (let lp ((ops ops) (first? #t))
        (cond ((pair? ops)
               (let ((o (car ops)))
                 (case (car o)
                   ((s) (t-set! ht (key (cadr o)) (car (cddr o))))
                   ((d) (t-del! ht (key (cadr o))))
                   ((c) (set! other ht) (set! ht (t-copy ht)))
                   ((k) (set! other (t-copy-aside ht)))
                   ((x) (if other (let ((tmp ht)) (set! ht other) (set! other tmp))))
                   ((u) (t-upd ht (key (cadr o)) (lambda (x) (+ x 1)) (car (cddr o))))))
               (if (not first?) (write-string "|" out))
               (dump1 ht)
               (cond (other (write-string "&" out) (dump1 other)))
               (lp (cdr ops) #f))))
      (get-output-string out))))
"""

KINDS = {
    0: ("eq?", "(make-hash-table eq?)"),
    1: ("eqv?", "(make-hash-table eqv?)"),
    2: ("equal?", None),    # chosen per history: default table (built-in path) or (make-hash-table equal?) (procedure path)
    3: ("string=?", "(make-hash-table string=? string-hash)"),
    4: ("user-mod7", "(make-hash-table (lambda (a b) (= (modulo a 7) (modulo b 7))) (lambda (k n) (+ (modulo k 7) 20)))"),
    5: ("user-weak3", "(make-hash-table (lambda (a b) (= (modulo a 41) (modulo b 41))) (lambda (k n) (* 5 (modulo (modulo k 41) 3))))"),
}
KINDS125 = {
    0: "(h125:make-hash-table (make-eq-comparator))",
    1: "(h125:make-hash-table (make-eqv-comparator))",
    2: "(h125:make-hash-table (make-equal-comparator))",
    3: "(h125:make-hash-table string=? c128:string-hash)",
    4: "(h125:make-hash-table (make-comparator integer? (lambda (a b) (= (modulo a 7) (modulo b 7))) #f (lambda (k) (modulo k 7))))",
    5: "(h125:make-hash-table (make-comparator integer? (lambda (a b) (= (modulo a 41) (modulo b 41))) #f (lambda (k) (* 5 (modulo (modulo k 41) 3)))))",
}


def unquote(s):
    if s is not None and len(s) >= 2 and s[0] == '"' and s[-1] == '"':
        return s[1:-1]
    return s


# ------------------------------------------------------------------------------------------------ the check
def run(ctx):
    rng = ctx.rng
    T = ctx.thorough
    ctx.cov["rule"] = (
        "inner: pairs (value, same value in another representation | value mutated in one place | unrelated value) built in C with chosen "
        "representations (bignum + 0..3 unused high words, strings at offsets 0..7 inside larger stores, unshared pairs/vectors to depth 3), "
        "requests eqb(depth,bound incl. exhausted limits)/equal/eqv/hash/string-hash, harness vs extracted model, exact (incl. the remaining bound); "
        "outer A: the same three pair classes computed along random Scheme routes (arithmetic paths leaving spare words, string mutation / "
        "utf8->string! offsets / copies, list/vector constructors), 7 predicates + hash values per pair vs the spec (same abstract value) and the "
        "extracted hash model; outer B: histories (quick <= 120 ops, some 500; key universes with equivalent-but-distinct keys; set/delete/update/copy) "
        "on 5 kinds of (srfi 69) tables, after every op size/bucket count/alist order/all lookups vs the extracted table model and the extracted "
        "association-list spec; (srfi 125) histories vs the spec; a copy keeps BOTH tables, followed by set!/update!/delete of present keys on either, both dumped after every op.  "
        "graphs: rooted graphs with sharing and cycles (templates + random) built node by node in Scheme from the description the extracted model gets: a bisimilar "
        "variant and every single-position mutant (car/cdr, each vector slot, length, leaf bytes, one-sided sharing), DAGs with 2^16 unfolding, 20000-element lists; "
        "(scheme base) equal? both orders + equal?/bounded vs bisim_dec (SPEC) and vs the regenerated equiv?.  "
        "round 3: string pairs carved from one bytevector at different offsets (equal / different contents, half colliding in one of the 23 buckets); "
        "~35 computation routes per target 0, +-1, small, +-2^62 boundary whose last operation has a bignum/ratio/complex/flonum operand, result vs literal under 19 predicates; "
        "histories over 244 constructor forms of (srfi 69)/(srfi 125) (default hash by equivalence, explicit hash, comparators; alist->, hash-table, unfold, copy, empty-copy) "
        "with three rotating computation routes per key so that no key object is passed twice, vs the association-list SPEC.  "
        "non-trivial = pair with a heap object / history with >= 1 regrow / graph case answered by equiv.scm (bounded pass gave up); distinct by canonical input")
    # (G)
    d = ctx.build("default")
    from gen import c15_consts, c15_equiv, c15_opthash
    equiv_ok = c15_equiv.regen(ctx, B.REPO)
    c15_opthash.regen(ctx, B.REPO)
    try:
        C, shape_errs = c15_consts.regen(ctx, d)
    except Exception as e:
        ctx.broken("gen:C15_Consts", "constants cannot be regenerated from the source: %s" % e)
        return
    UPDATE_FIXED[0] = bool(C.get("UPDATE_FIXED"))
    if not UPDATE_FIXED[0]:
        ctx.note("F-C15-5 present in this tree: a hash-table-update!(/default) whose procedure / thunk raises (or update! of an absent key without default) leaves a "
                 "phantom entry key -> (not-found); failing updates are NOT generated until fixes/C15-update-failure-phantom-entry.patch is applied")
    # (T)
    ctx.coq_obligations("Properties_C15")
    exe = ctx.extract("C15")
    if exe is None:
        return
    emb = B.cc_embed(d, os.path.join(HERE, "..", "harness", "embed_c15.c"), os.path.join(d, "embed_c15"))
    import time
    t0 = time.time()
    # the C-level correspondence first: it needs no Scheme driver (a badly broken equal? stops the driver from loading)
    inner(ctx, d, exe, emb, C, 1500 if not T else 100000)
    t1 = time.time()
    probe = scm.run_cases(d, ["(c15-pair 1 1)"], prelude_extra=PRELUDE, imports=IMPORTS, timeout=120)
    if not probe or unquote(probe[0]) is None or not unquote(probe[0]).startswith("1111111 "):
        ctx.broken("scheme-driver", "the Scheme driver prelude does not run: %s" % (probe[0] if probe else None))
        for e in shape_errs:
            ctx.broken("source-shape", e)
        return
    corpus_first(ctx, d, exe, emb, C)
    outer_pairs(ctx, d, exe, C, 1000 if not T else 50000)
    outer_cycles(ctx, d, 60 if not T else 2000)
    shared_strings(ctx, d, exe, C, 60 if not T else 1500)
    arith_results(ctx, d, 1 if not T else 12)
    graphs(ctx, d, exe, C, *((2, 40, [20000]) if not T else (12, 1500, [10001, 20000, 50000])))
    t2 = time.time()
    histories(ctx, d, exe, C, (100, 8) if not T else (1100, 60))
    chains(ctx, d, exe, C, 30 if not T else 600)
    t3 = time.time()
    ctor_histories(ctx, d, exe, C, *((2, 1.0) if not T else (8, 1.0)))
    ctx.note("wall: constructor histories %.0fs" % (time.time() - t3))
    ctx.note("wall: inner %.0fs, outer pairs+cycles %.0fs, histories %.0fs" % (t1 - t0, t2 - t1, time.time() - t2))
    for e in shape_errs:
        ctx.broken("source-shape", e)
    if T:
        # independent re-check of the compiled proofs
        from vlib import core
        with core.CoqLock(files=[os.path.join(core.COQ, "Properties_C15.v")]):
            r = core.sh("timeout 900 coqchk -silent -o -Q . ChibiV ChibiV.Properties_C15", cwd=core.COQ)
        ok = r.returncode == 0 and "* Axioms: <none>" in (r.stdout + r.stderr)
        ctx.checker_cmds.append("cd coq && coqchk -silent -o -Q . ChibiV ChibiV.Properties_C15")
        if ok:
            ctx.note("coqchk: Properties_C15 closure re-checked, axioms <none>")
        else:
            ctx.broken("coqchk", "coqchk does not accept the compiled closure of Properties_C15: %s" % (r.stdout + r.stderr)[-800:])
    ctx.assume("the bounded C pass on data with SHARING is not modelled: the theorems about (scheme base) equal? on graphs assume its definite answers are sound (bounded_sound), which is checked on every generated graph case and PROVED for unshared data of any size/depth (equal_bound_sound, slow_path_bounded_pass_sound); hash of cyclic data is only tested")
    ctx.assume("the core equal? primitive of (chibi) answers #t at its depth cut-off (bound 10^8 > depth 10000) for data differing below 10000 depth-consuming levels (core_equal_depth_cutoff_refuted, F-C15-4): member/assoc/default tables inherit it; the check exercises the primitive only inside its limits")
    ctx.trust("gen/c15_opthash.py: the callers of opt-hash in lib/srfi/125/hash.scm are pinned by exact text; string-ci=? / the hash functions of the non-basic (srfi 128) comparators are only tested, not modelled")
    ctx.trust("gen/c15_equiv.py: get-equivs, merge! and the result line of lib/chibi/equiv.scm are modelled by hand behind an exact-text check; the inner equiv? is translated")
    ctx.assume("hash-by-identity of heap objects (addresses) is not modelled: eq?-tables with heap keys are compared with the spec map only, not with the table model's layout")
    ctx.assume("the comparison/hash procedures given to make-hash-table do not mutate the table and are total; a user hash function is only required to respect the equivalence")
    ctx.assume("(sexp_sint_t) of a double is modelled as x86-64 cvttsd2si (C leaves out-of-range conversions undefined)")
    ctx.trust("the Python spec oracle of props/C15.py (abstract value = nested tuple; equal = same tuple; eqv per R7RS 6.1)")


def corpus_first(ctx, d, exe, emb, C):
    """minimised past disagreements: each line `inner <request>` or `pair <exprA> ;; <exprB> ;; <expected-equal 0|1>`"""
    cdir = os.path.join(HERE, "..", "corpus", "C15")
    if not os.path.isdir(cdir):
        return
    reqs, pairs = [], []
    for f in sorted(os.listdir(cdir)):
        for line in open(os.path.join(cdir, f)):
            line = line.strip()
            if line.startswith("inner "):
                reqs.append(line[6:])
            elif line.startswith("pair "):
                a, b, e = [x.strip() for x in line[5:].split(";;")]
                pairs.append((a, b, e))
    if reqs:
        mo = ctx.run_model(exe, reqs)
        io = run_harness(d, emb, reqs)
        for q, m, i in zip(reqs, mo, io):
            ctx.count(1, key=("corpus", q))
            if m != i:
                ctx.violation("corpus:inner", input=q, expected=m, observed=i, replay=replay_inner(d, emb, q))
    if pairs:
        out = scm.run_cases(d, ["(c15-pair %s %s)" % (a, b) for a, b, e in pairs], prelude_extra=PRELUDE, imports=IMPORTS, max_dead=3)
        for (a, b, e), o in zip(pairs, out):
            o = unquote(o) or ""
            ctx.count(1, key=("corpus", a, b))
            f = o.split(" ")
            ok = len(f) >= 3 and f[0][:2] == e * 2 and (e == "0" or f[1] == f[2])
            if not ok:
                ctx.violation("corpus:pair", input="%s vs %s" % (a, b), expected="equal?=%s and equal hashes when equal" % e, observed=o,
                              replay=replay_scm("(c15-pair %s %s)" % (a, b)))


def run_harness(d, emb, reqs):
    r = subprocess.run([emb], input="\n".join(reqs) + "\n", capture_output=True, text=True, env=B.chibi_env(d), timeout=1200)
    out = r.stdout.split("\n")
    if r.returncode != 0 or len(out) < len(reqs):
        out = out[:-1] if out and out[-1] == "" else out
        out += ["CRASH rc=%s %s" % (r.returncode, r.stderr[-200:].replace("\n", " | "))] * (len(reqs) - len(out))
    return out


def replay_inner(d, emb, q):
    return "echo '%s' | LD_LIBRARY_PATH=%s CHIBI_MODULE_PATH=%s/lib CHIBI_IGNORE_SYSTEM_PATH=1 %s" % (q, d, d, emb)


def replay_scm(e):
    return scm.PRELUDE + IMPORTS + PRELUDE + "\n(write %s)(newline)" % e


def pick_pair(rng, depth=3, tower=False):
    v = gen_val(rng, depth)
    if tower and rng.random() < 0.12:
        v = rng.choice([gen_rat, gen_cpx])(rng)
        if rng.random() < 0.3:
            v = ("vec", (("int", 1), v)) if rng.random() < 0.5 else ("pair", v, ("imm", "()"))
    c = rng.random()
    if c < 0.5:
        return v, v, "same"
    if c < 0.9:
        return v, mutate(v, rng), "mutated"
    return v, gen_val(rng, depth), "other"


# ------------------------------------------------------------------------------------------------ K-inner
def inner(ctx, d, exe, emb, C, n):
    rng = ctx.rng
    reqs, meta = [], []
    LIMS = [(10000, 10000), (10000, 10000), (2, 100), (100, 3), (0, 0), (1, 1), (5, 5), (0, 50), (3, 7)]
    for _ in range(n):
        a, b, cls = pick_pair(rng)
        ta, tb = token(a, C, rng), token(b, C, rng)
        dep, bd = rng.choice(LIMS)
        group = ["equal %s %s" % (ta, tb), "eqb %s %s %x %x" % (ta, tb, dep, bd), "eqv %s %s" % (ta, tb),
                 "hash %s %x" % (ta, MAXFIX), "hash %s %x" % (tb, MAXFIX), "hash %s %x" % (ta, rng.choice([23, 46, 92, 1, 1472]))]
        if a[0] == "str":
            group.append("shash %s %x" % (ta, rng.choice([23, 46, MAXFIX])))
            if b[0] == "str":
                group.append("shash %s %x" % (tb, MAXFIX))
        for g in group:
            reqs.append(g)
            meta.append((a, b, cls, len(group), dep, bd))
    mo = ctx.run_model(exe, reqs)
    io = run_harness(d, emb, reqs)
    i = 0
    while i < len(reqs):
        a, b, cls, glen, dep, bd = meta[i]
        same = a == b
        nt = a[0] not in ("char", "imm") and not (a[0] == "int" and is_fix(a[1]))
        ctx.count(glen, key=(reqs[i], reqs[i + 1]), nontrivial=nt)
        ctx.cov["traces_validated_against_impl"] += glen
        g_i, g_m, g_q = io[i:i + glen], mo[i:i + glen], reqs[i:i + glen]
        typ = a[0]
        # the property itself, judged against the spec
        if g_i[0] in ("0", "1") and (g_i[0] == "1") != same:
            ctx.violation("equal?:%s:%s" % (typ, "false-negative" if same else "false-positive"), input=g_q[0], expected="1" if same else "0",
                          observed=g_i[0], model=g_m[0], replay=replay_inner(d, emb, g_q[0]))
        elif g_i[0] == "1" and g_i[3] != g_i[4]:
            ctx.violation("hash-respects-equal:%s" % typ, input=g_q[3] + " / " + g_q[4], expected="equal hashes for equal? objects",
                          observed="%s / %s" % (g_i[3], g_i[4]), replay=replay_inner(d, emb, g_q[3]) + " ; " + replay_inner(d, emb, g_q[4]))
        elif (g_i[2] == "1") != (same and typ in ("int", "flo", "char", "imm")) and not has_nan(a) and eqv_spec(a, b) is not None and g_i[2] in ("0", "1"):
            ctx.violation("eqv?:%s" % typ, input=g_q[2], expected="1" if same else "0", observed=g_i[2], replay=replay_inner(d, emb, g_q[2]))
        else:
            # bounded comparison: with ample limits it must agree with the spec too
            ample = dep >= depth_of(a) + 1 and bd >= size_of(a) + size_of(b) + 2
            if ample and g_i[1][:1] in ("F", "B") and (g_i[1][0] == "B") != same:
                ctx.violation("equal?/bounded:%s" % typ, input=g_q[1], expected="B.." if same else "F", observed=g_i[1], replay=replay_inner(d, emb, g_q[1]))
            else:
                for q, m, o in zip(g_q, g_m, g_i):
                    if m != o:
                        ctx.broken("correspondence:" + q.split()[0], "model and C differ, property not shown violated on this input: %s model=%s impl=%s" % (q, m, o))
                        break
        i += glen
    # string=? / string-hash coherence on the strings generated above (same content, different store/offset)
    sreq, smeta = [], []
    for _ in range(max(50, n // 20)):
        s = gen_str(rng)
        t1, t2 = token(s, C, rng), token(s, C, rng)
        bd = rng.choice([23, 46, MAXFIX])
        sreq += ["shash %s %x" % (t1, bd), "shash %s %x" % (t2, bd)]
        smeta.append(s)
    so = run_harness(d, emb, sreq)
    sm = ctx.run_model(exe, sreq)
    for k, s in enumerate(smeta):
        ctx.count(2, key=(sreq[2 * k], sreq[2 * k + 1]), nontrivial=len(s[1]) > 0)
        if so[2 * k] != so[2 * k + 1]:
            ctx.violation("string-hash-respects-string=?", input=sreq[2 * k] + " / " + sreq[2 * k + 1], expected="equal", observed="%s / %s" % (so[2 * k], so[2 * k + 1]),
                          replay=replay_inner(d, emb, sreq[2 * k]) + " ; " + replay_inner(d, emb, sreq[2 * k + 1]))
        elif so[2 * k] != sm[2 * k]:
            ctx.broken("correspondence:shash", "model and C differ: %s model=%s impl=%s" % (sreq[2 * k], sm[2 * k], so[2 * k]))
    ctx.sample(dict(kind="inner", request=reqs[1], model=mo[1], impl=io[1]))


# ------------------------------------------------------------------------------------------------ K-outer A
def outer_pairs(ctx, d, exe, C, n):
    rng = ctx.rng
    exprs, meta = [], []
    for _ in range(n):
        a, b, cls = pick_pair(rng, tower=True)
        exprs.append("(c15-pair %s %s)" % (expr(a, rng, C), expr(b, rng, C)))
        meta.append((a, b, cls))
    # heap symbols and +nan.0: only hash coherence / equal? are specified
    for nm in ("foo", "a-rather-long-symbol-name", "x"):
        exprs.append("(c15-pair '%s (string->symbol \"%s\"))" % (nm, nm))
        meta.append((("sym", nm), ("sym", nm), "same"))
    exprs.append("(c15-pair +nan.0 +nan.0)")
    meta.append((("flo", 0x7ff8000000000000), ("flo", 0x7ff8000000000000), "nan"))
    out = scm.run_cases(d, exprs, prelude_extra=PRELUDE, imports=IMPORTS, max_dead=3)
    hreq = []
    for (a, b, cls) in meta:
        hreq.append("hash %s %x" % (token(a, C) if tokenable(a) else "i0", MAXFIX))
        hreq.append("hash %s %x" % (token(b, C) if tokenable(b) else "i0", MAXFIX))
    hm = ctx.run_model(exe, hreq)
    for k, ((a, b, cls), e, o) in enumerate(zip(meta, exprs, out)):
        nt = a[0] not in ("char", "imm") and not (a[0] == "int" and is_fix(a[1]))
        ctx.count(1, key=e, nontrivial=nt)
        o = unquote(o)
        f = (o or "").split(" ")
        typ = a[0]
        if o is None or o.startswith(("ERR", "CRASH", "TIMEOUT")) or len(f) < 3 or len(f[0]) != 7:
            ctx.violation("pair:error:%s" % typ, input=e, expected="seven booleans and two hashes", observed=o, replay=replay_scm(e))
            continue
        same = a == b
        eq_ab, core_ab, eqv_ab, eq_ba, eqv_ba, eq_aa, eqv_bb = [c == "1" for c in f[0]]
        if cls == "nan":
            if eq_ab and f[1] != f[2]:
                ctx.violation("hash-respects-equal:nan", input=e, expected="equal hashes", observed=o, replay=replay_scm(e))
            continue
        if eq_ab != same or eq_ba != same or not eq_aa:
            ctx.violation("equal?:%s:%s" % (typ, "false-negative" if same else "false-positive"), input=e, expected="equal? = %s (both orders), reflexive" % same, observed=o, replay=replay_scm(e))
        elif core_ab != same:
            ctx.violation("core-equal?:%s:%s" % (typ, "false-negative" if same else "false-positive"), input=e, expected=str(same), observed=o, replay=replay_scm(e))
        elif same and f[1] != f[2]:
            ctx.violation("hash-respects-equal:%s" % typ, input=e, expected="equal hashes for equal? values", observed=o, replay=replay_scm(e))
        else:
            es = eqv_spec(a, b)
            if typ != "sym" and not has_nan(a) and not has_nan(b):
                if es is not None and (eqv_ab != es or eqv_ba != es):
                    ctx.violation("eqv?:%s" % typ, input=e, expected="eqv? = %s" % es, observed=o, replay=replay_scm(e))
                    continue
                if not eqv_bb:
                    ctx.violation("eqv?:not-reflexive:%s" % b[0], input=e, expected="(eqv? b b)", observed=o, replay=replay_scm(e))
                    continue
            if typ == "str" and b[0] == "str" and len(f) >= 8:
                if (f[3] == "1") != same:
                    ctx.violation("string=?", input=e, expected=str(same), observed=o, replay=replay_scm(e))
                    continue
                if same and f[4] != f[5]:
                    ctx.violation("string-hash-respects-string=?", input=e, expected="equal string hashes", observed=o, replay=replay_scm(e))
                    continue
            if tokenable(a) and tokenable(b) and (f[1] != hm[2 * k] or f[2] != hm[2 * k + 1]):
                ctx.broken("correspondence:hash(outer)", "hash value differs from the model although coherent: %s impl=%s,%s model=%s,%s" % (e, f[1], f[2], hm[2 * k], hm[2 * k + 1]))
    ctx.sample(dict(kind="outer-pair", expr=exprs[0], impl=unquote(out[0]), model_hashes=hm[:2]))
    # the two findings of DESIGN.md section 6, verbatim
    fixed = ["(c15-pair (expt 2 100) (- (expt 2 300) (- (expt 2 300) (expt 2 100))))",
             "(let ((ht (make-hash-table))) (hash-table-set! ht (expt 2 100) 'x) (symbol->string (hash-table-ref/default ht (- (expt 2 300) (- (expt 2 300) (expt 2 100))) 'miss)))",
             "(c15-pair (utf8->string! (bytevector 97 98 99 100 101 102) 2 5) (string #\\c #\\d #\\e))"]
    fo = [unquote(x) for x in scm.run_cases(d, fixed, prelude_extra=PRELUDE, imports=IMPORTS, max_dead=3)]
    ctx.count(3, key="F-C15-1/2")
    f0 = (fo[0] or "").split(" ")
    if not (len(f0) >= 3 and f0[0][:2] == "11" and f0[1] == f0[2]) or fo[1] != "x":
        ctx.violation("hash-respects-equal:int", input=fixed[0] + " ; " + fixed[1], expected="equal?, same hash, lookup hits", observed="%s ; %s" % (fo[0], fo[1]), replay=replay_scm(fixed[1]))
    f2 = (fo[2] or "").split(" ")
    if not (len(f2) >= 6 and f2[0][:2] == "11" and f2[1] == f2[2] and f2[3] == "1" and f2[4] == f2[5]):
        ctx.violation("equal?:str:false-negative", input=fixed[2], expected="equal?, string=?, same hash and string-hash", observed=fo[2], replay=replay_scm(fixed[2]))


# ------------------------------------------------------------------------------------------------ cyclic data (outer only)
def outer_cycles(ctx, d, n):
    """equal? must terminate on cyclic data and decide equality of the infinite unfoldings (R7RS 6.1); hash must terminate
    and agree on equal? data.  Circular lists given by (prefix, cycle) of small integers; two mutually recursive vectors."""
    rng = ctx.rng

    def unfold(p, c, k):
        return [(p + c * k)[i] for i in range(k)]

    def build(p, c):
        items = p + c
        return "(let ((l (list %s))) (set-cdr! (list-tail l %d) (list-tail l %d)) l)" % (" ".join(map(str, items)), len(items) - 1, len(p))
    exprs, meta = [], []
    for _ in range(n):
        p1 = [rng.randrange(3) for _ in range(rng.randrange(0, 4))]
        c1 = [rng.randrange(3) for _ in range(rng.randrange(1, 4))]
        r = rng.random()
        if r < 0.4:      # the same infinite list with another prefix / period
            k = rng.randrange(0, 3)
            p2 = p1 + unfold([], c1, k)
            c2 = (c1[k % len(c1):] + c1[:k % len(c1)]) * rng.choice([1, 2, 3])
        elif r < 0.7:
            p2, c2 = list(p1), list(c1)
            i = rng.randrange(len(c2))
            c2[i] = (c2[i] + 1) % 3
        else:
            p2 = [rng.randrange(3) for _ in range(rng.randrange(0, 4))]
            c2 = [rng.randrange(3) for _ in range(rng.randrange(1, 4))]
        same = unfold(p1, c1, 60) == unfold(p2, c2, 60)
        exprs.append("(let ((a %s) (b %s)) (string-append (c15-b (equal? a b)) (c15-b (equal? b a)) (c15-b (equal? a a)) (c15-b (= (hash a) (hash b)))))" % (build(p1, c1), build(p2, c2)))
        meta.append(same)
    exprs.append("(let ((v (vector 1 #f)) (w (vector 1 #f)) (u (vector 1 #f))) (vector-set! v 1 v) (vector-set! w 1 u) (vector-set! u 1 w) "
                 "(string-append (c15-b (equal? v w)) (c15-b (equal? w v)) (c15-b (equal? v v)) (c15-b (= (hash v) (hash w)))))")
    meta.append(True)
    out = scm.run_cases(d, exprs, prelude_extra=PRELUDE, imports=IMPORTS, max_dead=3, timeout=300)
    for e, same, o in zip(exprs, meta, out):
        ctx.count(1, key=e)
        o = unquote(o)
        if o is None or len(o) != 4 or o.startswith(("ERR", "CRA", "TIM")):
            ctx.violation("equal?:cyclic:no-answer", input=e, expected="an answer", observed=o, replay=replay_scm(e))
        elif (o[0] == "1") != same or (o[1] == "1") != same or o[2] != "1":
            ctx.violation("equal?:cyclic", input=e, expected="equal? = %s (both orders), reflexive" % same, observed=o, replay=replay_scm(e))
        elif same and o[3] != "1":
            ctx.violation("hash-respects-equal:cyclic", input=e, expected="equal hashes", observed=o, replay=replay_scm(e))


# ------------------------------------------------------------------------------------------------ graphs (sharing, cycles)
# A graph is a list of nodes ('P', a, d) | ('V', [ids]) | ('L', value); node id = index.  The SAME description is given to
# the extracted model / SPEC (tokens) and turned into Scheme code that allocates every node once and then links them.
def g_token(nodes, C):
    out = []
    for n in nodes:
        if n[0] == "P":
            out.append("P%d.%d" % (n[1], n[2]))
        elif n[0] == "V":
            out.append("V" + ".".join(str(i) for i in n[1]))
        else:
            out.append("L" + token(n[1], C))
    return ";".join(out)


def g_scheme(nodes, a, b, rng, C, call="c15-geq"):
    binds, links = [], []
    for i, n in enumerate(nodes):
        if n[0] == "P":
            binds.append("(n%d (cons #f #f))" % i)
            links.append("(set-car! n%d n%d) (set-cdr! n%d n%d)" % (i, n[1], i, n[2]))
        elif n[0] == "V":
            binds.append("(n%d (make-vector %d #f))" % (i, len(n[1])))
            links += ["(vector-set! n%d %d n%d)" % (i, k, j) for k, j in enumerate(n[1])]
        else:
            binds.append("(n%d %s)" % (i, expr(n[1], rng, C)))
    return "(let* (%s) %s (%s n%d n%d))" % (" ".join(binds), " ".join(links), call, a, b)


def g_reach(nodes, r):
    seen, todo = [], [r]
    while todo:
        x = todo.pop()
        if x in seen:
            continue
        seen.append(x)
        n = nodes[x]
        todo += [n[2], n[1]] if n[0] == "P" else (list(reversed(n[1])) if n[0] == "V" else [])
    return seen


def g_from_term(t):
    """term: ('P', x, y) | ('V', [x..]) | ('L', value) | ('def', name, term) | ('ref', name) | small ints / strings as leaves"""
    nodes, names, fix = [], {}, []

    def go(t):
        if isinstance(t, int):
            t = ("L", ("int", t))
        elif isinstance(t, str):
            t = ("L", ("str", tuple(ord(c) for c in t)))
        elif isinstance(t, bytes):
            t = ("L", ("bv", t))
        if t[0] == "ref":
            return ("ref", t[1])
        if t[0] == "def":
            i = go(t[2])
            names[t[1]] = i
            return i
        i = len(nodes)
        nodes.append(None)
        if t[0] == "L":
            nodes[i] = ("L", t[1])
        elif t[0] == "P":
            nodes[i] = ["P", go(t[1]), go(t[2])]
        else:
            nodes[i] = ["V", [go(x) for x in t[1]]]
        return i
    root = go(t)

    def res(x):
        return names[x[1]] if isinstance(x, tuple) else x
    out = []
    for n in nodes:
        if n[0] == "P":
            out.append(("P", res(n[1]), res(n[2])))
        elif n[0] == "V":
            out.append(("V", [res(x) for x in n[1]]))
        else:
            out.append(n)
    return out, root


def t_list(items, tail=("L", ("imm", "()"))):
    for x in reversed(items):
        tail = ("P", x, tail)
    return tail


def t_circ(prefix, cycle, name="c"):
    """circular list: prefix then cycle forever"""
    body = ("ref", name)
    for x in reversed(cycle[1:]):
        body = ("P", x, body)
    body = ("def", name, ("P", cycle[0], body))
    for x in reversed(prefix):
        body = ("P", x, body)
    return body


def g_templates(rng):
    """base graphs: circular lists, self-containing vectors, mutually recursive pairs/vectors, DAGs with sharing, and
    trees/vectors placed before / after / around a cyclic part in depth-first order"""
    circ = lambda: t_circ([rng.randrange(3) for _ in range(rng.randrange(0, 3))], [rng.randrange(3) for _ in range(rng.randrange(1, 4))])
    selfvec = ("def", "s", ("V", [1, t_list([2]), ("ref", "s"), t_list([3])]))
    tree = lambda: rng.choice([("V", [1, 2, 3]), ("V", [1, t_list([2, 3]), "ab", b"\x01\x02"]), t_list([1, ("V", [2, 3]), "xy"]),
                               ("V", [("V", [1, 2]), ("V", [3, 4, 5])]), ("V", [7]), t_list([("V", [b"\x05\x06\x07", "abc", 9])])])
    T = [
        ("P", circ(), tree()),                                   # difference AFTER the cyclic part
        ("P", tree(), circ()),                                   # before
        ("V", [tree(), circ(), tree()]),                         # around
        ("P", selfvec, tree()),
        selfvec,
        ("def", "s", ("V", [("ref", "s"), 1, 2])),
        ("def", "s", ("V", [1, 2, ("ref", "s")])),
        ("def", "p", ("P", 1, ("def", "v", ("V", [2, ("ref", "p"), ("ref", "v"), ("P", 3, ("ref", "p"))])))),
        ("def", "p", ("P", ("def", "v", ("V", [("ref", "p"), ("V", [1, 2])])), ("P", ("ref", "v"), tree()))),
        ("P", ("def", "x", t_list([1, 2])), ("V", [("ref", "x"), ("ref", "x"), ("P", ("ref", "x"), ("ref", "x"))])),
        ("P", ("def", "c", ("P", ("V", [1, ("ref", "c")]), ("ref", "c"))), ("V", [1, 2])),
        ("V", [("def", "c", ("P", 0, ("ref", "c"))), ("def", "d", ("P", 0, ("P", 0, ("ref", "d")))), tree()]),
    ]
    return T


def g_random(rng, n):
    nodes = []
    for i in range(n):
        c = rng.random()
        if i == 0:
            c = c * 0.7
        if c < 0.45:
            nodes.append(("P", rng.randrange(n), rng.randrange(n)))
        elif c < 0.7:
            nodes.append(("V", [rng.randrange(n) for _ in range(rng.choice([0, 1, 2, 3, 4]))]))
        else:
            nodes.append(("L", rng.choice([("int", rng.randrange(3)), ("int", rng.randrange(3)), gen_str(rng, 3), gen_bv(rng), ("char", rng.choice(CHARS)),
                                           ("imm", rng.choice(list(IMMS))), gen_int(rng), gen_flo(rng)])))
    return nodes, 0


def g_copy(nodes, root, rng, share=0.0, splits=0):
    """append a bisimilar variant of the part reachable from root: an isomorphic copy (a node is shared with the original
    instead with probability `share`, never the root), then `splits` times a copied node is duplicated and some of the
    references to it inside the copy are redirected to the duplicate.  Returns (nodes', root', ids of the copied nodes)."""
    reach = g_reach(nodes, root)
    m = {}
    out = list(nodes)
    for x in reach:
        if x == root or rng.random() >= share:
            m[x] = len(out)
            out.append(None)
    for x, y in m.items():
        n = nodes[x]
        if n[0] == "P":
            out[y] = ("P", m.get(n[1], n[1]), m.get(n[2], n[2]))
        elif n[0] == "V":
            out[y] = ("V", [m.get(i, i) for i in n[1]])
        else:
            out[y] = n
    copied = list(m.values())
    for _ in range(splits):
        t = rng.choice(copied)
        refs = [(y, k) for y in copied for k, i in enumerate(out[y][1:3] if out[y][0] == "P" else (out[y][1] if out[y][0] == "V" else [])) if i == t]
        if not refs:
            continue
        new = len(out)
        out.append(out[t] if out[t][0] != "V" else ("V", list(out[t][1])))
        copied.append(new)
        for (y, k) in rng.sample(refs, rng.randrange(1, len(refs) + 1)):
            if out[y][0] == "P":
                l = list(out[y])
                l[1 + k] = new
                out[y] = tuple(l)
            else:
                out[y][1][k] = new
    return out, m[root], copied


def g_mutants(nodes, copied, rng, uniq):
    """every single-position change of the copied part: (description, nodes')"""
    res = []

    def fresh(out):
        out.append(("L", ("int", 900000 + next(uniq))))
        return len(out) - 1
    for y in copied:
        n = nodes[y]
        if n[0] == "P":
            for k, nm in ((1, "car"), (2, "cdr")):
                out = list(nodes)
                l = list(n)
                l[k] = fresh(out)
                out[y] = tuple(l)
                res.append(("%s of n%d" % (nm, y), out))
            out = list(nodes)
            l = list(n)
            k = rng.choice([1, 2])
            l[k] = rng.randrange(len(nodes))
            if l[k] != n[k]:
                out[y] = tuple(l)
                res.append(("redirect slot %d of n%d" % (k - 1, y), out))
            # sharing on one side only: the slot now refers to ANOTHER copied node of the same kind
            k = rng.choice([1, 2])
            same = [z for z in copied if z != n[k] and nodes[z][0] == nodes[n[k]][0] and nodes[z][0] != "L"]
            if same:
                out = list(nodes)
                l = list(n)
                l[k] = rng.choice(same)
                out[y] = tuple(l)
                res.append(("slot %d of n%d shares another node of the same kind" % (k - 1, y), out))
        elif n[0] == "V":
            for k in range(len(n[1])):
                out = list(nodes)
                sl = list(n[1])
                sl[k] = fresh(out)
                out[y] = ("V", sl)
                cls = "last" if k == len(n[1]) - 1 else ("first" if k == 0 else "middle")
                res.append(("%s slot %d of vector n%d" % (cls, k, y), out))
            if n[1]:
                out = list(nodes)
                out[y] = ("V", list(n[1][:-1]))
                res.append(("drop last slot of n%d" % y, out))
                k = rng.randrange(len(n[1]))
                same = [z for z in copied if z != n[1][k] and nodes[z][0] == nodes[n[1][k]][0] and nodes[z][0] != "L"]
                if same:
                    out = list(nodes)
                    sl = list(n[1])
                    sl[k] = rng.choice(same)
                    out[y] = ("V", sl)
                    res.append(("slot %d of vector n%d shares another node of the same kind" % (k, y), out))
            out = list(nodes)
            out[y] = ("V", list(n[1]) + [fresh(out)])
            res.append(("extra slot in n%d" % y, out))
        else:
            out = list(nodes)
            v = mutate(n[1], rng)
            if v != n[1] and not has_nan(v):
                out[y] = ("L", v)
                res.append(("leaf n%d %s" % (y, n[1][0]), out))
    return res


GEQ_PRELUDE = r"""
(define (c15-res r) (if r (number->string r 16) "F"))
(define (c15-geq a b)
  (let* ((r1 (equal?/bounded a b 10000 10000)) (r2 (equal?/bounded b a 10000 10000))
         (e1 (equal? a b)) (e2 (equal? b a)))
    (string-append (c15-b e1) (c15-b e2) (c15-b (equal? b b)) " " (c15-res r1) " " (c15-res r2) " "
                   (c15-b (or (not e1) (= (hash a) (hash b)))))))
"""
GEQ_IMPORTS = "(import (only (chibi) equal?/bounded))"


def graphs(ctx, d, exe, C, nbase, nrand, big):
    """(scheme base) equal? = bounded C pass, then lib/chibi/equiv.scm, on data with sharing and cycles, against
    (1) the SPEC: bisimilarity decided by the extracted bisim_dec (small graphs) -> VIOLATION
    (2) the extracted REGENERATED equiv? / equal_top given the bounded pass's answer -> broken (correspondence)."""
    import itertools
    rng = ctx.rng
    uniq = itertools.count()
    cases = []      # (family, description, nodes, a, b, by_construction)
    bases = []
    for r in range(nbase):
        for ti, t in enumerate(g_templates(rng)):
            nodes, root = g_from_term(t)
            bases.append(("template%d" % ti, nodes, root))
    for r in range(nrand):
        nodes, root = g_random(rng, rng.choice([3, 4, 5, 6, 8]))
        bases.append(("random", nodes, root))
    for fam, nodes, root in bases:
        full, broot, copied = g_copy(nodes, root, rng, share=rng.choice([0.0, 0.0, 0.3]), splits=rng.choice([0, 0, 1, 2]))
        cases.append((fam, "bisimilar variant", full, root, broot, True))
        muts = g_mutants(full, copied, rng, uniq)
        if fam == "random" and len(muts) > 6:
            muts = rng.sample(muts, 6)
        for desc, out in muts:
            cases.append((fam, desc, out, root, broot, None))
    # DAGs whose unfolding exceeds the bounded pass (2^k leaves) but which have few nodes: model + by-construction
    dag_cases = []
    for k in (14, 16):
        for variant in range(4):
            t = ("V", [1, 2, 3])
            for _ in range(k):
                t = ("P", ("def", "x%d" % next(uniq), t), ("ref", "x%d" % (next(uniq) - 1)))
            nodes, root = g_from_term(t)
            full, broot, copied = g_copy(nodes, root, rng)
            if variant == 0:
                dag_cases.append(("dag%d" % k, "bisimilar variant", full, root, broot, True))
            else:
                vec = [y for y in copied if full[y][0] == "V"][0]
                out = list(full)
                sl = list(full[vec][1])
                sl[{1: 0, 2: 1, 3: 2}[variant]] = len(out)
                out.append(("L", ("int", 900000 + next(uniq))))
                out[vec] = ("V", sl)
                dag_cases.append(("dag%d" % k, "%s slot of the shared vector" % ["first", "middle", "last"][variant - 1], out, root, broot, False))
    exprs = [g_scheme(n, a, b, rng, C) for (_, _, n, a, b, _) in cases + dag_cases]
    # large acyclic data over the node bound of the C pass: by construction only
    bigs = []
    for n in big:
        pre = "(let* ((l1 (make-list %d 1)) (l2 (make-list %d 1))" % (n, n)
        for nm, ta, tb, same in (
                ("equal vector after", "(vector 1 2 3)", "(vector 1 2 3)", True),
                ("last slot after", "(vector 1 2 3)", "(vector 1 2 4)", False),
                ("first slot after", "(vector 1 2 3)", "(vector 0 2 3)", False),
                ("middle slot after", "(vector 1 2 3)", "(vector 1 0 3)", False),
                ("last slot of a one-slot vector after", "(vector (list 1))", "(vector (list 2))", False),
                ("bytevector byte after", "(list (bytevector 1 2 3))", "(list (bytevector 1 2 4))", False),
                ("string char after", "(list (string #\\a #\\b))", "(list (string #\\a #\\c))", False),
                ("cdr deep after", "(list 1 2 (list 3 4))", "(list 1 2 (list 3 5))", False),
                ("car after", "(list (list 1) 2)", "(list (list 0) 2)", False),
                ("nested vector last slot after", "(vector 1 (vector 2 (vector 3 4)))", "(vector 1 (vector 2 (vector 3 5)))", False)):
            for shape in ("(cons l1 %s)|(cons l2 %s)", "(vector l1 %s)|(vector l2 %s)", "(list l1 l1 %s)|(list l2 l2 %s)"):
                sa, sb = shape.split("|")
                bigs.append(("big%d" % n, nm + " " + sa, "%s (a %s) (b %s)) (c15-geq a b))" % (pre, sa % ta, sb % tb), same))
        bigs.append(("big%d" % n, "list element in the tail", "(let* ((a (make-list %d 1)) (b (make-list %d 1))) (set-car! (list-tail b %d) 2) (c15-geq a b))" % (n, n, n - 1), False))
        bigs.append(("big%d" % n, "equal lists", "(let* ((a (make-list %d 1)) (b (make-list %d 1))) (c15-geq a b))" % (n, n), True))
    exprs += [e for (_, _, e, _) in bigs]
    out = [unquote(x) for x in scm.run_cases(d, exprs, prelude_extra=PRELUDE + GEQ_PRELUDE, imports=IMPORTS + GEQ_IMPORTS, max_dead=3, chunk=400, timeout=900)]
    # the extracted side
    greq = ["geq %s %d %d" % (g_token(n, C), a, b) for (_, _, n, a, b, _) in cases] + ["gmod %s %d %d" % (g_token(n, C), a, b) for (_, _, n, a, b, _) in dag_cases]
    gm = ctx.run_model(exe, greq)
    slow = 0
    treq, tmeta = [], []
    allc = [(f, dsc, e, o, m) for ((f, dsc, _, _, _, _), e, o, m) in zip(cases + dag_cases, exprs, out, gm)] + \
           [(f, dsc, e, o, None) for ((f, dsc, e, _), o) in zip(bigs, out[len(cases) + len(dag_cases):])]
    byc = [c[5] for c in cases + dag_cases] + [b[3] for b in bigs]
    for k, ((fam, desc, e, o, m), constr) in enumerate(zip(allc, byc)):
        f = (o or "").split(" ")
        if o is None or o.startswith(("ERR", "CRASH", "TIMEOUT")) or len(f) != 4 or len(f[0]) != 3:
            ctx.count(1, key=e)
            ctx.violation("equal?:graph:no-answer", input=e, family=fam, position=desc, expected="an answer", observed=o, replay=replay_geq(e))
            continue
        model = spec = None
        if m is not None:
            mf = m.split(" ")
            model = mf[0]
            spec = (mf[1] == "1") if len(mf) > 1 else None
        if spec is None:
            spec = constr if constr is not None else (model == "1")
        elif constr is not None and constr != spec:
            ctx.broken("generator:graphs", "a pair built as %s is decided %s by the SPEC: %s" % (constr, spec, e[:300]))
            continue
        took_slow = any(x != "F" and int(x, 16) <= 0 for x in f[1:3])
        slow += took_slow
        ctx.count(1, key=e, nontrivial=took_slow)
        ctx.cov["traces_validated_against_impl"] += 1
        exp = "1" if spec else "0"
        cls = ("cyclic-or-shared" if not fam.startswith("big") else "large") + (":false-positive" if not spec else ":false-negative")
        if f[0][0] != exp or f[0][1] != exp or f[0][2] != "1":
            ctx.violation("equal?:graph:%s" % cls, input=e, family=fam, position=desc, expected="equal? = %s in both orders, reflexive" % exp,
                          observed=o, slow_path=took_slow, replay=replay_geq(e))
            continue
        bad = [x for x in f[1:3] if (x == "F" and spec) or (x != "F" and int(x, 16) > 0 and not spec)]
        if bad:
            ctx.violation("equal?/bounded:graph:unsound", input=e, family=fam, position=desc, expected="#f only for different data, a positive bound only for equal data",
                          observed=o, replay=replay_geq(e))
            continue
        if f[3] != "1":
            ctx.violation("hash-respects-equal:graph", input=e, family=fam, position=desc, expected="equal hashes for equal? data", observed=o, replay=replay_geq(e))
            continue
        if model is not None:
            # the regenerated model of the slow path must give the implementation's answer from the bounded pass's answer
            n, a, b = (cases + dag_cases)[k][2:5]
            treq.append("gtop %s %s %d %d" % (g_token(n, C), f[1], a, b))
            tmeta.append((e, f[0][0], model, exp))
    tm = ctx.run_model(exe, treq) if treq else []
    for (e, impl, model, exp), t in zip(tmeta, tm):
        if t != impl or (model != exp):
            ctx.broken("correspondence:equiv", "the regenerated model of lib/chibi/equiv.scm differs (equiv? alone: %s, equal_top: %s, implementation %s, SPEC %s) on %s" % (model, t, impl, exp, e[:400]))
            break
    ctx.note("graphs: %d cases (%d templates/random with every single-position mutant, %d DAG, %d large), %d took the slow path (bounded pass gave up)" % (
        len(allc), len(cases), len(dag_cases), len(bigs), slow))
    if allc:
        ctx.sample(dict(kind="graph", family=allc[1][0], position=allc[1][1], expr=allc[1][2][:400], impl=allc[1][3], model_and_spec=allc[1][4]))


def replay_geq(e):
    return scm.PRELUDE + IMPORTS + GEQ_IMPORTS + PRELUDE + GEQ_PRELUDE + "\n(write %s)(newline)" % e



# ------------------------------------------------------------------------------------------------ strings carved from ONE byte store
SHARED_PRELUDE = r"""
(define (c15-shared s1 s2)
  (define (t69 t) (hash-table-set! t s1 1) (hash-table-set! t s2 2)
    (string-append (number->string (hash-table-size t)) (number->string (hash-table-ref/default t s1 0)) (number->string (hash-table-ref/default t s2 0))))
  (define (t125 t) (h125:hash-table-set! t s1 1) (h125:hash-table-set! t s2 2)
    (string-append (number->string (h125:hash-table-size t)) (number->string (h125:hash-table-ref/default t s1 0)) (number->string (h125:hash-table-ref/default t s2 0))))
  (string-append (t69 (make-hash-table)) (t69 (make-hash-table equal?)) (t69 (make-hash-table string=?)) (t69 (make-hash-table string=? string-hash))
                 (t125 (h125:make-hash-table (make-equal-comparator))) (t125 (h125:make-hash-table string-comparator))
                 (c15-b (and (member s2 (list s1)) #t)) (c15-b (and (assoc s2 (list (cons s1 1))) #t))))
"""


def shared_strings(ctx, d, exe, C, n):
    """two strings of the same byte length carved with utf8->string! out of ONE bytevector at different offsets (the only way two
    string objects share a byte store): equal contents / different contents, half of the different ones chosen so that both keys
    hash into the same one of the 23 initial buckets (hash model).  equal?/eqv?/hash/string=?/string-hash + 6 two-key tables."""
    rng = ctx.rng
    stores = []
    for _ in range(max(8, n // 4)):
        size = rng.choice([4, 6, 12, 12])
        alpha = rng.choice([b"ab", b"abc", b"abcdefgh", bytes([0x61, 0x62, 0xce, 0xbb])])
        bs = bytes(rng.choice(alpha) for _ in range(size))
        try:
            bs.decode("utf-8")
        except UnicodeDecodeError:
            bs = bytes(rng.choice(b"abcd") for _ in range(size))
        stores.append(bs)
    cand, req = [], []
    for bs in stores:
        for L in (1, 2, 3):
            for o in range(len(bs) - L + 1):
                try:
                    bs[o:o + L].decode("utf-8")
                except UnicodeDecodeError:
                    continue
                cand.append((bs, L, o))
                req.append("hash s0:%d:%s 17" % (L, bs[o:o + L].hex()))
    hv = ctx.run_model(exe, req)
    by = {}
    for (bs, L, o), h in zip(cand, hv):
        by.setdefault((bs, L), []).append((o, h))
    collide, equal, other = [], [], []
    for (bs, L), lst in by.items():
        for i, (o1, h1) in enumerate(lst):
            for (o2, h2) in lst[i + 1:]:
                same = bs[o1:o1 + L] == bs[o2:o2 + L]
                (equal if same else (collide if h1 == h2 else other)).append((bs, L, o1, o2, same))
    pick = []
    for lst, k in ((collide, n // 2), (equal, n // 4), (other, n - n // 2 - n // 4)):
        rng.shuffle(lst)
        pick += lst[:k]
    exprs = []
    for (bs, L, o1, o2, same) in pick:
        if rng.random() < 0.5:
            o1, o2 = o2, o1
        exprs.append("(let* ((bv (bytevector %s)) (s1 (utf8->string! bv %d %d)) (s2 (utf8->string! bv %d %d))) (string-append (c15-pair s1 s2) \" \" (c15-shared s1 s2)))"
                     % (" ".join(map(str, bs)), o1, o1 + L, o2, o2 + L))
    out = [unquote(x) for x in scm.run_cases(d, exprs, prelude_extra=PRELUDE + SHARED_PRELUDE, imports=IMPORTS, max_dead=3)]
    for (bs, L, o1, o2, same), e, o in zip(pick, exprs, out):
        ctx.count(1, key=e, nontrivial=True)
        f = (o or "").split(" ")
        rp = scm.PRELUDE + IMPORTS + PRELUDE + SHARED_PRELUDE + "\n(write %s)(newline)" % e
        if o is None or o.startswith(("ERR", "CRASH", "TIMEOUT")) or len(f) != 9 or len(f[0]) != 7:
            ctx.violation("pair:error:str:shared-store", input=e, expected="answers", observed=o, replay=rp)
            continue
        b = "1" if same else "0"
        if f[0][0] != b or f[0][3] != b or f[0][1] != b or f[0][5] != "1":
            ctx.violation("equal?:str:shared-store:%s" % ("false-negative" if same else "false-positive"), input=e,
                          expected="equal? = core equal? = %s in both orders for two strings inside one byte store at different offsets" % same, observed=o, replay=rp)
        elif f[3] != b:
            ctx.violation("string=?:shared-store", input=e, expected=b, observed=o, replay=rp)
        elif same and (f[1] != f[2] or f[4] != f[5]):
            ctx.violation("hash-respects-equal:str:shared-store", input=e, expected="equal hash and string-hash", observed=o, replay=rp)
        elif f[8] != ("122" * 6 if same else "212" * 6) + b + b:
            ctx.violation("table:shared-store-string-keys", input=e, expected=("122" * 6 if same else "212" * 6) + b + b + " (size, ref s1, ref s2 of six two-key tables; member; assoc)",
                          observed=f[8], replay=rp)
    ctx.note("shared-store strings: %d pairs (%d different contents in one bucket chain, %d equal contents)" % (len(pick), min(len(collide), n // 2), min(len(equal), n // 4)))


# ------------------------------------------------------------------------------------------------ computed numbers vs literals
NUM_PREDS = ["eqv?", "eqv?(swapped)", "equal?", "core-equal?", "hash", "fixnum?", "memv", "assv", "member", "=",
             "table69:eqv?", "table69:equal?", "table69:default", "table69:=", "table125:eqv?", "table125:eqv-comparator",
             "table125:default-comparator", "table125:=+hash", "case"]


def arith_results(ctx, d, n_draws):
    """every arithmetic operation with a bignum / ratio / flonum / exact-complex operand, operands chosen so that the exact result is
    0, +-1, a small fixnum, a +-2^62 boundary value, an integer-valued ratio or complex: the result must be indistinguishable from
    the literal for eqv?, equal?, hash, fixnum?, memv/assv/member, case, and as a key of eqv?/equal?/= tables."""
    rng = ctx.rng
    cases = []
    targets = [0, 0, 1, -1, 2, -3, 7, 100, MAXFIX, MAXFIX - 1, -MAXFIX - 1, -MAXFIX]
    for t in targets:
        for _ in range(n_draws):
            for e in small_routes_all(t, rng):
                cases.append((e, str(t), True))
    for t in (MAXFIX + 1, -MAXFIX - 2, 1 << 64, -(1 << 64)):
        for _ in range(12 * n_draws):
            cases.append((expr(("int", t), rng, {}), str(t), True))
    for _ in range(40 * n_draws):
        v = rng.choice([gen_rat, gen_cpx])(rng)
        lit = fr_str(Fraction(v[1], v[2])) if v[0] == "rat" else cpx_str(Fraction(*v[1]), Fraction(*v[2]))
        cases.append((number_expr(v, rng, {}), lit, True))
    P70 = 1 << 70
    flo = [("(* 0. %d)" % P70, "0."), ("(* %d 0.)" % P70, "0."), ("(* -0. %d)" % P70, "-0.0"), ("(* 0. %d)" % -P70, "-0.0"), ("(- (inexact %d) (inexact %d))" % (P70, P70), "0."),
           ("(+ .5 .5)", "1."), ("(/ (inexact %d) (inexact %d))" % (P70, P70), "1."), ("(* 1/2 2.)", "1."), ("(+ 1/2 .5)", "1."), ("(- 3/2 .5)", "1."),
           ("(* %d (expt 2. -70))" % P70, "1."), ("(inexact 1/2)", ".5"), ("(/ %d (expt 2. 71))" % P70, ".5"), ("(- (inexact %d) (expt 2. 70) 1.)" % P70, "-1."),
           ("(inexact %d)" % (1 << 62), "4611686018427387904."), ("(* 2. %d)" % (1 << 61), "4611686018427387904."), ("(- (expt 2. 62))", "-4611686018427387904."),
           ("(+ (inexact %d) 0.)" % (1 << 62), "4611686018427387904."), ("(truncate 1.5)", "1."), ("(round 2.5)", "2."), ("(* 1. (/ %d %d))" % (P70, P70 * 2), ".5"),
           ("(exact 4611686018427387904.)", "4611686018427387904"), ("(exact -4611686018427387904.)", "-4611686018427387904"), ("(exact (expt 2. 62))", "4611686018427387904"),
           ("(exact (- (expt 2. 62)))", "-4611686018427387904"), ("(exact 0.)", "0"), ("(exact -0.)", "0"), ("(exact 1.)", "1"), ("(exact (floor 2.5))", "2"),
           ("(exact (expt 2. 70))", str(P70)), ("(exact .5)", "1/2"), ("(exact (- (expt 2. 62) 1024.))", str((1 << 62) - 1024)), ("(exact (* 1.5 (expt 2. 62)))", str(3 << 61)),
           ("(round 7/2)", "4"), ("(round 5/2)", "2"), ("(truncate -7/2)", "-3"), ("(ceiling 7/2)", "4"), ("(floor -7/2)", "-4"),
           ("(floor (/ %d 2))" % (2 * P70 + 1), str(P70)), ("(round (/ %d 2))" % ((1 << 63) - 1), str(1 << 62)), ("(truncate (/ %d 2))" % (-(1 << 63) - 1), str(-(1 << 62))),
           ("(floor (/ %d 2))" % ((1 << 63) - 1), str(MAXFIX)), ("(numerator (/ %d %d))" % (6 * P70, 4 * P70), "3"), ("(denominator (/ %d %d))" % (6 * P70, 4 * P70), "2"),
           ("(exact-integer-sqrt %d)" % (P70 * P70), None), ("(square (/ 1 %d))" % P70, "1/%d" % (P70 * P70)), ("(expt %d 1)" % P70, str(P70)), ("(expt 2 62)", str(1 << 62)),
           ("(expt -2 62)", str(1 << 62)), ("(- (expt 2 62))", str(-(1 << 62))), ("(expt 2 61)", str(1 << 61)), ("(* %d %d)" % (1 << 31, 1 << 31), str(1 << 62)),
           ("(* %d %d)" % (-(1 << 31), 1 << 31), str(-(1 << 62))), ("(quotient %d -1)" % (-(1 << 62)), str(1 << 62)), ("(abs %d)" % (-(1 << 62)), str(1 << 62)),
           ("(exact-integer-sqrt-s %d)" % (1 << 124), None), ("(max 0 %d)" % -P70, "0"), ("(min 1 %d)" % P70, "1"), ("(string->number \"%d\" 16)" % 0, "0"),
           ("(- (string->number \"%s\") %d)" % (P70, P70), "0"), ("(bit-and %d 1)" % (P70 + 1), "1") if False else ("(modulo %d 2)" % (P70 + 1), "1")]
    for e, lit in flo:
        if lit is not None:
            cases.append((e, lit, len(lit) < 24))
    seen, uniq = set(), []
    for c in cases:
        if c[0] not in seen:
            seen.add(c[0])
            uniq.append(c)
    exprs = []
    for e, lit, cs in uniq:
        exprs.append("(let ((r %s)) (string-append (c15-num r %s) %s))" % (e, lit, '(case r ((%s) "1") (else "0"))' % lit if cs else '"1"'))
    out = [unquote(x) for x in scm.run_cases(d, exprs, prelude_extra=PRELUDE, imports=IMPORTS, max_dead=3)]
    for (e, lit, cs), x, o in zip(uniq, exprs, out):
        op = e[1:].split(" ")[0] if e.startswith("(") else "literal"
        big_operand = True
        ctx.count(1, key=x, nontrivial=big_operand)
        rp = replay_scm(x)
        if o is None or o.startswith(("ERR", "CRASH", "TIMEOUT")) or len(o) != len(NUM_PREDS):
            ctx.violation("computed-number:%s:error" % op, input=e, literal=lit, expected="1" * len(NUM_PREDS), observed=o, replay=rp)
            continue
        ctx.cov["traces_validated_against_impl"] += 1
        if o[9] != "1":
            # numerically another number than the literal: "agree with numeric identity however a value was computed" fails outright (F-C15-3 was found here)
            ctx.violation("computed-number:%s:wrong-value" % op, input=e, literal=lit, expected="a number = to %s" % lit, observed="(= r %s) is #f; answers %s" % (lit, o), replay=rp)
            continue
        bad = [NUM_PREDS[i] for i, c in enumerate(o) if c != "1"]
        if bad:
            ctx.violation("computed-number:%s:%s" % (op, bad[0]), input=e, literal=lit, expected="the computed value is indistinguishable from the literal %s: all of %s" % (lit, NUM_PREDS),
                          observed="failing: %s (answers %s)" % (", ".join(bad), o), replay=rp)
    ctx.note("computed numbers: %d distinct (route, literal) cases, %d predicates each" % (len(uniq), len(NUM_PREDS)))


# ------------------------------------------------------------------------------------------------ constructors choosing a default hash
CI_CHARS = [0x61, 0x41, 0x62, 0x42, 0x7a, 0x5a, 0x30]


def ctor_leaf(rng, flo=False):
    g = [gen_int, gen_int, gen_rat, gen_str, gen_str, gen_bv, lambda r: ("char", r.choice(CHARS)), lambda r: ("imm", r.choice(list(IMMS)))]
    if flo:
        g += [gen_flo, gen_cpx]
    return rng.choice(g)(rng)


def ctor_value(rng, eqn):
    if eqn == "eq":
        return rng.choice([lambda r: ("int", r.choice([0, 1, -1, r.randrange(-1000, 1000), MAXFIX, -MAXFIX - 1])), lambda r: ("char", r.choice(CHARS)),
                           lambda r: ("imm", r.choice(list(IMMS))), lambda r: ("sym", r.choice(["foo", "bar", "x", "a-long-symbol-name"]))])(rng)
    if eqn == "eqv":
        return rng.choice([gen_int, gen_int, gen_flo, gen_rat, gen_cpx, lambda r: ("int", r.choice([0, 1, -1, MAXFIX, -MAXFIX - 1])),
                           lambda r: ("char", r.choice(CHARS)), lambda r: ("sym", r.choice(["foo", "bar"]))])(rng)
    if eqn == "equal":
        c = rng.random()
        if c < 0.4:
            return ctor_leaf(rng, True)
        if c < 0.7:
            return t_pylist([ctor_leaf(rng, True) for _ in range(rng.randrange(0, 4))])
        if c < 0.85:
            return ("vec", tuple(ctor_leaf(rng, True) for _ in range(rng.randrange(0, 4))))
        return gen_val(rng, 2)
    if eqn == "default":
        return ctor_leaf(rng) if rng.random() < 0.7 else t_pylist([ctor_leaf(rng) for _ in range(rng.randrange(0, 3))])
    if eqn == "=":
        return rng.choice([gen_int, gen_rat, lambda r: ("int", r.choice([0, 1, -1, 2, MAXFIX, -MAXFIX - 1, MAXFIX + 1]))])(rng)
    if eqn == "string=":
        return gen_str(rng, 4)
    if eqn == "string-ci":
        return ("str", tuple(rng.choice(CI_CHARS) for _ in range(rng.choice([1, 2, 2, 3]))))
    if eqn == "char=":
        return ("char", rng.choice(CHARS))
    if eqn == "char-ci":
        return ("char", rng.choice(CI_CHARS))
    leaf = lambda: rng.choice([gen_int, gen_rat, gen_str, lambda r: ("char", r.choice(CHARS))])(rng)
    if eqn == "list":
        return t_pylist([leaf() for _ in range(rng.randrange(0, 4))])
    if eqn == "vector":
        return ("vec", tuple(leaf() for _ in range(rng.randrange(0, 4))))
    if eqn == "pair":
        return ("pair", leaf(), leaf())
    raise ValueError(eqn)


def t_pylist(items):
    tail = ("imm", "()")
    for x in reversed(items):
        tail = ("pair", x, tail)
    return tail


def ctor_equiv(eqn, a, b):
    imm = a[0] in ("char", "imm", "sym") or (a[0] == "int" and is_fix(a[1])) or a == ("vec", ())
    if eqn == "eq":
        return a == b and imm
    if eqn == "eqv":
        return a == b and (imm or a[0] in ("int", "flo", "rat", "cpx"))
    if eqn in ("string-ci", "char-ci"):
        low = lambda v: tuple(c | 0x20 if 0x41 <= c <= 0x5a else c for c in (v[1] if v[0] == "str" else (v[1],)))
        return low(a) == low(b)
    return a == b


def ctor_list():
    """(api, equivalence, label, Scheme procedure from an association list of initial contents to a table)"""
    L = []
    f69 = lambda T: "(lambda (al) (c15-fill hash-table-set! %s al))" % T
    f125 = lambda T: "(lambda (al) (c15-fill h125:hash-table-set! %s al))" % T
    procs = (("eq", ["eq?"], [None, "hash-by-identity", "hash"]), ("eqv", ["eqv?"], [None, "hash"]), ("equal", ["equal?", "core-equal?"], [None, "hash"]),
             ("string=", ["string=?"], [None, "hash", "string-hash"]), ("=", ["="], [None, "hash"]), ("char=", ["char=?"], [None, "hash"]))
    for eqn, prs, hs in procs:
        for pr in prs:
            for h in hs:
                for size in (["", " 100"] if h else [""]):
                    a = pr + (" " + h if h else "") + size
                    L.append(("69", eqn, "(make-hash-table %s)" % a, f69("(make-hash-table %s)" % a)))
                    L.append(("125", eqn, "(h125:make-hash-table %s)" % a, f125("(h125:make-hash-table %s)" % a)))
                    if not size:
                        L.append(("69", eqn, "(alist->hash-table al %s)" % a, "(lambda (al) (alist->hash-table al %s))" % a))
                        L.append(("125", eqn, "(h125:alist->hash-table al %s)" % a, "(lambda (al) (h125:alist->hash-table al %s))" % a))
                        L.append(("69", eqn, "(hash-table-copy (make-hash-table %s))" % a, "(lambda (al) (hash-table-copy (c15-fill hash-table-set! (make-hash-table %s) al)))" % a))
                        L.append(("125", eqn, "(h125:hash-table-copy (h125:make-hash-table %s) #t)" % a,
                                  "(lambda (al) (h125:hash-table-copy (c15-fill h125:hash-table-set! (h125:make-hash-table %s) al) #t))" % a))
                        L.append(("125", eqn, "(h125:hash-table-empty-copy (h125:make-hash-table %s))" % a,
                                  "(lambda (al) (c15-fill h125:hash-table-set! (h125:hash-table-empty-copy (c15-fill h125:hash-table-set! (h125:make-hash-table %s) al)) al))" % a))
    L.append(("69", "equal", "(make-hash-table)", f69("(make-hash-table)")))
    L.append(("69", "equal", "(alist->hash-table al)", "(lambda (al) (alist->hash-table al))"))
    cmps = [("(make-eq-comparator)", "eq"), ("eq-comparator", "eq"), ("(make-eqv-comparator)", "eqv"), ("eqv-comparator", "eqv"), ("(make-equal-comparator)", "equal"),
            ("equal-comparator", "equal"), ("(make-default-comparator)", "default"), ("default-comparator", "default"), ("string-comparator", "string="),
            ("string-ci-comparator", "string-ci"), ("char-comparator", "char="), ("char-ci-comparator", "char-ci"), ("real-comparator", "="),
            ("list-comparator", "list"), ("vector-comparator", "vector"), ("(make-pair-comparator default-comparator default-comparator)", "pair")]
    for c, eqn in cmps:
        L.append(("125", eqn, "(h125:make-hash-table %s)" % c, f125("(h125:make-hash-table %s)" % c)))
        L.append(("125", eqn, "(h125:make-hash-table %s 100)" % c, f125("(h125:make-hash-table %s 100)" % c)))
        L.append(("125", eqn, "(h125:hash-table %s k v ...)" % c, "(lambda (al) (apply h125:hash-table %s (c15-flat al)))" % c))
        L.append(("125", eqn, "(h125:hash-table-unfold ... %s)" % c, "(lambda (al) (h125:hash-table-unfold null? (lambda (s) (values (caar s) (cdar s))) cdr al %s))" % c))
        L.append(("125", eqn, "(h125:alist->hash-table al %s)" % c, "(lambda (al) (h125:alist->hash-table al %s))" % c))
        L.append(("125", eqn, "(h125:hash-table-copy (h125:make-hash-table %s) #t)" % c, "(lambda (al) (h125:hash-table-copy (c15-fill h125:hash-table-set! (h125:make-hash-table %s) al) #t))" % c))
        L.append(("125", eqn, "(h125:hash-table-empty-copy (h125:make-hash-table %s))" % c,
                  "(lambda (al) (c15-fill h125:hash-table-set! (h125:hash-table-empty-copy (c15-fill h125:hash-table-set! (h125:make-hash-table %s) al)) al))" % c))
    return L


def steps_differ(steps, msteps, cl):
    """first difference between the dumps of the implementation and of the SPEC map: (kind, step, expected, observed) or None"""
    for j, (s2, m2) in enumerate(zip(steps, msteps)):
        ss, ms = s2.split("&"), m2.split("&")
        if len(ss) != len(ms):
            return ("tables", j, "%d tables" % len(ms), "%d tables" % len(ss))
        for w, (s, m) in enumerate(zip(ss, ms)):
            which = ("current table" if w == 0 else "OTHER table (original / copy not operated on)")
            sz, nb, al, lk = s.split("/")
            msz, mal, mlk = m.split("/")
            if lk != mlk:
                return ("lookup" if w == 0 else "copy-shares-state:lookup", j, "%s: lookups %s" % (which, mlk), "%s: lookups %s" % (which, lk))
            if sz != msz:
                return ("size" if w == 0 else "copy-shares-state:size", j, "%s: size %s" % (which, msz), "%s: size %s" % (which, sz))
            ia = sorted((cl[int(x.split(":")[0])], x.split(":")[1]) for x in al.split(",") if x) if "-1" not in al else None
            ma = sorted((cl[int(x.split(":")[0])], x.split(":")[1]) for x in mal.split(",") if x)
            if ia != ma:
                return ("alist" if w == 0 else "copy-shares-state:alist", j, "%s: alist %s" % (which, mal), "%s: alist %s" % (which, al))
    if len(steps) != len(msteps):
        return ("length", min(len(steps), len(msteps)), "%d steps" % len(msteps), "%d steps" % len(steps))
    return None


def ctor_histories(ctx, d, exe, C, rounds, frac):
    """every way a (srfi 69) / (srfi 125) = (scheme hash-table) constructor chooses the hash function (default by equivalence procedure,
    explicit, from a comparator), with keys that are FRESHLY COMPUTED for every set!/update!/delete!/ref/alist comparison (never the same
    object twice: each key has three computation routes used in rotation), against the association-list SPEC under the equivalence."""
    rng = ctx.rng
    ctors = ctor_list()
    exprs, mreq, meta = [], [], []
    for rnd in range(rounds):
        for (api, eqn, label, mk) in ctors:
            if rnd == 0 and rng.random() >= frac:
                continue
            n = rng.choice([3, 5, 8, 12])
            vals = []
            tries = 0
            while len(vals) < n and tries < 200:
                tries += 1
                v = rng.choice(vals) if vals and rng.random() < 0.25 else ctor_value(rng, eqn)
                if has_nan(v):
                    continue
                vals.append(v)
            cl, reps = [], []
            for i, v in enumerate(vals):
                for (j, w) in reps:
                    if ctor_equiv(eqn, w, v):
                        cl.append(j)
                        break
                else:
                    reps.append((i, v))
                    cl.append(i)
            init_keys = [j for (j, _) in reps if rng.random() < 0.4][:4]
            init = [(k, 500 + q) for q, k in enumerate(init_keys)]
            nops = rng.choice([8, 20, 40]) if not ctx.thorough else rng.choice([20, 60, 150])
            ops = gen_ops(rng, len(vals), nops, immutable_aside=(api == "125"))
            routes = "(vector %s)" % " ".join("(vector %s)" % " ".join("(lambda () %s)" % expr(v, rng, C) for _ in range(3)) for v in vals)
            e = "(c15-fresh %s %s %s '(%s) %s)" % ("c15-api125" if api == "125" else "c15-api69", mk, routes, " ".join("(%d . %d)" % kv for kv in init), ops_scheme(ops))
            exprs.append(e)
            mreq.append("mhist %s %s" % (",".join("%x" % c for c in cl), ops_model([("s", k, v) for k, v in init] + ops)))
            meta.append((api, eqn, label, ops, len(init), cl))
    # a table whose chains became cyclic hangs in every lookup: one full timeout per dead case, so stop after two (round 4)
    out = [unquote(x) for x in scm.run_cases(d, exprs, prelude_extra=PRELUDE, imports=IMPORTS, chunk=60, timeout=HIST_TIMEOUT(ctx), max_dead=2)]
    mo = ctx.run_model(exe, mreq)
    for (api, eqn, label, ops, ninit, cl), e, o, m in zip(meta, exprs, out, mo):
        rp = replay_scm(e)
        if o == "SKIPPED":
            continue
        if o is None or o.startswith(("ERR", "CRASH", "TIMEOUT")):
            ctx.count(1, key=e)
            ctx.violation("table:ctor:%s:error" % label, input=e, equivalence=eqn, expected="a history dump", observed=o, replay=rp)
            continue
        steps, msteps = o.split("|"), m.split("|")[ninit:]
        ctx.count(len(steps), key=e, nontrivial=True)
        ctx.cov["traces_validated_against_impl"] += len(steps)
        bad = steps_differ(steps, msteps, ["%x" % c for c in cl])
        if bad:
            ctx.violation("table:ctor:%s:%s" % (label, bad[0]), input=e, equivalence=eqn, failing_step=bad[1], op=str(ops[min(bad[1], len(ops) - 1)]),
                          expected=bad[2] + "  (association list under %s, every key recomputed for every operation)" % eqn, observed=bad[3], replay=rp,
                          history_prefix=ops_scheme(ops[:bad[1] + 1]))
    ctx.note("constructor histories: %d histories over %d constructor forms, every key object freshly computed" % (len(exprs), len(ctors)))


UPDATE_FIXED = [False]     # set by run(): the tree has the repair of F-C15-5 (a failing hash-table-update! left a phantom entry)


def HIST_TIMEOUT(ctx):
    """per chunk of 40-60 histories (normally 5-25 s, also on the saturated machine)"""
    return 900 if ctx.thorough else 300


# ------------------------------------------------------------------------------------------------ K-outer B
def gen_universe(rng, kind):
    """list of (value, identity) — values may repeat (equivalent but distinct objects) except immediates"""
    n = rng.choice([3, 6, 10, 16, 24, 40]) if kind != 5 else rng.choice([10, 24, 40, 60])
    vals = []
    seen_imm = set()
    tries = 0
    while len(vals) < n and tries < 500:
        tries += 1
        if kind == 0:
            v = rng.choice([gen_int, lambda r: ("char", r.choice(CHARS)), lambda r: ("imm", r.choice(list(IMMS)))])(rng)
            if v[0] == "int" and not is_fix(v[1]):
                v = ("int", rng.randrange(-1000, 1000))
        elif kind == 1:
            v = rng.choice([gen_int, gen_int, gen_flo, gen_str, lambda r: ("char", r.choice(CHARS))])(rng)
        elif kind == 2:
            v = gen_val(rng, 2) if rng.random() < 0.6 else gen_leaf(rng)
        elif kind == 3:
            v = gen_str(rng, 4)
        elif kind == 5:
            v = ("int", rng.randrange(-100, 100))
        else:
            v = ("int", rng.randrange(-60, 60))
        if vals and rng.random() < 0.3 and kind in (1, 2, 3):
            v = rng.choice(vals)      # an equivalent but distinct object
        # objects that are eq? whenever they are equal: immediates and the (shared) empty vector
        imm = v[0] in ("char", "imm") or (v[0] == "int" and is_fix(v[1])) or v == ("vec", ())
        if imm:
            if v in seen_imm:
                continue
            seen_imm.add(v)
        if has_nan(v):
            continue
        vals.append(v)
    return vals


def classes(vals, kind):
    """class id of each key under the table's equivalence (the SPEC side)"""
    out, reps = [], []
    for i, v in enumerate(vals):
        def eq(a, b, ia, ib):
            if kind == 0:
                return a == b and (a[0] in ("char", "imm") or (a[0] == "int" and is_fix(a[1])))
            if kind == 1:
                return a == b and a[0] in ("int", "flo", "char", "imm")
            if kind in (2, 3):
                return a == b
            if kind == 5:
                return a[1] % 41 == b[1] % 41
            return a[1] % 7 == b[1] % 7
        for (j, w, c) in reps:
            if eq(w, v, j, i):
                out.append(c)
                break
        else:
            reps.append((i, v, i))
            out.append(i)
    return out


def gen_ops(rng, nkeys, nops, immutable_aside=False, extra=None):
    """set / delete / update!/default / copy.  A copy (c: continue on the copy, the original is kept as the other table; k: the
    copy is kept aside) is followed by a burst of set!/update!/delete on keys that are PRESENT (by index) in the table, on either
    table (x swaps the two; never after k on an immutable copy): both tables are dumped after every operation."""
    ops, val = [], 1
    pdel = rng.choice([0.1, 0.25, 0.45])
    present, other_present = set(), None
    can_swap, burst = False, 0

    def one(k, kind):
        nonlocal val
        if kind == "d":
            ops.append(("d", k))
            present.discard(k)
        elif kind == "u":
            ops.append(("U" if extra is not None and rng.random() < 0.4 else "u", k, rng.randrange(0, 1000)))
            present.add(k)
        else:
            val += 1
            ops.append(("s", k, val))
            present.add(k)
    while len(ops) < nops:
        c = rng.random()
        if burst > 0:
            burst -= 1
            if can_swap and rng.random() < 0.3:
                ops.append(("x",))
                present, other_present = other_present, present
                continue
            if present and rng.random() < 0.85:
                one(rng.choice(sorted(present)), rng.choice("ssud"))
                continue
        k = rng.randrange(nkeys)
        if extra and rng.random() < 0.06:
            # round 4: updates that fail (the table must stay as it is); only when the tree has the repair of F-C15-5 (`present' is by key
            # index, the table's notion is by class, so no failing update is safe on the unrepaired code)
            if rng.random() < 0.5:
                ops.append(("e", k, rng.randrange(2)))
            else:
                ops.append(("E", k))      # present (by class) or not is decided by the SPEC map
            continue
        if c < pdel:
            one(k, "d")
        elif c < pdel + 0.06 and ops:
            if rng.random() < 0.6:
                ops.append(("c",))
                other_present = set(present)
                can_swap = True
            else:
                ops.append(("k",))
                other_present = set(present)
                can_swap = not immutable_aside
            burst = rng.randrange(3, 9)
        elif c < pdel + 0.16:
            one(k, "u")
        else:
            one(k, "s")
    return ops[:nops]


def ops_model(ops):
    return ";".join({"s": lambda o: "s%d:%x" % (o[1], o[2]), "d": lambda o: "d%d" % o[1], "c": lambda o: "c", "k": lambda o: "k", "x": lambda o: "x", "u": lambda o: "u%d:%x" % (o[1], o[2]),
                     "U": lambda o: "u%d:%x" % (o[1], o[2]), "e": lambda o: "e", "E": lambda o: "E%d" % o[1]}[o[0]](o) for o in ops) or "_"


def ops_scheme(ops):
    return "'(" + " ".join("(%s)" % " ".join(str(x) for x in o) for o in ops) + ")"


def histories(ctx, d, exe, C, counts):
    rng = ctx.rng
    n69, n125 = counts
    exprs, mreq, oreq, meta = [], [], [], []
    for h in range(n69 + n125):
        api125 = h >= n69
        kind = rng.choice([0, 1, 2, 2, 2, 3, 4, 5, 5])
        # eq?-tables over heap keys (hash-by-identity = address): compared with the SPEC map only
        heap_eq = kind == 0 and rng.random() < 0.4
        vals = gen_universe(rng, 2 if heap_eq else kind)
        nops = rng.choice([5, 20, 60, 120]) if h % 25 else 500
        ops = gen_ops(rng, len(vals), nops, immutable_aside=api125, extra=UPDATE_FIXED[0])
        if api125:
            mk = KINDS125[kind]
        elif kind == 2:
            mk = rng.choice(["(make-hash-table)", "(make-hash-table equal?)", "(make-hash-table core-equal?)"])
        else:
            mk = KINDS[kind][1]
        keys = "(vector %s)" % " ".join(expr(v, rng, C) for v in vals)
        if kind in (2, 3) and rng.random() < 0.25:
            # every key is a string inside ONE shared byte store (utf8->string!), same byte length, different offsets
            L = rng.choice([1, 2, 2, 3])
            store = bytes(rng.choice(b"abc" if L > 1 else b"abcdefghijk") for _ in range(rng.choice([6, 10, 14, 24])))
            offs = list(range(len(store) - L + 1))
            rng.shuffle(offs)
            vals = [("str", tuple(store[o:o + L])) for o in offs]
            keys = "(let ((bv (bytevector %s))) (vector %s))" % (" ".join(map(str, store)), " ".join("(utf8->string! bv %d %d)" % (o, o + L) for o in offs))
            ops = gen_ops(rng, len(vals), nops, immutable_aside=api125, extra=UPDATE_FIXED[0])
        exprs.append("(c15-hist %s %s %s %s)" % ("c15-api125" if api125 else "c15-api69", mk, keys, ops_scheme(ops)))
        cls = classes(vals, kind)
        mreq.append("mhist %s %s" % (",".join("%x" % c for c in cls), ops_model(ops)))
        layout = (not api125) and not heap_eq
        # eq?-tables hash heap objects by address: layout only when every key is an immediate
        oreq.append("ohist %d %s %s" % (kind, ";".join(token(v, C) for v in vals), ops_model(ops)) if layout else None)
        meta.append((kind, api125, vals, ops, mk))
    out = [unquote(x) for x in scm.run_cases(d, exprs, prelude_extra=PRELUDE, imports=IMPORTS, chunk=40, timeout=HIST_TIMEOUT(ctx), max_dead=2)]
    mo = ctx.run_model(exe, mreq)
    oidx = [i for i, q in enumerate(oreq) if q is not None]
    oo = dict(zip(oidx, ctx.run_model(exe, [oreq[i] for i in oidx])))
    for i, ((kind, api125, vals, ops, mk), e, o) in enumerate(zip(meta, exprs, out)):
        kname = KINDS[kind][0] + (":srfi125" if api125 else "")
        if o == "SKIPPED":
            continue
        if o is None or o.startswith(("ERR", "CRASH", "TIMEOUT")):
            ctx.count(1, key=e)
            ctx.violation("table:%s:error" % kname, input=e, expected="a history dump", observed=o, replay=replay_scm(e))
            continue
        steps, msteps = o.split("|"), mo[i].split("|")
        regrows = len(set(s.split("/")[1] for s in steps)) - 1
        ctx.count(len(steps), key=e, nontrivial=regrows >= 1)
        bad = None
        cl = mreq[i].split(" ")[1].split(",")
        for j, (s2, m2) in enumerate(zip(steps, msteps)):
            ss, ms = s2.split("&"), m2.split("&")
            if len(ss) != len(ms):
                bad = ("tables", j, "%d tables" % len(ms), "%d tables" % len(ss))
                break
            for w, (s, m) in enumerate(zip(ss, ms)):
                which = ("current table" if w == 0 else "OTHER table (original / copy not operated on)")
                sz, nb, al, lk = s.split("/")
                msz, mal, mlk = m.split("/")
                if lk != mlk:
                    bad = ("lookup" if w == 0 else "copy-shares-state:lookup", j, "%s: lookups %s" % (which, mlk), "%s: lookups %s" % (which, lk))
                elif sz != msz:
                    bad = ("size" if w == 0 else "copy-shares-state:size", j, "%s: size %s" % (which, msz), "%s: size %s" % (which, sz))
                else:
                    # as sets of (class of key, value); the stored key must be the first one inserted of its class (SRFI 69 leaves it open: not compared)
                    ia = sorted((cl[int(x.split(":")[0])], x.split(":")[1]) for x in al.split(",") if x) if "-1" not in al else None
                    ma = sorted((cl[int(x.split(":")[0])], x.split(":")[1]) for x in mal.split(",") if x)
                    if ia != ma:
                        bad = ("alist" if w == 0 else "copy-shares-state:alist", j, "%s: alist %s" % (which, mal), "%s: alist %s" % (which, al))
                if bad:
                    break
            if bad:
                break
        if bad is None and len(steps) != len(msteps):
            bad = ("length", min(len(steps), len(msteps)), "%d steps" % len(msteps), "%d steps" % len(steps))
        if bad:
            pre = ops[:bad[1] + 1]
            ctx.violation("table:%s:%s" % (kname, bad[0]), input=e, failing_step=bad[1], op=str(ops[min(bad[1], len(ops) - 1)]), expected=bad[2], observed=bad[3],
                          replay=replay_scm(e), history_prefix=ops_scheme(pre))
            continue
        if i in oo and oo[i] != o:
            ms = oo[i].split("|")
            j = next((j for j, (x, y) in enumerate(zip(steps, ms)) if x != y), min(len(steps), len(ms)))
            ctx.broken("correspondence:table-layout:%s" % kname, "table model and implementation agree with the spec map but differ in layout at step %d of %s: model=%s impl=%s" % (
                j, e[:300], ms[j] if j < len(ms) else "-", steps[j] if j < len(steps) else "-"))
        elif i in oo:
            ctx.cov["traces_validated_against_impl"] += len(steps)
    ctx.sample(dict(kind="history", expr=exprs[0][:400], impl=(out[0] or "")[:300], spec=mo[0][:300], table_model=(oo.get(0) or "")[:300]))


# ------------------------------------------------------------------------------------------------ K-inner, pointer level (round 4)
def chains(ctx, d, exe, C, count):
    """(srfi 69) tables with USER procedures (kinds 4, 5: colliding integer keys, chains up to ~14 pairs, regrows 23 -> .. -> 736): before / after every
    set! and delete! the real spine pairs of all chains, by identity.  delete!: the chain of the key's bucket must be what the extracted
    Chain.chain_delete (in-place unlink) leaves, address by address, every other chain untouched.  set! without growth: at most one new pair, at
    the front of the key's bucket.  set! with growth: consing tree -> all pairs new, cells per bucket = extracted Table.regrow; relinking tree
    (REGROW_RELINKS) -> per bucket exactly the OLD pairs Chain.regrow_relink predicts; then the new cell in front.  A difference that loses /
    duplicates an entry or makes a chain cyclic is a VIOLATION (the history streams show the same history as wrong lookups); a pure
    identity / order difference is `broken` (correspondence)."""
    rng = ctx.rng
    relinks = bool(C.get("REGROW_RELINKS"))
    exprs, meta = [], []
    for h in range(count):
        kind = rng.choice([4, 5, 5])
        vals = gen_universe(rng, kind)
        nops = rng.choice([20, 60, 120])
        ops, val = [], 1
        pdel = rng.choice([0.15, 0.3, 0.45])
        for _ in range(nops):
            k = rng.randrange(len(vals))
            if rng.random() < pdel:
                ops.append(("d", k))
            else:
                val += 1
                ops.append(("s", k, val))
        keys = "(vector %s)" % " ".join(expr(v, rng, C) for v in vals)
        exprs.append("(c15-chains %s %s %s)" % (KINDS[kind][1], keys, ops_scheme(ops)))
        meta.append((kind, vals, ops))
    out = [unquote(x) for x in scm.run_cases(d, exprs, prelude_extra=PRELUDE, imports=IMPORTS, chunk=30, timeout=HIST_TIMEOUT(ctx), max_dead=2)]

    def bucket_of(kind, v, n):
        hv = (v[1] % 7 + 20) if kind == 4 else 5 * ((v[1] % 41) % 3)
        return hv if hv < n else 0

    def parse(side, with_addr):
        f = side.split(";")
        n = int(f[0])
        bs = {}
        for b in f[1:]:
            i, cells = b.split("=")
            ent = []
            for c in cells.split(","):
                p = c.split(":")
                ent.append((int(p[0]), int(p[1]), p[2]) if with_addr else (None, int(p[0]), p[1]))
            bs[int(i)] = ent
        return n, bs

    reqs, want = [], []          # model requests and what to do with the answers
    for ci, ((kind, vals, ops), e, o) in enumerate(zip(meta, exprs, out)):
        if o == "SKIPPED":
            continue
        if o is None or o.startswith(("ERR", "CRASH", "TIMEOUT")):
            ctx.count(1, key=e)
            ctx.violation("table:chains:%s:error" % KINDS[kind][0], input=e, expected="a dump of the chains after every operation", observed=o, replay=replay_scm(e))
            continue
        steps = o.split("|")
        ktok = ";".join(token(v, C) for v in vals)
        ctx.count(len(steps), key=e, nontrivial=True)
        for j, (st, op) in enumerate(zip(steps, ops)):
            try:
                bside, aside = st.split("~")
                nb, before = parse(bside, False)
                na, after = parse(aside, True)
            except Exception:
                ctx.violation("table:chains:%s:error" % KINDS[kind][0], input=e, failing_step=j, expected="a well-formed dump", observed=st[:300], replay=replay_scm(e))
                break
            # addresses of the numbering: bucket by bucket in index order, front to back
            base, a0 = {}, 0
            for i in sorted(before):
                base[i] = a0
                a0 += len(before[i])
            cells_txt = lambda ent: ",".join("%d:%s" % (k, v) for (_, k, v) in ent) or "-"
            ctxinfo = dict(case=ci, step=j, kind=kind, op=op, e=e, before=before, after=after, nb=nb, na=na, base=base, vals=vals)
            if op[0] == "d":
                i = bucket_of(kind, vals[op[1]], nb)
                reqs.append("cdel %d %s %s %d" % (kind, ktok, cells_txt(before.get(i, [])), op[1]))
                want.append(("d", i, ctxinfo))
            elif na == nb:
                want.append(("s", bucket_of(kind, vals[op[1]], nb), ctxinfo))
                reqs.append(None)
            else:
                allb = "|".join(cells_txt(before.get(i, [])) for i in range(nb))
                reqs.append(("crelink" if relinks else "cregrow") + " %d %s %s" % (kind, ktok, allb))
                want.append(("g", bucket_of(kind, vals[op[1]], na), ctxinfo))
    idx = [i for i, r in enumerate(reqs) if r is not None]
    ans = dict(zip(idx, ctx.run_model(exe, [reqs[i] for i in idx])))
    reported = set()
    nval = 0
    for qi, (what, i, c) in enumerate(want):
        if c["case"] in reported:
            continue
        before, after, base = c["before"], c["after"], c["base"]
        exp = {}      # bucket -> list of (addr or -1, key idx or None)
        if what == "d":
            for b, ent in before.items():
                exp[b] = [(base[b] + q, k) for q, (_, k, v) in enumerate(ent)]
            a = ans[qi]
            if a == "NONE":
                ctx.broken("correspondence:chain-delete", "model ran out of fuel on %s" % reqs[qi][:200])
                continue
            if i in before:
                keep = [int(x) for x in a.split(",")] if a != "-" else []
                exp[i] = [(base[i] + q, before[i][q][1]) for q in keep]
        elif what == "s":
            for b, ent in before.items():
                exp[b] = [(base[b] + q, k) for q, (_, k, v) in enumerate(ent)]
            got_n = sum(len(x) for x in after.values())
            if got_n == a0_count(before) + 1:
                exp[i] = [(-1, None)] + exp.get(i, [])
        else:
            a = ans[qi]
            if a == "NONE":
                ctx.broken("correspondence:chain-regrow", "model ran out of fuel on %s" % reqs[qi][:200])
                continue
            flat = [(base[b] + q, k) for b in sorted(before) for q, (_, k, v) in enumerate(before[b])]
            for b, txt in enumerate(a.split("|")):
                if txt in ("", "-"):
                    continue
                if relinks:
                    exp[b] = [(int(x), flat[int(x)][1]) for x in txt.split(",")]
                else:
                    exp[b] = [(-1, int(x.split(":")[0])) for x in txt.split(",")]
            if sum(len(x) for x in after.values()) == len(flat) + 1:
                exp[i] = [(-1, None)] + exp.get(i, [])
        exp = {b: v for b, v in exp.items() if v}
        got = {b: [(a_, k) for (a_, k, v) in ent] for b, ent in after.items()}
        same = set(exp) == set(got) and all(len(exp[b]) == len(got[b]) and all(x[0] == y[0] and (x[1] is None or x[1] == y[1]) for x, y in zip(exp[b], got[b])) for b in exp)
        if same:
            nval += 1
            continue
        reported.add(c["case"])
        # is an entry lost / duplicated / misplaced (property violated) or only the identity / order of pairs different?
        keys_exp = sorted(k for v in exp.values() for (_, k) in v if k is not None)
        keys_got = sorted(k for v in got.values() for (_, k) in v)
        truncated = any(len(v) >= 3000 for v in got.values())
        placed = all(bucket_of(c["kind"], c["vals"][k], c["na"]) == b for b, v in got.items() for (_, k) in v if 0 <= k < len(c["vals"]))
        lost = truncated or not placed or len(set(keys_got)) != len(keys_got) or not set(keys_exp) <= set(keys_got) or len(keys_got) - len(keys_exp) not in (0, 1)
        desc = dict(input=c["e"], failing_step=c["step"], op=str(c["op"]), expected="chains %s" % sorted(exp.items())[:12], observed="chains %s%s" % (sorted(got.items())[:12], " (a chain does not end: cyclic)" if truncated else ""),
                    replay=replay_scm(c["e"]), history_prefix=ops_scheme(meta[c["case"]][2][:c["step"] + 1]))
        if lost:
            ctx.violation("table:chains:%s:%s" % (KINDS[c["kind"]][0], {"d": "delete", "s": "set", "g": "regrow"}[what]), **desc)
        else:
            ctx.broken("correspondence:chains:%s" % {"d": "delete", "s": "set", "g": "regrow"}[what],
                       "same entries, but the spine pairs / their order differ from the pointer-level model at step %d (%s) of %s: expected %s observed %s" % (
                           c["step"], c["op"], c["e"][:200], sorted(exp.items())[:6], sorted(got.items())[:6]))
    ctx.cov["traces_validated_against_impl"] += nval
    ctx.note("pointer-level chains: %d histories, %d operations matched pair by pair (%s regrow loop)" % (len(exprs), nval, "relinking" if relinks else "consing"))


def a0_count(before):
    return sum(len(v) for v in before.values())


def replay(ctx, rec):
    """./check C15 --replay evidence/replay/C15-n.json : re-run the recorded failing cases"""
    d = ctx.build("default")
    rc = 0
    for c in rec.get("failing_cases", []):
        rp = c.get("replay", "")
        if rp.startswith("echo "):
            r = subprocess.run(rp, shell=True, capture_output=True, text=True)
            print("replay:", c.get("input"), "->", r.stdout.strip(), "(expected %s)" % c.get("expected"))
            if r.stdout.strip() != str(c.get("expected")):
                rc = 1
        else:
            path = os.path.join(B.SCRATCH, "replay_c15.scm")
            open(path, "w").write(rp)
            r = B.run_chibi(d, [path], timeout=300)
            print("replay:", c.get("input", "")[:200], "->", r.stdout.strip()[-300:], "(expected %s; first observed %s)" % (c.get("expected"), c.get("observed")))
            rc = 1
    return rc
