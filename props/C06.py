"""C06 — continuations, dynamic-wind, parameters, exceptions follow the R7RS model.
   (G) gen/c06_travel.py: travel-to-point! of lib/init-7.scm -> coq/Gen/C06_Travel.v (proofs are about that text)
       gen/c06_shapes.py: dynamic-wind, continuation->procedure, call/cc, with-exception-handler, raise-continuable,
       guard, parameterize are pinned to the text the machine mirrors by hand
   (T) coq/Properties_C06.v
   (K-inner) the real travel-to-point! (fetched from the (chibi) environment) on generated point trees
             vs the extracted SPEC wind_script and the extracted generated function
   (K-outer) control scripts of the DSL of coq/C06/Defs.v printed as Scheme programs, run by the scratch
             chibi-scheme; the event trace is compared with the extracted machine's (coq/C06/Machine.v)."""
import itertools, os, shlex, time
from vlib import build as B, scm

FUEL = 1000
TOP_TAG = 99

# ------------------------------------------------------------------------------------------------ printing
ARITY = dict(const=0, mark=0, pref=0, show=1, seq=2, add=2, wind=1, callcc=1, throw=1, param=2, handler=2,
             guard=2)
ARITY["raise"] = 1
ARITY["raisec"] = 1


def tokens(e):
    t = e[0]
    if t in ("const", "mark", "pref"):
        return [t, str(e[1])]
    if t in ("show", "raise", "raisec"):
        return [t] + tokens(e[1])
    if t in ("seq", "add"):
        return [t] + tokens(e[1]) + tokens(e[2])
    if t in ("wind", "callcc"):
        return [t, str(e[1])] + tokens(e[2])
    if t == "windp":
        return [t, str(e[1]), str(e[2])] + tokens(e[3])
    if t == "throw":
        return [t, str(e[1]), str(e[2])] + tokens(e[3])
    if t in ("param", "handler"):
        return [t, str(e[1])] + tokens(e[2]) + tokens(e[3])
    if t == "guard":
        return [t, "_" if e[1] is None else str(e[1]), str(e[2])] + tokens(e[3]) + tokens(e[4])
    raise ValueError(t)


# ---- print variants: every exported spelling / entry point of a modelled construct (pinned by gen/c06_exports.py) ----
# prefixes: c: = the (chibi) core binding, r5: = (scheme r5rs), t18: = (srfi 18), s39: = (srfi 39), s23: = (srfi 23); bare = (scheme base)
IMPORTS_FULL = ("(import (prefix (only (chibi) call-with-current-continuation dynamic-wind with-exception-handler raise raise-continuable "
                "error values call-with-values) c:) (rename (only (chibi) %dk) (%dk c06-dk)) (prefix (srfi 39) s39:) "
                "(prefix (only (scheme r5rs) call-with-current-continuation dynamic-wind values call-with-values) r5:) "
                "(prefix (only (srfi 18) with-exception-handler raise) t18:) (prefix (only (srfi 23) error) s23:))")
IMPORTS_LIGHT = ("(import (prefix (only (chibi) call-with-current-continuation dynamic-wind with-exception-handler raise raise-continuable "
                 "error values call-with-values) c:) (rename (only (chibi) %dk) (%dk c06-dk)) (prefix (srfi 39) s39:))")
SPELLINGS = dict(
    callcc=["call-with-current-continuation", "call/cc", "c:call-with-current-continuation", "r5:call-with-current-continuation"],
    wind=["dynamic-wind", "c:dynamic-wind", "r5:dynamic-wind"],
    handler=["with-exception-handler", "c:with-exception-handler", "t18:with-exception-handler"],
    raise_=["raise", "c:raise", "t18:raise"],
    raisec=["raise-continuable", "c:raise-continuable"],
    parameterize=["parameterize", "s39:parameterize"],
    mkparam=["(make-parameter 0)", "(s39:make-parameter 0)", "(make-parameter 0 (lambda (x) x))"],
    values=["values", "c:values", "r5:values"],
    cwv=["call-with-values", "c:call-with-values", "r5:call-with-values"],
    # errors signalled by a primitive / by `error`: all non-continuable, condition canonicalised to 999 by (payload c)
    primerr=["(car 999)", "(error \"boom\" 999 1)", "(c:error \"boom\" 999)", "(s23:error \"boom\" 999)", "(vector-ref (vector 1) 999)",
             "(raise (list 999))", "(999 1)"],
    guard=["guard"],
    payload=["(if (number? c) c 999)",
             "(cond ((number? c) c) ((error-object? c) (if (and (string? (error-object-message c)) (list? (error-object-irritants c))) 999 997)) (else 999))"],
)
LIGHT_OK = lambda sp: not any(x in sp for x in ("r5:", "t18:", "s23:"))
VAR = dict(salt=0, light=False, fixed=None, override=None)


def lib_override(prefix):
    """every construct (macros too: guard, parameterize) taken from ONE re-exporting library imported with `prefix`"""
    return dict(callcc=prefix + "call/cc", wind=prefix + "dynamic-wind", handler=prefix + "with-exception-handler", raise_=prefix + "raise",
                raisec=prefix + "raise-continuable", parameterize=prefix + "parameterize", mkparam="(%smake-parameter 0)" % prefix,
                values=prefix + "values", cwv=prefix + "call-with-values", guard=prefix + "guard", primerr="(%serror \"boom\" 999)" % prefix)


IMPORTS_LIBS = ("(import (rename (only (chibi) %dk) (%dk c06-dk)) (prefix (only (scheme small) call/cc dynamic-wind with-exception-handler raise raise-continuable "
                "parameterize make-parameter values call-with-values guard error) sm:) (prefix (only (scheme red) call/cc dynamic-wind "
                "with-exception-handler raise raise-continuable parameterize make-parameter values call-with-values guard error) red:))")


def pick(kind, site=0):
    """spelling of `kind` at `site` for the script being printed: a stable function of (script, kind, site)"""
    import zlib
    if VAR["override"] and kind in VAR["override"]:
        return VAR["override"][kind]
    opts = SPELLINGS[kind]
    if VAR["light"]:
        opts = [o for o in opts if LIGHT_OK(o)]
    if VAR["fixed"] is not None:
        return opts[VAR["fixed"] % len(opts)]
    return opts[zlib.crc32(("%d:%s:%s" % (VAR["salt"], kind, site)).encode()) % len(opts)]


def mv_mode():
    """multiple values through continuations: in an mv script EVERY call/cc receiver is (call-with-values (lambda () (call/cc ..))
    (lambda vs (apply + vs))) and throws pass 1-3 values whose sum is the model's value"""
    import zlib
    return VAR["fixed"] is None and zlib.crc32(("%d:mv" % VAR["salt"]).encode()) % 3 == 0


def scheme(e):
    t = e[0]
    if t == "const":
        return str(e[1])
    if t == "mark":
        return "(begin (push! 0 %d) %d)" % (e[1], e[1])
    if t == "pref":
        return "(let ((v (p%d))) (push! %d v) v)" % (e[1], 10 + e[1])
    if t == "show":
        return "(let ((v %s)) (push! 3 v) v)" % scheme(e[1])
    if t == "seq":
        return "(begin %s %s)" % (scheme(e[1]), scheme(e[2]))
    if t == "add":
        return "(let* ((x %s) (y %s)) (+ x y))" % (scheme(e[1]), scheme(e[2]))
    if t == "wind":
        return "(%s (lambda () (pusht! 1 %d)) (lambda () %s) (lambda () (pusht! 2 %d)))" % (pick("wind", e[1]), e[1], scheme(e[2]), e[1])
    if t == "windp":
        i, p = e[1], e[2]
        return ("(%s (lambda () (pusht! 1 %d) (pusht! %d (p%d))) (lambda () %s) (lambda () (pusht! 2 %d) (pusht! %d (p%d))))"
                % (pick("wind", i), i, 10 + p, p, scheme(e[3]), i, 10 + p, p))
    if t == "callcc":
        body = scheme(e[2])
        site = "%d:%d" % (e[1], len(body))
        cc = "(%s (lambda (c) (set! k%d c) %s))" % (pick("callcc", site), e[1], body)
        if mv_mode():
            return "(%s (lambda () %s) (lambda vs (apply + vs)))" % (pick("cwv", site), cc)
        return cc
    if t == "throw":
        k, lim = e[1], e[2]
        arg = scheme(e[3])
        site = "%d:%d:%d" % (k, lim, len(arg))
        if mv_mode():
            forms = ["(k%d v)", "(k%d v 0)", "(k%d 0 v 0)", "(apply k%d (list v 0))", "(apply k%d 0 (list v))",
                     "(CWV (lambda () (VALUES 0 v)) k%d)", "(CWV (lambda () (VALUES v)) k%d)", "(CWV (lambda () v) k%d)"]
        else:
            forms = ["(k%d v)", "(k%d v)", "(apply k%d (list v))", "(CWV (lambda () v) k%d)", "(CWV (lambda () (VALUES v)) k%d)"]
        import zlib
        go = forms[zlib.crc32(("%d:throw:%s" % (VAR["salt"], site)).encode()) % len(forms)] if VAR["fixed"] is None else forms[0]
        go = (go % k).replace("CWV", pick("cwv", site)).replace("VALUES", pick("values", site))
        return "(let ((v %s)) (if (and k%d (< c%d %d)) (begin (set! c%d (+ c%d 1)) %s) v))" % (arg, k, k, lim, k, k, go)
    if t == "param":
        inner = e[3]
        pz = pick("parameterize", "%d:%d" % (e[1], size(e)))
        if (inner[0] == "param" and inner[1] != e[1] and e[2][0] == "const" and inner[2][0] == "const"
                and (e[2][1] + inner[2][1]) % 2 == 0):
            # two nested constant bindings of different parameters: printed (for half of them) as ONE parameterize with
            # two bindings — one extent with two conses instead of two extents; extents are silent, so same trace
            return "(%s ((p%d %s) (p%d %s)) %s)" % (pz, e[1], scheme(e[2]), inner[1], scheme(inner[2]), scheme(inner[3]))
        if inner[0] == "param" and inner[1] != e[1] and e[2] == ("pref", inner[1]) and inner[2][0] == "const":
            # round 4: (param a (pref b) (param b (const c) body)) = "bind pa to the OLD value of pb, then pb to c", printed as ONE
            # form whose value expression reading pb comes AFTER pb's own clause: R7RS evaluates all value expressions outside
            # the new bindings (a parameterize that binds clause by clause, like nested forms, gives pa = c instead)
            return "(%s ((p%d %s) (p%d %s)) %s)" % (pz, inner[1], scheme(inner[2]), e[1], scheme(e[2]), scheme(inner[3]))
        return "(%s ((p%d %s)) %s)" % (pz, e[1], scheme(e[2]), scheme(e[3]))
    if t == "handler":
        return "(%s (lambda (c) (push! 5 %d) (push! 6 (payload c)) %s) (lambda () %s))" % (pick("handler", e[1]), e[1], scheme(e[2]), scheme(e[3]))
    if t == "raise":
        if e[1] == ("const", 999):
            # an error signalled by the VM itself (vm.c:1171 call_error_handler) or by `error`, not by the raise opcode on a
            # number; its condition object is canonicalised to 999 by (payload c), which is what the machine raises here
            VAR["nerr"] = VAR.get("nerr", 0) + 1
            return pick("primerr", VAR["nerr"])
        return "(%s %s)" % (pick("raise_", size(e)), scheme(e[1]))
    if t == "raisec":
        return "(%s %s)" % (pick("raisec", size(e)), scheme(e[1]))
    if t == "guard":
        # same meaning, different arms of guard-aux (lib/scheme/misc-macros.scm:44-63), chosen by the tag
        style = e[2] % 4
        body = "(push! 7 %d) (push! 6 (payload c)) %s" % (e[2], scheme(e[3]))
        if e[1] is None:
            clause = ["(#t %s)", "(else %s)", "((eqv? c 12345) 0) (else %s)", "(#t => (lambda (x) %s))"][style] % body
        else:
            test = "(eqv? c %d)" % e[1]
            clause = ["(%s %s)" % (test, body),
                      "((eqv? c 12345) 0) (%s %s)" % (test, body),
                      "(%s => (lambda (x) %s))" % (test, body),
                      "((eqv? c 12345)) (%s %s)" % (test, body)][style]
        return "(%s (c %s) %s)" % (pick("guard"), clause, scheme(e[4]))
    raise ValueError(t)


def wrap(body):
    """the whole script: outermost escape continuation k0 + a top handler that always escapes to it"""
    return ("show", ("callcc", 0, ("handler", TOP_TAG, ("throw", 0, 99, ("const", 98)), body)))


# every event is recorded as four numbers  kind value depth point : depth / point describe the wind point register (%dk)
# read right after the event (depth relative to the script's start, point = serial number in order of first sight);
# events pushed by before/after thunks record -1 -1 (the register is in transit while they run)
CASE = ("(let* ((trace (list)) (pts (list)) (k0 #f) (k1 #f) (k2 #f) (k3 #f) (c0 0) (c1 0) (c2 0) (c3 0) "
        "(p0 %s) (p1 %s) (d0 (vector-ref (c06-dk) 0))) "
        "(define (push! k v) (let* ((pt (c06-dk)) (a (assq pt pts)) (i (if a (cdr a) (let ((i (length pts))) (set! pts (cons (cons pt i) pts)) i)))) "
        "(set! trace (cons i (cons (- (vector-ref pt 0) d0) (cons v (cons k trace))))))) "
        "(define (pusht! k v) (set! trace (cons -1 (cons -1 (cons v (cons k trace)))))) "
        "(define (payload c) %s) "
        "%s (reverse trace))")


def has_merge(e):
    """does scheme() print two nested parameterizes of e as ONE form (one extent instead of two: the depth of the wind
    point register then differs from the machine's by construction, so such scripts record no register reads)"""
    if e[0] == "param":
        inner = e[3]
        if (inner[0] == "param" and inner[1] != e[1] and e[2][0] == "const" and inner[2][0] == "const"
                and (e[2][1] + inner[2][1]) % 2 == 0):
            return True
        if inner[0] == "param" and inner[1] != e[1] and e[2] == ("pref", inner[1]) and inner[2][0] == "const":
            return True
    return any(has_merge(x) for x in e[1:] if isinstance(x, tuple))


def model_events(s, line):
    stc, evs = parse_model(line)
    if has_merge(s):
        evs = [(k, v, -1, -1) for k, v, _d, _p in evs]
    return stc, evs


def program(e, light=False, fixed=None, override=None):
    import zlib
    VAR["salt"] = zlib.crc32(" ".join(tokens(e)).encode())
    VAR["light"] = light
    VAR["fixed"] = fixed
    VAR["override"] = override
    VAR["nerr"] = 0
    case = CASE
    if has_merge(e):
        case = case.replace("(define (push! k v) ", "(define (push! k v) (pusht! k v)) (define (push-dk! k v) ")
    return case % (pick("mkparam", 0), pick("mkparam", 1), pick("payload"), scheme(e))


def standalone(e, fixed=None, override=None):
    return "(import (scheme base) (scheme write)) %s (write %s) (newline)" % (IMPORTS_LIBS if override else IMPORTS_FULL, program(e, fixed=fixed, override=override))


def size(e):
    return 1 + sum(size(x) for x in e[1:] if isinstance(x, tuple))


def heads(e):
    out = {e[0]}
    for x in e[1:]:
        if isinstance(x, tuple):
            out |= heads(x)
    return out


# ------------------------------------------------------------------------------------------------ generators
class Fresh:
    def __init__(self):
        self.m = 0
        self.w = 0
        self.t = 0

    def mark(self):
        self.m += 1
        return ("mark", self.m)

    def wind(self):
        self.w += 1
        return self.w

    def tag(self):
        self.t += 1
        return self.t


def relabel(e, fr=None):
    """give marks / winds / handler tags fresh numbers in traversal order (enumerated shapes use 0 everywhere)"""
    fr = fr or Fresh()
    t = e[0]
    if t == "mark":
        return fr.mark()
    if t == "wind":
        i = fr.wind()
        return ("wind", i, relabel(e[2], fr))
    if t == "windp":
        i = fr.wind()
        return ("windp", i, e[2], relabel(e[3], fr))
    if t == "handler":
        g = fr.tag()
        return ("handler", g, relabel(e[2], fr), relabel(e[3], fr))
    if t == "guard":
        g = fr.tag()
        return ("guard", e[1], g, relabel(e[3], fr), relabel(e[4], fr))
    return tuple(relabel(x, fr) if isinstance(x, tuple) else x for x in e)


def enum_shapes(n, memo={}):
    """all scripts of exactly n nodes over the reduced grammar (labels 0; relabel afterwards)"""
    if n in memo:
        return memo[n]
    out = []
    if n == 1:
        out = [("mark", 0), ("pref", 0), ("const", 1)]
    else:
        for a in enum_shapes(n - 1):
            out.append(("wind", 0, a))
            out.append(("show", a))
            for k in (1, 2):
                out.append(("callcc", k, a))
                for lim in (1, 2):
                    out.append(("throw", k, lim, a))
            out.append(("raise", a))
            out.append(("raisec", a))
        for i in range(1, n - 1):
            for a in enum_shapes(i):
                for b in enum_shapes(n - 1 - i):
                    out.append(("seq", a, b))
                    out.append(("add", a, b))
                    out.append(("param", 0, a, b))
                    out.append(("handler", 0, a, b))
                    out.append(("guard", None, 0, a, b))
                    out.append(("guard", 1, 0, a, b))
    memo[n] = out
    return out



def enum_grammar(n, leaves, unary, binary, memo):
    """all scripts of exactly n nodes; unary/binary are functions child(ren) -> node"""
    if n in memo:
        return memo[n]
    out = []
    if n == 1:
        out = list(leaves)
    else:
        for a in enum_grammar(n - 1, leaves, unary, binary, memo):
            out += [u(a) for u in unary]
        for i in range(1, n - 1):
            for a in enum_grammar(i, leaves, unary, binary, memo):
                for b in enum_grammar(n - 1 - i, leaves, unary, binary, memo):
                    out += [f(a, b) for f in binary]
    memo[n] = out
    return out


WIND_CORE = dict(leaves=[("mark", 0)],
                 unary=[lambda a: ("wind", 0, a), lambda a: ("callcc", 1, a), lambda a: ("throw", 1, 2, a)],
                 binary=[lambda a, b: ("seq", a, b)])
DYN_CORE = dict(leaves=[("pref", 0), ("const", 1)],
                unary=[lambda a: ("callcc", 1, a), lambda a: ("throw", 1, 1, a), lambda a: ("raisec", a), lambda a: ("windp", 0, 0, a)],
                binary=[lambda a, b: ("seq", a, b), lambda a, b: ("param", 0, a, b), lambda a, b: ("handler", 0, a, b),
                        lambda a, b: ("guard", 2, 0, a, b)])


def gen_random(rng, n, fr, wd=0):
    """seeded structured script of about n nodes; wd = dynamic-wind nesting so far (kept <= 4)"""
    if n <= 1:
        r = rng.random()
        if r < 0.55:
            return fr.mark()
        if r < 0.8:
            return ("pref", rng.choice([0, 0, 1]))
        return ("const", rng.randrange(1, 6))
    ops = ["seq"] * 6 + ["wind"] * (5 if wd < 4 else 0) + ["callcc"] * 4 + ["throw"] * 5 + ["param"] * 3 + \
          ["handler"] * 3 + ["raisec"] * 2 + ["raise"] * 2 + ["guard"] * 3 + ["add"] * 2 + ["show"] * 2
    op = rng.choice(ops)
    if op in ("seq", "add"):
        i = rng.randrange(1, n - 1) if n > 2 else 1
        return (op, gen_random(rng, i, fr, wd), gen_random(rng, max(1, n - 1 - i), fr, wd))
    if op == "wind":
        i = fr.wind()
        if rng.random() < 0.3:
            return ("windp", i, rng.choice([0, 0, 1]), gen_random(rng, n - 1, fr, wd + 1))
        return ("wind", i, gen_random(rng, n - 1, fr, wd + 1))
    if op == "callcc":
        return ("callcc", rng.choice([1, 2, 3]), gen_random(rng, n - 1, fr, wd))
    if op == "throw":
        return ("throw", rng.choice([1, 2, 3]), rng.choice([1, 1, 2]), gen_random(rng, n - 1, fr, wd))
    if op == "show":
        return ("show", gen_random(rng, n - 1, fr, wd))
    if op in ("raise", "raisec"):
        if op == "raise" and rng.random() < 0.3:
            return ("raise", ("const", 999))          # printed as a primitive error, (car 999)
        return (op, gen_random(rng, min(n - 1, 2), fr, wd))
    if op == "param":
        i = 1 if n <= 3 else rng.choice([1, 1, 2])
        return ("param", rng.choice([0, 0, 1]), gen_random(rng, i, fr, wd), gen_random(rng, max(1, n - 1 - i), fr, wd))
    if op == "handler":
        g = fr.tag()
        i = rng.randrange(1, max(2, (n - 1) // 2 + 1))
        return ("handler", g, gen_random(rng, i, fr, wd), gen_random(rng, max(1, n - 1 - i), fr, wd))
    if op == "guard":
        g = fr.tag()
        i = rng.randrange(1, max(2, (n - 1) // 2 + 1))
        only = rng.choice([None, None, 1, 2, 98])
        return ("guard", only, g, gen_random(rng, i, fr, wd), gen_random(rng, max(1, n - 1 - i), fr, wd))
    raise ValueError(op)


def templates(rng):
    """shapes the random grammar reaches rarely: generator re-entry, cousin jumps, re-raise through winds"""
    out = []
    for _ in range(1):
        fr = Fresh()
        leaf = lambda: gen_random(rng, rng.choice([1, 1, 2, 3]), fr)
        w = lambda b: ("wind", fr.wind(), b)
        # generator: re-enter an exited extent up to twice
        out.append(("seq", w(w(("seq", ("callcc", 1, leaf()), leaf()))), ("throw", 1, 2, ("const", 5))))
        # cousins: capture in one subtree, throw from a sibling subtree, then come back
        out.append(("seq", w(("seq", w(("callcc", 1, leaf())), w(("seq", ("callcc", 2, leaf()), ("throw", 1, 1, leaf()))))),
                    ("throw", 2, 1, leaf())))
        # parameterize + re-entry: the parameter must have the extent's value after each re-entry
        out.append(("seq", ("param", 0, ("const", 7), w(("seq", ("callcc", 1, ("pref", 0)), ("pref", 0)))),
                    ("seq", ("pref", 0), ("throw", 1, 2, ("pref", 0)))))
        # before/after thunks that read a parameter: they must see the value at the dynamic-wind CALL (7), also when the
        # extent is re-entered from outside the parameterize (where p0 is 0) and left again by the escape
        out.append(("seq", ("param", 0, ("const", 7), ("windp", fr.wind(), 0, ("param", 0, ("const", 8), ("seq", ("callcc", 1, ("pref", 0)), leaf())))),
                    ("seq", ("pref", 0), ("throw", 1, 2, ("pref", 0)))))
        # two parameters bound by ONE parameterize form (printed so by scheme()), re-entered after exit
        out.append(("seq", ("param", 0, ("const", 7), ("param", 1, ("const", 3), w(("seq", ("callcc", 1, ("pref", 1)), ("pref", 0))))),
                    ("seq", ("pref", 1), ("throw", 1, 2, ("pref", 0)))))
        # ONE parameterize form whose second value expression reads the parameter bound by the first clause: it must see
        # the value OUTSIDE the form (5), also after re-entry
        out.append(("param", 1, ("const", 5), ("seq", ("param", 0, ("pref", 1), ("param", 1, ("const", 7),
                    w(("seq", ("callcc", 1, ("pref", 0)), ("pref", 1))))), ("seq", ("pref", 0), ("throw", 1, 2, ("pref", 1))))))
        # handler inside winds, continuable raise, handler reads a parameter (must see the raise point's value)
        out.append(("handler", fr.tag(), ("seq", ("pref", 0), ("const", 4)),
                    ("param", 0, ("const", 3), w(("show", ("add", ("const", 10), ("raisec", ("const", 1))))))))
        # nested handlers: the inner handler raises -> outer handler, not itself
        out.append(("handler", fr.tag(), ("const", 6),
                    ("handler", fr.tag(), ("raisec", ("const", 2)), ("show", ("raisec", ("const", 1))))))
        # guard whose clause does not match: re-raise re-enters the winds
        out.append(("guard", None, fr.tag(), ("const", 9),
                    w(("guard", 1, fr.tag(), leaf(), w(("seq", leaf(), ("raise", ("const", 2))))))))
        # guard whose clause does not match a CONTINUABLE condition: the re-raise must stay continuable, the outer
        # handler's value must come back to the raise point (through the winds, which are re-entered)
        out.append(("handler", fr.tag(), ("const", 4),
                    ("show", ("guard", 1, fr.tag(), leaf(), w(("add", ("const", 10), ("raisec", ("const", 2))))))))
        # error signalled by a primitive inside winds, caught by guard outside; and by a handler that escapes
        out.append(("guard", None, fr.tag(), leaf(), w(("seq", leaf(), w(("raise", ("const", 999)))))))
        out.append(("callcc", 1, ("handler", fr.tag(), ("throw", 1, 1, ("const", 7)), w(("seq", ("raise", ("const", 999)), leaf())))))
        # two sibling extents of equal depth ping-pong 6 times (generator style: each resumes the other where it left)
        out.append(("seq", w(("seq", ("callcc", 1, leaf()), ("throw", 2, 3, leaf()))),
                    w(("seq", ("callcc", 2, leaf()), ("throw", 1, 3, leaf())))))
        # sibling -> sibling, then from INSIDE the re-entered extent: to the root (k3), and a fresh capture there used later
        out.append(("seq", ("callcc", 3, leaf()),
                    ("seq", w(w(("seq", ("callcc", 1, leaf()), ("seq", ("callcc", 2, leaf()), ("throw", 3, 1, leaf()))))),
                     ("seq", w(w(("throw", 1, 1, leaf()))), ("throw", 2, 1, leaf())))))
        # three siblings: 2 -> 1, from inside 1 -> 3's future? (k3 unbound: no jump), 3 -> 1 again, 1 -> 2
        out.append(("seq", w(("seq", ("callcc", 1, leaf()), ("throw", 2, 2, leaf()))),
                    ("seq", w(("seq", ("callcc", 2, leaf()), ("throw", 1, 1, leaf()))),
                     w(("seq", ("callcc", 3, leaf()), ("throw", 1, 2, leaf()))))))
        # stack contents: left operand captured with the continuation, re-entered twice
        out.append(("seq", ("show", ("add", fr.mark(), ("add", ("const", 3), ("callcc", 1, ("const", 1))))), ("throw", 1, 2, ("const", 2))))
    return out


def sibling_family(rng, thorough):
    """sequences of >= 2 jumps between SIBLING extents of equal depth (and cousins / nephews), the second one taken from
    INSIDE the extent the first one re-entered.  Script = [callcc 3 at the root] ; S_1 ; ... ; S_n ; [tail throw at the root],
    S_i = W_i(callcc i ; op ; op), W_i = one wind or two nested winds, op = nothing | throw j lim (j = a sibling's k, or k3) |
    callcc 3 (a second CAPTURE inside the re-entered extent, thrown to later).  With limits up to 3 two siblings ping-pong
    up to 6 times.  The wind point register must follow every jump: a throw/capture from inside a re-entered sibling starts
    from THAT extent (travel-to-point! from a stale register runs the other sibling's out thunk / skips the in thunk)."""
    M = ("mark", 0)
    ops = [None, ("cap",)] + [("throw", j, lim) for j in (1, 2, 3) for lim in (1, 2, 3)]

    def body(i, oplist):
        b = ("callcc", i, M)
        for op in oplist:
            if op is None:
                continue
            b = ("seq", b, ("callcc", 3, M) if op[0] == "cap" else ("throw", op[1], op[2], M))
        return b

    def script(shapes, bodies, tail, rootk):
        sibs = []
        for sh, b in zip(shapes, bodies):
            x = ("wind", 0, b)
            if sh == "ww":
                x = ("wind", 0, x)
            elif sh == "pw":
                x = ("param", 0, ("const", 7), ("wind", 0, ("seq", ("pref", 0), b)))      # a parameterize extent + a wind: depth 2
            sibs.append(x)
        e = sibs[-1] if tail is None else ("seq", sibs[-1], ("throw", tail[0], tail[1], M))
        for x in reversed(sibs[:-1]):
            e = ("seq", x, e)
        if rootk:
            e = ("seq", ("callcc", 3, M), e)
        return relabel(e)
    core, rest = [], []
    # structured core: two siblings of EQUAL depth, one op each, with / without a root continuation and a root-level tail throw
    for sh in (("w", "w"), ("ww", "ww")):
        for a in ops:
            for b in ops:
                for tail, rootk in ((None, False), ((3, 1), True), ((1, 1), False)):
                    core.append(script(sh, [body(1, [a]), body(2, [b])], tail, rootk))
    # the wider family (sampled in the quick tier): two ops per sibling, mixed depths (nephews), three siblings, parameterize extents
    tails = [None, (3, 1), (1, 1), (2, 2), (1, 3)]
    shapes2 = [("w", "w"), ("ww", "ww"), ("w", "ww"), ("ww", "w"), ("pw", "ww"), ("pw", "pw")]
    n_rest = 500 if not thorough else 12000
    seen = set()
    while len(rest) < n_rest:
        if rng.random() < 0.6:
            sh = rng.choice(shapes2)
            bs = [body(i + 1, [rng.choice(ops), rng.choice(ops)]) for i in range(2)]
        else:
            sh = rng.choice([("w", "w", "w"), ("ww", "ww", "ww"), ("w", "ww", "w"), ("ww", "pw", "ww")])
            bs = [body(min(i + 1, 3) if i < 2 else 3, [rng.choice(ops), rng.choice(ops[:1] + ops[2:])]) for i in range(3)]
        e = script(sh, bs, rng.choice(tails), rng.random() < 0.4)
        key = tuple(tokens(e))
        if key not in seen:
            seen.add(key)
            rest.append(e)
    return core + rest


def deep_family(rng, thorough):
    """round 4: DEPTH.  Every other stream keeps the dynamic nesting small (wind depth <= 4, two parameters), so code whose
    behaviour depends on the LENGTH of the dynamic-binding alist, on the depth of the wind chain or on the height of the value
    stack is not reached.  Here N = 5..40 (thorough ..120) extents of {dynamic-wind, dynamic-wind reading a parameter,
    parameterize p0/p1, with-exception-handler (returning or re-raising), non-matching guard} are nested around a core:
      0 read both parameters and raise-continuable at the bottom (alist lookups of the PARAMETER_REF opcode and of the
        VM raise, N bindings deep; re-raises climb the whole handler chain);
      1 generator: capture at the bottom, re-enter twice from outside (N befores / afters per jump, parameters re-read);
      2 cousins N deep on both sides (N afters then N befores, travel-to-point! 2N+1 deep);
      3 a primitive error at the bottom, caught by a guard outside everything;
      4 N pending additions (value stack ~4N words) captured with the continuation and re-entered twice: every operand
        must come back;
      5/6 a handler / guard whose alist entry lies under N parameter bindings (the C-level handler lookup of the VM raise)."""
    out = []
    depths = [5, 8, 9, 15, 16, 17, 24, 31, 33, 40]
    if thorough:
        depths += [6, 7, 10, 12, 20, 28, 32, 36, 48, 56, 63, 64, 65, 80, 96, 100, 120] * 3

    def wrapn(fr, b, n, plain=False, only_params=False):
        for _ in range(n):
            r = rng.random()
            if only_params:
                b = ("param", rng.choice([0, 1]), ("const", rng.randrange(1, 9)), b)
            elif plain or r < 0.3:
                b = ("wind", fr.wind(), b)
            elif r < 0.4:
                b = ("windp", fr.wind(), rng.choice([0, 1]), b)
            elif r < 0.7:
                b = ("param", rng.choice([0, 1]), ("const", rng.randrange(1, 9)), b)
            elif r < 0.8:
                b = ("handler", fr.tag(), ("seq", ("pref", rng.choice([0, 1])), ("const", rng.randrange(1, 6))), b)
            elif r < 0.9:
                b = ("handler", fr.tag(), ("add", ("pref", rng.choice([0, 1])), ("raisec", ("const", 2))), b)
            else:
                b = ("guard", 1, fr.tag(), ("const", 3), b)
        return b
    for n in depths:
        fr = Fresh()
        out.append(wrapn(fr, ("seq", ("pref", 0), ("add", ("pref", 1), ("raisec", ("const", 2)))), n))
        fr = Fresh()
        out.append(("seq", wrapn(fr, ("seq", ("callcc", 1, ("pref", 0)), ("pref", 1)), n), ("seq", ("pref", 1), ("throw", 1, 2, ("pref", 0)))))
        fr = Fresh()
        out.append(("seq", ("wind", fr.wind(), ("seq", wrapn(fr, ("callcc", 1, fr.mark()), n), wrapn(fr, ("throw", 1, 1, ("pref", 0)), n))),
                    ("throw", 1, 2, fr.mark())))
        fr = Fresh()
        out.append(("guard", None, fr.tag(), ("pref", 0), wrapn(fr, ("seq", fr.mark(), ("raise", ("const", 999))), n, plain=(n % 2 == 0))))
        # 5/6: the handler is the OUTERMOST entry of an alist of n parameter bindings (the VM raise's own alist walk,
        # eval.c sexp_parameter_ref, is a different loop from the PARAMETER_REF opcode's): continuable raise / primitive error
        fr = Fresh()
        pb = lambda b: wrapn(fr, b, n, only_params=True)
        out.append(("handler", fr.tag(), ("seq", ("pref", 0), ("const", 4)), pb(("add", ("pref", 1), ("raisec", ("const", 2))))))
        fr = Fresh()
        out.append(("guard", None, fr.tag(), ("pref", 0), pb(("seq", ("pref", 1), ("raise", ("const", 999))))))
        fr = Fresh()
        b = ("callcc", 1, ("const", 1))
        for i in range(3 * n):
            b = ("add", ("const", 1 + (i * 7 + n) % 9), b)
        out.append(("seq", ("show", ("wind", fr.wind(), b)), ("throw", 1, 2, ("const", 2))))
    return out


# ---- K-inner on the aliases: every exported procedure spelling is THE SAME OBJECT as the binding the machine mirrors ----
ALIAS_PROCS = ["call-with-current-continuation", "call/cc", "dynamic-wind", "with-exception-handler", "raise", "raise-continuable", "error",
               "values", "call-with-values", "make-parameter", "error-object?", "error-object-message", "error-object-irritants"]
ALIAS_REF = {"call/cc": "call-with-current-continuation"}          # what an alias must be eq? to, by its (scheme base) name


def alias_identity(ctx, d):
    """eq? of every exported procedure spelling (library list from the CURRENT tree's .sld files) with the (scheme base)
    binding, and of the (scheme base) bindings with the (chibi) core binding the machine mirrors"""
    from gen import c06_exports as E
    import subprocess
    ex = E.scan_exports(B.REPO)
    libs = {}
    for nm in ALIAS_PROCS:
        for f in ex.get(nm, []):
            libs.setdefault(f, []).append(nm)
    imports, checks = [], []
    core = [n for n in ALIAS_PROCS if n not in ("call/cc", "make-parameter", "error-object?", "error-object-message", "error-object-irritants")]
    imports.append("(prefix (only (chibi) %s) core:)" % " ".join(core))
    for n in core:
        checks.append(("(chibi)", n, "(eq? core:%s %s)" % (n, n)))
    checks.append(("(scheme base)", "call/cc", "(eq? call/cc core:call-with-current-continuation)"))
    for j, (f, names) in enumerate(sorted(libs.items())):
        lib = "(" + f[len("lib/"):-len(".sld")].replace("/", " ") + ")"
        if lib == "(scheme base)":
            continue
        imports.append("(prefix (only %s %s) l%d:)" % (lib, " ".join(names), j))
        for n in names:
            checks.append((lib, n, "(eq? l%d:%s %s)" % (j, n, ALIAS_REF.get(n, n))))
    prog = "(import (scheme base) (scheme write) %s)\n(write (list %s))\n" % (" ".join(imports), " ".join(c[2] for c in checks))
    try:
        r = B.run_chibi(d, ["/dev/stdin"], input=prog, timeout=180)
        out = r.stdout.strip()
    except subprocess.TimeoutExpired:
        out = "TIMEOUT"
    vals = out[1:-1].split() if out.startswith("(") and out.endswith(")") else []
    if len(vals) != len(checks):
        ctx.broken("alias-identity", "the alias identity program did not run: %s %s" % (out[:200], (r.stderr if out != "TIMEOUT" else "")[-300:]))
        return
    bad = [(lib, n) for (lib, n, _c), v in zip(checks, vals) if v != "#t"]
    for lib, n, _c in checks:
        ctx.count(1, key=("alias", lib, n), nontrivial=True)
    ctx.sample(dict(kind="alias identity", checked=len(checks), libraries=sorted({c[0] for c in checks}), not_identical=bad))
    for lib, n in bad:
        # not a violation by itself (a wrapper can be harmless): the print variants run the trace correspondence through
        # this spelling and decide; but the spelling is no longer covered by the theorems about the mirrored definition
        ctx.broken("alias:%s:%s" % (lib, n), "%s exported by %s is no longer the same procedure object as the definition the machine mirrors (%s); "
                   "replay: printf '%%s' %s | LD_LIBRARY_PATH=%s CHIBI_MODULE_PATH=%s/lib CHIBI_IGNORE_SYSTEM_PATH=1 %s/chibi-scheme /dev/stdin" % (
                       n, lib, ALIAS_REF.get(n, n), shlex.quote(prog), d, d, d))


# ------------------------------------------------------------------------------------------------ comparison
def classify(model, impl):
    """signature class of a model/implementation trace difference"""
    if impl is None or impl.startswith("CRASH"):
        return "crash"
    if impl == "TIMEOUT":
        return "timeout"
    if impl.startswith("ERR"):
        return "error"
    m, i = model, parse_impl(impl)
    if i is None:
        return "output"
    i = canon_points(i)
    if kv(m) == kv(i):
        return "dk-register"
    m, i = kv(m), kv(i)
    n = 0
    while n < len(m) and n < len(i) and m[n] == i[n]:
        n += 1
    ks = {e[0] for e in (m[n:n + 1] + i[n:n + 1])}
    if ks & {1, 2}:
        return "wind-order"
    if any(k >= 10 for k in ks):
        return "param-value"
    if ks & {5, 6, 7}:
        return "handler"
    if 3 in ks:
        return "value"
    return "control-flow"


def parse_impl(s, group=4):
    s = s.strip()
    if not (s.startswith("(") and s.endswith(")")):
        return None
    try:
        xs = [int(x) for x in s[1:-1].split()]
    except ValueError:
        return None
    if len(xs) % group:
        return None
    return [tuple(xs[j:j + group]) for j in range(0, len(xs), group)]


def canon_points(evs):
    """rename the wind points of a (kind value depth point) trace in order of first sight (-1 = not recorded)"""
    ren, out = {}, []
    for k, v, dp, pt in evs:
        if pt >= 0:
            pt = ren.setdefault(pt, len(ren))
        out.append((k, v, dp, pt))
    return out


def kv(evs):
    return [(e[0], e[1]) for e in evs]


def parse_model(s):
    """answer of `rundk`: status, [(kind, value, depth of the machine's dk, dk)] with points renamed in order of first sight"""
    f = s.split()
    return int(f[0]), canon_points([tuple(int(x) for x in t.split(":")) for t in f[1:]])


# ------------------------------------------------------------------------------------------------ K-inner: travel-to-point!
TRAVEL_PRELUDE = """
(define c06-env (environment '(chibi)))
(define c06-travel (eval 'travel-to-point! c06-env))
(define c06-make-point (eval '%make-point c06-env))
(define c06-root (eval 'root-point c06-env))
(define (c06-run spec here target)
  ;; spec: list of (depth parent-index) for points 1..n; point 0 is the real root-point
  (let* ((tr (list))
         (pts (make-vector (+ 1 (length spec)) c06-root)))
    (let lp ((i 1) (s spec))
      (if (pair? s)
          (begin
            (vector-set! pts i (c06-make-point (car (car s))
                                               (lambda () (set! tr (cons i (cons 1 tr))))
                                               (lambda () (set! tr (cons i (cons 2 tr))))
                                               (vector-ref pts (cadr (car s)))))
            (lp (+ i 1) (cdr s)))))
    (c06-travel (vector-ref pts here) (vector-ref pts target))
    (reverse tr)))
"""


def gen_tree(rng, n):
    """random well-formed heap: point i>0 has a parent among 0..i-1"""
    depth, par = [0], [0]
    for i in range(1, n + 1):
        p = rng.randrange(0, i) if rng.random() < 0.5 else i - 1
        par.append(p)
        depth.append(depth[p] + 1)
    return depth, par


def travel_cases(ctx, exe, d):
    rng = ctx.rng
    reqs, exprs, meta = [], [], []
    trees = []
    # exhaustive: every tree with <= 4 points beyond the root, every pair
    for n in range(0, 5 if not ctx.thorough else 6):
        for pars in itertools.product(*[range(0, i) for i in range(1, n + 1)]):
            par = [0] + list(pars)
            depth = [0] * (n + 1)
            for i in range(1, n + 1):
                depth[i] = depth[par[i]] + 1
            trees.append((depth, par))
    for _ in range(40 if not ctx.thorough else 400):
        trees.append(gen_tree(rng, rng.randrange(5, 14)))
    for depth, par in trees:
        n = len(par) - 1
        pairs = [(a, b) for a in range(n + 1) for b in range(n + 1)]
        if n > 5:
            pairs = rng.sample(pairs, 12)
        hs = ",".join("%d/%d" % (depth[i], par[i]) for i in range(n + 1))
        spec = "(list %s)" % " ".join("(list %d %d)" % (depth[i], par[i]) for i in range(1, n + 1))
        for a, b in pairs:
            reqs.append("script %s %d %d" % (hs, a, b))
            reqs.append("travel %s %d %d" % (hs, a, b))
            exprs.append("(c06-run %s %d %d)" % (spec, a, b))
            meta.append((hs, a, b, depth))
    mo = ctx.run_model(exe, reqs)
    io, _hard = run_chibi(d, exprs, prelude_extra=TRAVEL_PRELUDE, timeout=90, chunk=500)
    io += [None] * (len(exprs) - len(io))
    for j, (e, i, m) in enumerate(zip(exprs, io, meta)):
        spec_s, gen_s = mo[2 * j], mo[2 * j + 1]
        want = [] if spec_s == "-" else [((1 if t[0] == "i" else 2), int(t[1:])) for t in spec_s.split()]
        got = parse_impl(i, 2) if i is not None else None
        hs, a, b, depth = m
        ctx.count(1, key=("travel", hs, a, b), nontrivial=(a != b and depth[a] > 0 and depth[b] > 0))
        ctx.cov["traces_validated_against_impl"] += 1
        if gen_s != spec_s:
            _broken_once(ctx, "gen:C06_Travel:spec", "extracted travel_to_point differs from wind_script on heap %s %d->%d: %s vs %s" % (hs, a, b, gen_s, spec_s))
        if got != want:
            rel = "ancestor" if depth[a] != depth[b] else "cousin"
            ctx.violation("travel-to-point:%s" % ("crash" if got is None else rel), input=dict(heap=hs, here=a, target=b),
                          expected=spec_s, observed=i,
                          replay="printf '%%s' %s | LD_LIBRARY_PATH=%s CHIBI_MODULE_PATH=%s/lib CHIBI_IGNORE_SYSTEM_PATH=1 %s/chibi-scheme /dev/stdin" % (
                              shlex.quote("(import (scheme base) (scheme write) (scheme eval)) " + TRAVEL_PRELUDE.replace("\n", " ") + " (write %s)" % e), d, d, d))
    if exprs:
        ctx.sample(dict(kind="travel-to-point!", request=reqs[-2], spec=mo[-2], generated=mo[-1], impl=io[-1]))




# ------------------------------------------------------------------------------------------------ K-inner: the stack copy of call/cc
def stack_cases(ctx, exe, d):
    """sexp_save_stack / sexp_restore_stack (vm.c:890-913, exposed by fixes/hook-C06-stack.patch) on generated stacks
    vs the extracted coq/C06/StackModel.v; oracle for a disagreement: save = the first `to` words, restore = the saved
    words followed by the untouched rest, top = number of saved words"""
    import subprocess
    src = os.path.join(os.path.dirname(__file__), "..", "harness", "embed_c06.c")
    try:
        emb = B.cc_embed(d, src, os.path.join(d, "embed_c06"))
    except B.BuildError as e:
        if "sexp_verif_save_stack" in str(e) or "sexp_verif_restore_stack" in str(e):
            # tree without fixes/hook-C06-stack.patch: this stream cannot run; the trace correspondence still covers call/cc
            ctx.assume("stack-copy inner correspondence SKIPPED: fixes/hook-C06-stack.patch is not applied to this tree")
        else:
            ctx.broken("hook:C06-stack", "harness/embed_c06.c does not build: %s" % str(e)[-300:])
        return
    env = B.chibi_env(d)
    n_alloc = int(subprocess.run([emb], input="info\n", capture_output=True, text=True, env=env, timeout=30).stdout.split()[0])
    rng = ctx.rng
    reqs_c, reqs_m, meta = [], [], []

    def ws(l):
        return ",".join(str(x) for x in l) if l else "_"
    for _ in range(300 if not ctx.thorough else 5000):
        n = rng.choice([0, 1, 2, 3, 5, 8, 13, 40])
        st = [rng.randrange(1, 100) for _ in range(n)]
        if rng.random() < 0.5:
            to = rng.choice([0, 1, n, n + 4, max(0, n - 1), rng.randrange(0, n + 5)])
            reqs_c.append("save %s %d" % (ws(st), to))
            reqs_m.append("ssave %d %s %d" % (n_alloc, ws(st), to))
            meta.append(("save", st, to))
        else:
            m = rng.choice([0, 1, 4, 5, n, n + 4, rng.randrange(0, 60), n_alloc - 66, n_alloc - 65, n_alloc - 64, n_alloc - 63,
                            2 * n_alloc - 65, 2 * n_alloc - 64, 2 * n_alloc - 63, 3 * n_alloc + 7])
            sv = [rng.randrange(100, 200) for _ in range(max(0, m))]
            reqs_c.append("restore %s %s" % (ws(st), ws(sv)))
            if m + 64 >= n_alloc:
                # growth branch (sexp_grow_stack): restore_stack_g of StackModel.v; the cap SEXP_MAX_STACK_SIZE (1000 x the
                # initial size) is never reached by these requests, the model gets a smaller one (unary numbers)
                reqs_m.append("srestoreg %d %s %s %d" % (n_alloc, ws(st), ws(sv), 20 * n_alloc))
            else:
                reqs_m.append("srestore %d %s %s" % (n_alloc, ws(st), ws(sv)))
            meta.append(("restore", st, sv))
    r = subprocess.run([emb], input="\n".join(reqs_c) + "\n", capture_output=True, text=True, env=env, timeout=300)
    co = r.stdout.split("\n")
    mo = ctx.run_model(exe, reqs_m)
    if r.returncode != 0 or len(co) < len(reqs_c):
        ctx.violation("stack-copy:crash", input=reqs_c[min(len(co), len(reqs_c)) - 1], expected="an answer", observed="harness died rc=%s" % r.returncode,
                      replay="echo '%s' | LD_LIBRARY_PATH=%s %s" % (reqs_c[min(len(co), len(reqs_c)) - 1], d, emb))
        return
    order = sorted(range(len(reqs_c)), key=lambda j: len(reqs_c[j]))         # report the smallest failing request first
    for q, c, m, (kind, st, x) in [(reqs_c[j], co[j], mo[j], meta[j]) for j in order]:
        ctx.count(1, key=("stack", q), nontrivial=bool(st) and bool(x))
        ctx.cov["traces_validated_against_impl"] += 1
        if kind == "save":
            padded = st + [0] * max(0, x - len(st))
            want = ws(padded[:x])
            ok_c, ok_m = (c == want), (m == want)
        else:
            k = max(len(st), len(x)) + 2
            cf = c.split()
            if len(x) + 64 >= n_alloc:                       # growth path: new stack of max(2*size, len+64) words, saved words restored
                newlen = max(2 * n_alloc, len(x) + 64)
                want = "%d %s %d" % (len(x), ws(x), newlen)
                ok_m = (m == want)
                ok_c = len(cf) == 3 and cf[0] == str(len(x)) and cf[1].split(",")[:len(x)] == [str(v) for v in x] and int(cf[2]) == newlen
            else:
                full = x + (st + [0] * (k + len(x)))[len(x):]
                want = "%d %s" % (len(x), ws(full[:k]))
                ok_m = (m == want)
                ok_c = len(cf) == 3 and "%s %s" % (cf[0], cf[1]) == want and int(cf[2]) == n_alloc
        if not ok_c:
            ctx.violation("stack-copy:" + kind, input=q, expected=want[:400], observed=c[:400], model=m[:400], replay="echo '%s' | LD_LIBRARY_PATH=%s %s" % (q, d, emb))
        elif not ok_m:
            _broken_once(ctx, "correspondence:stack-copy", "StackModel differs from vm.c (C agrees with the oracle): %s model=%s impl=%s" % (q, m, c))
    ctx.sample(dict(kind="stack-copy", request=reqs_c[0][:300], model=mo[0][:300], impl=co[0][:300], allocated=n_alloc))


# ------------------------------------------------------------------------------------------------ escapes through C callbacks
# Procedures called back from C code (sexp_apply from qsort.c, from the macro expander inside eval, from hash.c)
# run in a nested VM loop on the C stack.  R7RS makes no difference: escaping from them by a continuation or by an
# exception caught outside must simply continue after the guard / call/cc, once.
CB_PROGRAMS = [
    # (site, program, expected stdout)
    ("scheme-callback-control",
     "(import (scheme base) (scheme write)) (define (show x) (write x) (newline)) "
     "(show (guard (x (#t (list (quote caught) x))) (map (lambda (a) (if (= a 2) (raise (quote boom)) a)) (list 1 2 3)))) (show (quote end))",
     "(caught boom)\nend\n"),
    ("sort-comparator-raise",
     "(import (scheme base) (scheme write) (srfi 95)) (define (show x) (write x) (newline)) (define n 0) "
     "(show (guard (x (#t (list (quote caught) x))) (sort (list 3 1 2 5 4) (lambda (a b) (set! n (+ n 1)) (if (= n 2) (raise (quote boom)) (< a b)))))) "
     "(show (quote end))",
     "(caught boom)\nend\n"),
    ("sort-comparator-callcc",
     "(import (scheme base) (scheme write) (srfi 95)) (define (show x) (write x) (newline)) (define n 0) "
     "(show (call-with-current-continuation (lambda (k) (sort (list 3 1 2 5 4) (lambda (a b) (set! n (+ n 1)) (if (= n 2) (k (quote escaped)) (< a b))))))) "
     "(show (quote end))",
     "escaped\nend\n"),
    ("macro-transformer-error-in-eval",
     "(import (scheme base) (scheme write) (scheme eval)) (define (show x) (write x) (newline)) (define e (environment (quote (scheme base)))) "
     "(show (guard (x (#t (quote caught))) (eval (quote cond) e))) (show (quote end))",
     "caught\nend\n"),
    ("hash-function-raise",
     "(import (scheme base) (scheme write) (srfi 69)) (define (show x) (write x) (newline)) "
     "(define ht (make-hash-table equal? (lambda (k . o) (if (eqv? k 2) (raise (quote boom)) 0)))) (hash-table-set! ht 1 1) "
     "(show (guard (x (#t (list (quote caught) x))) (hash-table-set! ht 2 2) (quote stored))) (show (quote end))",
     "(caught boom)\nend\n"),
]


def callback_escapes(ctx, d, exe=None):
    import subprocess
    nviol0 = len(ctx.violations)
    for site, prog, want in CB_PROGRAMS:
        try:
            r = B.run_chibi(d, ["/dev/stdin"], input=prog, timeout=20)
            got, rc = r.stdout, r.returncode
        except subprocess.TimeoutExpired:
            got, rc = "TIMEOUT", "timeout"
        ctx.count(1, key=("cb", site), nontrivial=(site != "scheme-callback-control"))
        ctx.cov["traces_validated_against_impl"] += 1
        if got != want or rc != 0:
            ctx.violation("c-callback-escape:" + site, input=prog, expected=dict(stdout=want, rc=0), observed=dict(stdout=got[-400:], rc=rc),
                          replay="printf '%%s' %s | LD_LIBRARY_PATH=%s CHIBI_MODULE_PATH=%s/lib CHIBI_IGNORE_SYSTEM_PATH=1 %s/chibi-scheme /dev/stdin; echo rc=$?" % (
                              shlex.quote(prog), d, d, d))
    if exe is not None:
        # the machine mirrors this behaviour (CCall / FCReturn / stale C frame, theorem c_callback_transparent_refuted):
        # model and code must stay in step — if the code gets repaired the model has to follow
        m = ctx.run_model(exe, ["runimpl 100 seq show callcc 1 ccall throw 1 1 const 5 mark 1",
                                "run 100 seq show callcc 1 throw 1 1 const 5 mark 1"])
        ctx.sample(dict(kind="c-callback model", mirrored=m[0], r7rs=m[1]))
        model_stale = m[0].startswith("19 ")
        code_stale = len(ctx.violations) > nviol0
        if model_stale != code_stale:
            ctx.broken("ccall-model-vs-code", "machine predicts %s for an escape out of a C callback but the binary %s" % (
                "a stale C frame" if model_stale else "a clean run", "misbehaves" if code_stale else "runs cleanly"))


# ------------------------------------------------------------------------------------------------ K-inner: multiple values
def values_cases(ctx, exe, d):
    """the real values / call-with-values / continuation procedures (every exported spelling) on 0..4 values, directly,
    through an escaping continuation and through a RE-ENTERED one, vs the extracted coq/C06/ValuesModel.v"""
    reqs, exprs, meta = [], [], []
    lists = [[], [5], [1, 2], [0, 7, 0], [4, 3, 2, 1]]
    for ls in lists:
        args = " ".join(str(x) for x in ls)
        key = ",".join(str(x) for x in ls) or "_"
        for vs in SPELLINGS["values"]:
            for cw in SPELLINGS["cwv"]:
                reqs.append("values v %s" % key)
                exprs.append("(%s (lambda () (%s %s)) list)" % (cw, vs, args))
                meta.append(("values", vs, cw, ls))
        for cc in SPELLINGS["callcc"]:
            cw = SPELLINGS["cwv"][len(ls) % 3]
            reqs.append("values k %s" % key)
            exprs.append("(%s (lambda () (%s (lambda (k) (dynamic-wind (lambda () #f) (lambda () (k %s)) (lambda () #f))))) list)" % (cw, cc, args))
            meta.append(("escape", cc, cw, ls))
            reqs.append("values k %s" % key)
            exprs.append("(let ((k #f) (n 0) (acc (list))) (%s (lambda () (%s (lambda (c) (set! k c) (values 9 9)))) (lambda xs (set! acc (cons xs acc)))) "
                         "(if (= n 0) (begin (set! n 1) (k %s))) (car acc))" % (cw, cc, args))
            meta.append(("re-entry", cc, cw, ls))
    mo = ctx.run_model(exe, reqs)
    io, _hard = run_chibi(d, exprs, prelude_extra=IMPORTS_FULL, timeout=60)
    io += [None] * (len(exprs) - len(io))
    for e, i, m, (how, a, b, ls) in zip(exprs, io, mo, meta):
        ctx.count(1, key=("values", how, a, b, tuple(ls)), nontrivial=len(ls) != 1)
        ctx.cov["traces_validated_against_impl"] += 1
        want = "(" + " ".join(str(x) for x in ls) + ")"
        got = None if i is None else i.replace("f", "")             # verif-show prints fixnums as f<hex>; values here are < 10
        if got != want:
            ctx.violation("values:" + how, input=e, expected=want, observed=i, model=m, spellings=[a, b],
                          replay="printf '%%s' %s | LD_LIBRARY_PATH=%s CHIBI_MODULE_PATH=%s/lib CHIBI_IGNORE_SYSTEM_PATH=1 %s/chibi-scheme /dev/stdin" % (
                              shlex.quote("(import (scheme base) (scheme write)) %s (write %s)" % (IMPORTS_FULL, e)), d, d, d))
        elif m != want:
            _broken_once(ctx, "correspondence:values", "ValuesModel differs from the code (code agrees with R7RS): %s model=%s impl=%s" % (e, m, i))
    ctx.sample(dict(kind="values", request=reqs[-1], expr=exprs[-1], model=mo[-1], impl=io[-1]))


# ------------------------------------------------------------------------------------------------ green threads: per-thread dynamic state
# the wind point register and the parameter alist are PER THREAD (context.dk / context.params): a binding made by one
# green thread's parameterize must not be seen by another thread that runs while it is in force, and an escape in one
# thread must not run another thread's after thunks.  Hand-computed expectations; per-thread order only (the
# interleaving itself is the scheduler's business).
THREAD_PROGRAMS = [
    ("parameterize-per-thread",
     "(import (scheme base) (scheme write) (srfi 18)) (define p (make-parameter 1)) (define ra #f) (define rb #f) (define rc #f) "
     "(define (worker v set) (lambda () (parameterize ((p v)) (thread-yield!) (let ((x (p))) (thread-yield!) (set (list x (p))))))) "
     "(define ta (make-thread (worker 10 (lambda (x) (set! ra x))))) (define tb (make-thread (worker 20 (lambda (x) (set! rb x))))) "
     "(thread-start! ta) (thread-start! tb) "
     "(parameterize ((p 5)) (thread-yield!) (set! rc (p)) (thread-join! ta) (thread-join! tb) (set! rc (list rc (p)))) "
     "(write (list ra rb rc (p)))",
     lambda out: out.strip() == "((10 10) (20 20) (5 5) 1)", "((10 10) (20 20) (5 5) 1)"),
    ("parameterize-per-thread-srfi39-converter",
     "(import (scheme base) (scheme write) (srfi 18) (prefix (srfi 39) s39:)) (define p (s39:make-parameter 1 (lambda (x) (* x 2)))) (define ra #f) (define rc #f) "
     "(define ta (make-thread (lambda () (s39:parameterize ((p 10)) (thread-yield!) (set! ra (p)) (thread-yield!) (set! ra (list ra (p))))))) "
     "(thread-start! ta) (thread-yield!) (set! rc (p)) (s39:parameterize ((p 3)) (thread-yield!) (set! rc (list rc (p)))) (thread-join! ta) "
     "(write (list ra rc (p)))",
     lambda out: out.strip() == "((20 20) (2 6) 2)", "((20 20) (2 6) 2)"),
    ("winds-per-thread",
     "(import (scheme base) (scheme write) (srfi 18)) (define tr (list)) (define (push! x) (set! tr (cons x tr))) "
     "(define ta (make-thread (lambda () (dynamic-wind (lambda () (push! 11)) (lambda () (thread-yield!) (thread-yield!) (push! 12)) (lambda () (push! 13)))))) "
     "(thread-start! ta) "
     "(push! (call-with-current-continuation (lambda (k) (dynamic-wind (lambda () (push! 1)) (lambda () (thread-yield!) (k 2)) (lambda () (push! 3)))))) "
     "(thread-join! ta) (write (reverse tr))",
     lambda out: (lambda xs: sorted(xs) == [1, 2, 3, 11, 12, 13] and [x for x in xs if x < 10] == [1, 3, 2] and [x for x in xs if x > 10] == [11, 12, 13])(
         [int(x) for x in out.strip().strip("()").split()] if out.strip().startswith("(") else []),
     "a permutation of (1 3 2 11 12 13) keeping 1 3 2 and 11 12 13 in order"),
]


def thread_state(ctx, d):
    import subprocess
    for name, prog, ok, want in THREAD_PROGRAMS:
        try:
            r = B.run_chibi(d, ["/dev/stdin"], input=prog, timeout=30)
            out, rc, err = r.stdout, r.returncode, r.stderr
        except subprocess.TimeoutExpired:
            out, rc, err = "TIMEOUT", "timeout", ""
        if "srfi 18" in err and "couldn't find" in err:
            ctx.assume("per-thread dynamic state stream SKIPPED: no (srfi 18) in this build")
            return
        ctx.count(1, key=("threads", name), nontrivial=True)
        ctx.cov["traces_validated_against_impl"] += 1
        try:
            good = rc == 0 and ok(out)
        except ValueError:
            good = False
        if not good:
            ctx.violation("thread-dynamic-state:" + name, input=prog, expected=want, observed=dict(stdout=out[:300], rc=rc, stderr=err[-200:]),
                          replay="printf '%%s' %s | LD_LIBRARY_PATH=%s CHIBI_MODULE_PATH=%s/lib CHIBI_IGNORE_SYSTEM_PATH=1 %s/chibi-scheme /dev/stdin; echo rc=$?" % (
                              shlex.quote(prog), d, d, d))


# ------------------------------------------------------------------------------------------------ RESUMECC on a stack that must grow
# Within one context a saved stack always fits (the stack never shrinks), so the growth branch of sexp_restore_stack
# is only reachable when a continuation is resumed on ANOTHER context's stack: a green thread (fresh 1024-word stack)
# invoking a continuation captured deep in the main thread.  call-with-current-continuation refuses that (wind points
# of different threads have different roots: travel-to-point! fails), the raw primitive %call/cc exported by (chibi)
# does not.  RESUMECC must then continue on the NEW stack object (coq/C06/StackModel.v resumecc_g; theorem
# callcc_resume_restores_grown; the opcode that keeps reading the old object is resumecc_stale, refuted).
RESUMECC_GROW = ("(import (scheme base) (scheme write) (srfi 18) (only (chibi) %%call/cc)) (define k #f) (define n 0) "
                 "(define (sum i) (if (= i 0) (%%call/cc (lambda (c) (set! k c) 0)) (+ i (sum (- i 1))))) "
                 "(define (main depth) (let ((v (sum depth))) (write (list (quote sum) v (quote n) n)) (newline) "
                 "(if (= n 0) (begin (set! n 1) (let ((t (make-thread (lambda () (k 1))))) (thread-start! t) (thread-join! t)))) (quote end))) "
                 "(write (main %d)) (newline)")


def resumecc_growth(ctx):
    import subprocess
    try:
        da = ctx.build("asan")
    except Exception:
        return
    for depth in ([100, 3000, 20000] if not ctx.thorough else [10, 100, 180, 200, 250, 300, 1000, 3000, 20000, 100000]):
        prog = RESUMECC_GROW % depth
        env = B.chibi_env(da, dict(ASAN_OPTIONS=GC_ASAN))
        try:
            r = subprocess.run([os.path.join(da, "chibi-scheme"), "/dev/stdin"], input=prog, capture_output=True, text=True, errors="replace", timeout=120, env=env)
            out, rc, err = r.stdout, r.returncode, r.stderr
        except subprocess.TimeoutExpired:
            out, rc, err = "", "timeout", ""
        total = depth * (depth + 1) // 2
        want = ["(sum %d n 0)" % total, "(sum %d n 1)" % (total + 1)]
        ctx.count(1, key=("resumecc-growth", depth), nontrivial=depth >= 300)
        ctx.cov["traces_validated_against_impl"] += 1
        if "couldn't find" in err and "srfi 18" in err:
            ctx.assume("RESUMECC growth stream SKIPPED: no (srfi 18) in this build")
            return
        if out.split("\n")[:2] != want or rc != 0 or "AddressSanitizer" in err:
            ctx.violation("resumecc-growth:raw-callcc-cross-thread", input=dict(depth=depth, program=prog),
                          expected=dict(first_lines=want, rc=0), observed=dict(stdout=out[:300], rc=rc, stderr=[l for l in err.split("\n") if "ERROR" in l or "SUMMARY" in l or " #0 " in l][:4]),
                          replay="printf '%%s' %s | ASAN_OPTIONS=%s LD_LIBRARY_PATH=%s CHIBI_MODULE_PATH=%s/lib CHIBI_IGNORE_SYSTEM_PATH=1 %s/chibi-scheme /dev/stdin; echo rc=$?" % (
                              shlex.quote(prog), GC_ASAN, da, da, da))
            return


# ------------------------------------------------------------------------------------------------ forced collections
# "a continuation resumes with the stack contents it captured" also has to hold when a collection happens at ANY
# allocation between capture and re-entry: the saved stack copy, its holder vector, the continuation procedure, the
# wind points of dynamic-wind, the parameter / handler conses, the (%values ..) lists passed through a continuation
# are all heap objects that the opcodes and primitives have to keep rooted while they allocate the next one.  Ordinary
# runs collect at a handful of fixed allocations, so a root lost across ONE allocation is practically invisible.  This
# stream runs control scripts one per process on the `asan` build (free chunks are poisoned) under the forced
# collection schedules of the /repo hooks (gc.c "verification hooks": CHIBI_VERIF_GC / CHIBI_VERIF_GC_START), with
# the schedule starting exactly at the first allocation of the script's RUN (not its compilation):
#   program = imports; (define (run) <script>); marker; (run); marker; print        marker = an allocation of a size
#   nothing else uses, found in the allocation log (CHIBI_VERIF_TRACE) of an unforced calibration run.
# every:1 from the first allocation of the run = a collection before EVERY allocation of the run (it contains every
# single-collection schedule at:k of the region); every:2 / every:3 / seeded schedules vary which objects survive.
# Output must equal the machine's trace (= the unforced trace), ASan must stay silent, rc 0; with
# CHIBI_VERIF_AUDIT=1 (subset) no reachable object may point into a free chunk after any sweep.
GC_MARK = 77001
GC_ASAN = "detect_leaks=0:abort_on_error=0:exitcode=97:detect_odr_violation=0"
GC_EMIT = ("(define (emit-num n) (if (< n 0) (begin (write-char #\\-) (emit-num (- 0 n))) (begin (if (>= n 10) (emit-num (quotient n 10))) "
           "(write-char (integer->char (+ 48 (remainder n 10))))))) "
           "(define (emit l) (write-char #\\() (let lp ((l l) (first #t)) (if (pair? l) (begin (if (not first) (write-char #\\space)) "
           "(emit-num (car l)) (lp (cdr l) #f)))) (write-char #\\)))")


def gc_program(run_expr, imports="(scheme base)", more=""):
    """run_expr evaluates to a list of integers; printing allocates (almost) nothing, so a dense schedule started at
    the run's first allocation ends a few allocations after the run"""
    return ("(import %s)%s\n%s\n(define verif-m0 (make-bytevector %d 0))\n(define (run) %s)\n"
            "(let* ((m1 (make-bytevector %d 0)) (r (run)) (m2 (make-bytevector %d 0))) (emit r) (newline))\n" % (
                imports, more, GC_EMIT, GC_MARK, run_expr, GC_MARK, GC_MARK))


# control programs outside the DSL (multiple values through continuations, generators re-entered many times, deep
# stacks copied by call/cc, continuations applied with apply, converters of parameters, error objects) with the
# result R7RS prescribes.  (name, run expression, expected list)
GC_EXTRAS = [
    ("values-through-continuation",
     "(let ((tr (list)) (k #f) (n 0)) (define (push! v) (set! tr (cons v tr))) "
     "(call-with-values (lambda () (call-with-current-continuation (lambda (c) (set! k c) (values 1 2)))) (lambda (a b) (push! a) (push! b))) "
     "(if (< n 2) (begin (set! n (+ n 1)) (k (+ 10 n) (+ 20 n)))) (reverse tr))",
     [1, 2, 11, 21, 12, 22]),
    ("values-escape-through-winds",
     "(let ((tr (list))) (define (push! v) (set! tr (cons v tr))) "
     "(call-with-values (lambda () (call-with-current-continuation (lambda (k) (dynamic-wind (lambda () (push! 1)) "
     "(lambda () (dynamic-wind (lambda () (push! 2)) (lambda () (k 7 8 9)) (lambda () (push! 3)))) (lambda () (push! 4)))))) "
     "(lambda (a b c) (push! a) (push! b) (push! c))) (reverse tr))",
     [1, 2, 3, 4, 7, 8, 9]),
    ("apply-continuation",
     "(let ((tr (list)) (k #f) (n 0)) (define (push! v) (set! tr (cons v tr))) "
     "(push! (+ 100 (call-with-current-continuation (lambda (c) (set! k c) 1)))) "
     "(if (< n 3) (begin (set! n (+ n 1)) (apply k (list (* n 10))))) (reverse tr))",
     [101, 110, 120, 130]),
    ("generator-tree-walk",
     "(let ((tr (list)) (ret #f) (resume #f)) (define (push! v) (set! tr (cons v tr))) "
     "(define (walk n) (if (> n 0) (dynamic-wind (lambda () (push! (+ 100 n))) "
     "(lambda () (call-with-current-continuation (lambda (c) (set! resume c) (ret n))) (+ 1 (walk (- n 1)))) "
     "(lambda () (push! (+ 200 n)))) 0)) "
     "(define (next) (call-with-current-continuation (lambda (r) (set! ret r) (if resume (resume 0) (begin (walk 4) (ret 0)))))) "
     "(let lp ((i 0)) (if (< i 5) (begin (push! (next)) (lp (+ i 1))))) (reverse tr))",
     [104, 204, 4, 104, 103, 203, 204, 3, 104, 103, 102, 202, 203, 204, 2, 104, 103, 102, 101, 201, 202, 203, 204, 1,
      104, 103, 102, 101, 201, 202, 203, 204, 0]),
    ("deep-stack-capture",
     "(let ((tr (list)) (k #f) (n 0)) (define (push! v) (set! tr (cons v tr))) "
     "(define (sum i) (if (= i 0) (call-with-current-continuation (lambda (c) (set! k c) 0)) (+ i (sum (- i 1))))) "
     "(let ((v (sum 300))) (push! v)) (if (< n 2) (begin (set! n (+ n 1)) (k n))) (reverse tr))",
     [45150, 45151, 45152]),
    ("coroutine-ping-pong",
     "(let ((tr (list)) (other #f) (done #f)) (define (push! v) (set! tr (cons v tr))) "
     "(define (transfer v) (call-with-current-continuation (lambda (me) (let ((o other)) (set! other me) (o v))))) "
     "(define (worker base) (lambda (v) (let lp ((i 0) (v v)) (push! (+ base i)) (if (< i 3) (lp (+ i 1) (transfer i)) (done 0))))) "
     "(call-with-current-continuation (lambda (d) (set! done d) (set! other (worker 20)) ((worker 10) 0))) (reverse tr))",
     [10, 20, 11, 21, 12, 22, 13]),
    ("parameter-converter-reentry",
     "(let ((tr (list)) (k #f) (n 0) (p (make-parameter 1 (lambda (x) (* x 2))))) (define (push! v) (set! tr (cons v tr))) "
     "(parameterize ((p 5)) (dynamic-wind (lambda () (push! (p))) (lambda () (call-with-current-continuation (lambda (c) (set! k c))) (push! (+ 100 (p)))) "
     "(lambda () (push! (+ 200 (p)))))) (push! (p)) (if (< n 2) (begin (set! n (+ n 1)) (k 0))) (reverse tr))",
     [10, 110, 210, 2, 10, 110, 210, 2, 10, 110, 210, 2]),
    ("error-object-through-handlers",
     "(let ((tr (list)) (k #f) (n 0)) (define (push! v) (set! tr (cons v tr))) "
     "(push! (guard (e ((error-object? e) (push! (length (error-object-irritants e))) (car (error-object-irritants e)))) "
     "(dynamic-wind (lambda () (push! 1)) (lambda () (call-with-current-continuation (lambda (c) (set! k c))) (error \"boom\" (+ 40 n) 2 3)) (lambda () (push! 2))))) "
     "(if (< n 2) (begin (set! n (+ n 1)) (k 0))) (reverse tr))",
     [1, 2, 3, 40, 1, 2, 3, 41, 1, 2, 3, 42]),
    ("primitive-error-object",
     "(let ((tr (list)) (k #f) (n 0)) (define (push! v) (set! tr (cons v tr))) "
     "(push! (guard (e ((error-object? e) (push! (if (string? (error-object-message e)) (if (> (string-length (error-object-message e)) 3) 1 0) 0)) "
     "(if (pair? (error-object-irritants e)) (car (error-object-irritants e)) 0))) "
     "(dynamic-wind (lambda () (push! 1)) (lambda () (call-with-current-continuation (lambda (c) (set! k c))) (vector-ref (vector 1 2) (car (+ 900 n)))) (lambda () (push! 2))))) "
     "(if (< n 2) (begin (set! n (+ n 1)) (k 0))) (reverse tr))",
     [1, 2, 1, 900, 1, 2, 1, 901, 1, 2, 1, 902]),
    ("raise-continuable-values-reentry",
     "(let ((tr (list)) (k #f) (n 0)) (define (push! v) (set! tr (cons v tr))) "
     "(with-exception-handler (lambda (c) (call-with-current-continuation (lambda (h) (if (not k) (set! k h)) (+ c 1)))) "
     "(lambda () (push! (+ 10 (raise-continuable 1))) (push! (+ 20 (raise-continuable 2))))) "
     "(if (< n 2) (begin (set! n (+ n 1)) (k (* 100 n)))) (reverse tr))",
     [12, 23, 110, 23, 210, 23]),
]


def _gc_run(d, path, extra, timeout=60):
    """one process of the asan build; returns (stdout, rc, stderr)"""
    import subprocess
    env = B.chibi_env(d, dict(extra, ASAN_OPTIONS=GC_ASAN))
    for attempt in (0, 1):
        try:
            r = subprocess.run([os.path.join(d, "chibi-scheme"), path], capture_output=True, text=True, errors="replace",
                               timeout=timeout * (1 + 2 * attempt), env=env)
            return r.stdout.strip(), r.returncode, r.stderr
        except subprocess.TimeoutExpired:
            continue                                       # once more with three times the time (loaded machine)
    return "TIMEOUT", "timeout", ""


def _gc_calibrate(d, path):
    """unforced run with the allocation log: allocation numbers (as counted by CHIBI_VERIF_GC) of the three markers"""
    log = path + ".trace"
    try:
        out, rc, err = _gc_run(d, path, dict(CHIBI_VERIF_GC="at:1", CHIBI_VERIF_TRACE=log))
        n, started, marks = 0, False, []
        if os.path.exists(log):
            with open(log) as fh:
                for line in fh:
                    c = line[0]
                    if c == "A":
                        if started:
                            n += 1
                            if line[2] == "7" and GC_MARK <= int(line.split()[1]) <= GC_MARK + 64:
                                marks.append(n)
                    elif c == "C" and not started and line.rstrip().endswith(" alloc=1"):
                        started = True
        return out, rc, err, marks, n
    finally:
        if os.path.exists(log):
            os.unlink(log)


def _gc_verdict(out, rc, err, want):
    """None when the run is fine, else the class of the failure"""
    if rc == "timeout":
        return "timeout"
    if "AddressSanitizer" in err or rc == 97:
        return "asan"
    if "VERIF-AUDIT FAIL" in err:
        return "audit"
    if rc != 0:
        return "crash"
    if out != want:
        return "trace"
    return None


def _gc_replay_cmd(d, prog, env):
    return ("f=$(mktemp /var/tmp/c06-gc-XXXXXX.scm); printf '%%s' %s > $f; env %s ASAN_OPTIONS=%s LD_LIBRARY_PATH=%s CHIBI_MODULE_PATH=%s/lib "
            "CHIBI_IGNORE_SYSTEM_PATH=1 %s/chibi-scheme $f; echo rc=$?; rm -f $f" % (
                shlex.quote(prog), " ".join("%s=%s" % kv for kv in sorted(env.items())), GC_ASAN, d, d, d))


def gc_cases(ctx, exe, bodies):
    """[(name, program text, expected output line, tokens or None)] for DSL bodies (expected = the machine's trace) and GC_EXTRAS"""
    cases = []
    if bodies:
        scripts = [wrap(b) for b in bodies]
        mo = ctx.run_model(exe, ["rundk %d %s" % (FUEL, " ".join(tokens(s))) for s in scripts], timeout=600)
        for s, m in zip(scripts, mo):
            if m.startswith("ERR"):
                continue
            stc, evs = model_events(s, m)
            if stc != 1:
                continue
            want = "(" + " ".join("%d %d %d %d" % e for e in evs) + ")"
            cases.append((" ".join(tokens(s)), gc_program(program(s, light=True), more=" " + IMPORTS_LIGHT), want))
    for name, expr, want in GC_EXTRAS:
        cases.append(("extra:" + name, gc_program(expr), None if want is None else "(" + " ".join(str(x) for x in want) + ")"))
    return cases


def gc_stream(ctx, exe, bodies, label="forced-gc", only_env=None):
    import concurrent.futures, tempfile
    t_start = time.time()
    try:
        da = ctx.build("asan")
    except Exception:
        return                                          # recorded by ctx.build (build:asan)
    cases = gc_cases(ctx, exe, bodies)
    tmpd = tempfile.mkdtemp(prefix="tmp-c06-gc-", dir=B.SCRATCH)     # "tmp*": left alone by vlib.build._clean_stale of a concurrent run
    n_audit = 10 if not ctx.thorough else 80
    seeds = [ctx.rng.randrange(1, 10 ** 6) for _ in cases]
    stats = dict(runs=0, allocs=0, forced=0, region_max=0)
    fails = []

    nfail = [0]

    def one(j):
        name, prog, want = cases[j]
        if nfail[0] >= 4:                               # the violation is established: do not run the rest
            return j, want, [], 0, [], False
        path = os.path.join(tmpd, "s%d.scm" % j)
        with open(path, "w") as fh:
            fh.write(prog)
        res = []                                        # (env, verdict, out, rc, err)
        out, rc, err, marks, total = _gc_calibrate(da, path)
        if want is None:
            want = out                                  # extras without a hand-computed result: the unforced trace
        v = _gc_verdict(out, rc, err, want)
        res.append((dict(), v, out, rc, err))
        if v is not None:
            nfail[0] += 1
        if v is not None or len(marks) != 3:
            return j, want, marks, total, res, (v is None)
        m0, m1, m2 = marks
        region = m2 - m1
        scheds = []
        if only_env is not None:
            scheds = [only_env]
        else:
            dense = dict(CHIBI_VERIF_GC="every:1", CHIBI_VERIF_GC_START=str(m1))
            if region <= (2500 if not ctx.thorough else 20000):
                if j < n_audit:
                    dense["CHIBI_VERIF_AUDIT"] = "1"
                scheds.append(dense)
            # round 4 (quick tier): a script that got the dense schedule (every:1 = every single- and adjacent-collection
            # schedule of its run) gets ONE sparse schedule, alternating every:2|3 / seeded; the thorough tier keeps both
            both = ctx.thorough or not scheds
            if both or j % 2 == 0:
                scheds.append(dict(CHIBI_VERIF_GC="every:%d" % (2 + (j // 2) % 2), CHIBI_VERIF_GC_START=str(m1 + (j // 4) % 2)))
            if both or j % 2 == 1:
                scheds.append(dict(CHIBI_VERIF_GC="seed:%d:%d" % (seeds[j], 2 + j % 3), CHIBI_VERIF_GC_START=str(m1)))
            if ctx.thorough:
                # the compilation of the script too (sparser: it is thousands of allocations), and other phases
                scheds.append(dict(CHIBI_VERIF_GC="seed:%d:%d" % (seeds[j] + 1, 15), CHIBI_VERIF_GC_START=str(m0)))
                scheds.append(dict(CHIBI_VERIF_GC="every:3", CHIBI_VERIF_GC_START=str(m1 + 2)))
                scheds.append(dict(CHIBI_VERIF_GC="every:2", CHIBI_VERIF_GC_START=str(m1 + 1 - (j // 2) % 2)))
                scheds.append(dict(CHIBI_VERIF_GC="seed:%d:%d" % (seeds[j] + 2, 4), CHIBI_VERIF_GC_START=str(m1)))
        for env in scheds:
            o, r, e = _gc_run(da, path, env)
            v = _gc_verdict(o, r, e, want)
            res.append((env, v, o, r, e))
            if v is not None:
                nfail[0] += 1
                break
        return j, want, marks, total, res, False

    def bisect(j, want, marks, env_bad):
        """smallest schedule we can find that still fails: one collection at:k, else every:1 from the latest start"""
        name, prog, _w = cases[j]
        path = os.path.join(tmpd, "s%d.scm" % j)
        m1, m2 = marks[1], marks[2]

        def bad(env):
            o, r, e = _gc_run(da, path, env)
            return _gc_verdict(o, r, e, want), o, r, e
        lo, hi = m1, m2 + 40                              # invariant: every:1 from lo fails, from hi passes (assumed)
        if bad(dict(CHIBI_VERIF_GC="every:1", CHIBI_VERIF_GC_START=str(lo)))[0] is None:
            return env_bad, None
        while hi - lo > 1:
            mid = (lo + hi) // 2
            if bad(dict(CHIBI_VERIF_GC="every:1", CHIBI_VERIF_GC_START=str(mid)))[0] is not None:
                lo = mid
            else:
                hi = mid
        # a collection before allocation `lo` is needed; is it enough?
        for env in (dict(CHIBI_VERIF_GC="at:%d" % lo), dict(CHIBI_VERIF_GC="at:%d,%d" % (lo, lo + 1)),
                    dict(CHIBI_VERIF_GC="at:%s" % ",".join(str(lo + i) for i in range(0, 60)))):
            r = bad(env)
            if r[0] is not None:
                return env, r
        return dict(CHIBI_VERIF_GC="every:1", CHIBI_VERIF_GC_START=str(lo)), None

    try:
        with concurrent.futures.ThreadPoolExecutor(max_workers=4) as ex:
            results = list(ex.map(one, range(len(cases))))
        nbis = 0
        for j, want, marks, total, res, nomarks in results:
            name, prog, _w = cases[j]
            if nomarks:
                _broken_once(ctx, "forced-gc:markers", "allocation markers not found in the allocation log of %s (%s): hooks missing?" % (name, marks))
                continue
            region = (marks[2] - marks[1]) if len(marks) == 3 else 0
            stats["region_max"] = max(stats["region_max"], region)
            stats["allocs"] += region
            for env, v, o, r, e in res:
                stats["runs"] += 1
                ctx.count(1, key=("gc", name, tuple(sorted(env.items()))), nontrivial=bool(env) and region > 0)
                ctx.cov["traces_validated_against_impl"] += 1
                if v is None:
                    continue
                fails.append(name)
                env_min, rr = env, None
                if env and nbis < 3 and len(marks) == 3:
                    nbis += 1
                    env_min, rr = bisect(j, want, marks, env)
                if rr is not None:
                    v, o, r, e = rr
                sigcls = v
                tail = [l for l in (e or "").split("\n") if "ERROR" in l or "SUMMARY" in l or "VERIF-AUDIT" in l or " #0 " in l or " #1 " in l][:6]
                ctx.violation("control-gc:" + sigcls, failure=v, input=name, schedule=env_min, first_failing_schedule=env, program=prog,
                              run_region_allocations=[marks[1], marks[2]] if len(marks) == 3 else None,
                              expected=want, observed=dict(stdout=o[:400], rc=r, stderr=tail), stream=label,
                              replay=_gc_replay_cmd(da, prog, env_min))
        done = [r for r in results if r[4]]
        if len(done) < len(results):
            ctx.note("%s: stopped after %d of %d scripts (%d failing)" % (label, len(done), len(results), len(fails)))
        if done:
            j, want, marks, total, res, _n = done[len(done) // 2]
            ctx.sample(dict(kind="forced-gc", script=cases[j][0], run_region=marks, allocations_total=total,
                            schedules=[r[0] for r in res], output=res[-1][2][:300]))
    finally:
        import shutil
        shutil.rmtree(tmpd, ignore_errors=True)
    ctx.note("%s: %d scripts (%d DSL + %d extra), %d processes on the asan build, run regions %d allocations in all (max %d), %d failing; %.1fs" % (
        label, len(cases), len(cases) - len(GC_EXTRAS), len(GC_EXTRAS), stats["runs"], stats["allocs"], stats["region_max"], len(fails), time.time() - t_start))


def gc_bodies(ctx, m1, m2):
    """DSL scripts for the forced-collection stream: every one captures AND invokes a continuation (or raises through
    handlers/guards), inside winds / parameterize / handlers"""
    rng = ctx.rng
    out = list(corpus_bodies())
    out += templates(rng)
    def reenters(b):
        hs = heads(b)
        return ("callcc" in hs and "throw" in hs) or bool(hs & {"raisec", "raise"}) and bool(hs & {"handler", "guard"})
    wc = [relabel(s) for n in range(4, 8) for s in enum_grammar(n, memo=m1, **WIND_CORE) if reenters(s)]
    dc = [relabel(s) for n in range(3, 6) for s in enum_grammar(n, memo=m2, **DYN_CORE) if reenters(s)]
    k = 1 if not ctx.thorough else 6
    out += rng.sample(wc, min(len(wc), (6 if k == 1 else 120)))
    out += rng.sample(dc, min(len(dc), (6 if k == 1 else 96)))
    sf = sibling_family(rng, False)[:726]
    out += rng.sample(sf, 4 if k == 1 else 36)                       # sibling / ping-pong jumps under forced collections
    got = 0
    while got < (4 if k == 1 else 60):
        b = gen_random(rng, rng.choice([8, 10, 12, 14, 18]), Fresh())
        hs = heads(b)
        if "callcc" in hs and "throw" in hs and hs & {"wind", "windp", "param", "handler", "guard"}:
            out.append(b)
            got += 1
    if ctx.thorough:
        for _ in range(4):
            out += templates(rng)
    return out


# ------------------------------------------------------------------------------------------------ main
def run_scripts(ctx, exe, d, bodies, label, override=None, fuel=None):
    """model first (only scripts the machine finishes are sent to chibi), then chibi; compare traces"""
    t_start = time.time()
    FUEL = fuel or globals()["FUEL"]
    scripts = [wrap(b) for b in bodies]
    mo = ctx.run_model(exe, ["rundk %d %s" % (FUEL, " ".join(tokens(s))) for s in scripts], timeout=600)
    # the machine over the REGENERATED travel_to_point must agree with the machine over the SPEC script
    # (MachineProofs proves it; this run shows it on the extracted code and localises a broken translation)
    try:
        if getattr(ctx, "_c06_stop", False) or any(u.get("name") == "machine-impl-vs-spec" for u in ctx.unproved):
            raise RuntimeError("skipped")
        mi = ctx.run_model(exe, ["runimpl %d %s" % (FUEL, " ".join(tokens(s))) for s in scripts], timeout=300)
    except Exception as e:
        mi = None
        if str(e) != "skipped":
            _broken_once(ctx, "machine-impl-vs-spec", "machine over the regenerated travel_to_point did not finish: %s" % str(e)[:200])
    if mi is not None:
        for s, a, b in zip(scripts, mo, mi):
            a = " ".join(":".join(t.split(":")[:2]) for t in a.split())         # drop the dk annotation of rundk
            if a != b:
                _broken_once(ctx, "machine-impl-vs-spec", "machine over the regenerated travel_to_point differs from the machine over wind_script on %s: %s vs %s" % (" ".join(tokens(s)), b, a))
                break
    t_model = time.time() - t_start
    keep = []
    skipped = dict(fuel=0, uncaught=0)
    for b, s, m in zip(bodies, scripts, mo):
        if m.startswith("ERR"):
            ctx.broken("model-driver", "model driver rejected a script: %s" % m)
            continue
        stc, evs = model_events(s, m)
        if stc == 1:
            keep.append((b, s, evs))
        elif stc == 0:
            skipped["fuel"] += 1
        elif stc == 2:
            skipped["uncaught"] += 1
        else:
            ctx.broken("model-stuck", "the machine got stuck (status %d) on %s" % (stc, " ".join(tokens(s))))
    # chibi side, in chunks with a short timeout: a broken runtime can make scripts diverge or crash, and
    # every such case costs one timeout — stop the stream after a few (the violation is established)
    io, hard = [], 0
    if True:
        io, hard = run_chibi(d, [program(s, override=override) for (_, s, _) in keep], prelude_extra=(IMPORTS_LIBS if override else IMPORTS_FULL),
                             stop=getattr(ctx, "_c06_stop", False))
    if len(io) < len(keep):
        ctx.note("%s: stopped after %d of %d scripts (%d crashes/timeouts so far)" % (label, len(io), len(keep), hard))
        keep = keep[:len(io)]
    bad, dkbad = [], []
    for (b, s, evs), i in zip(keep, io):
        hs = heads(b)
        nontriv = bool(hs & {"throw", "raise", "raisec"}) and bool(hs & {"wind", "windp", "param", "handler", "guard"})
        ctx.count(1, key=tuple(tokens(s)) + ((label,) if override else ()), nontrivial=nontriv)
        ctx.cov["traces_validated_against_impl"] += 1
        got = parse_impl(i) if i is not None else None
        if got is None or canon_points(got) != evs:
            if got is not None and kv(got) == kv(evs):
                dkbad.append((size(b), b, s, evs, i))
            else:
                bad.append((size(b), b, s, evs, i))
    bad.sort(key=lambda x: x[0])
    dkbad.sort(key=lambda x: x[0])
    fmt = lambda evs: " ".join("%d:%d@%d/%d" % e if e[3] >= 0 else "%d:%d" % e[:2] for e in evs)
    for sz, b, s, evs, i in bad[:25]:
        cls = classify(evs, i)
        ctx.violation("control-trace:" + cls, input=" ".join(tokens(s)), scheme=standalone(s, override=override),
                      expected=fmt(evs), observed=i, stream=label, event_format="kind:value@depth/point of (%dk) right after the event",
                      replay="printf '%%s' %s | LD_LIBRARY_PATH=%s CHIBI_MODULE_PATH=%s/lib CHIBI_IGNORE_SYSTEM_PATH=1 %s/chibi-scheme /dev/stdin" % (
                          shlex.quote(standalone(s, override=override)), d, d, d))
    if dkbad:
        # same events, but the wind point register (%dk) read after an event is not the machine's dk (theorem
        # dk_is_continuation_extent: the innermost dynamic-wind frame of the current continuation).  Not by itself an
        # observable R7RS violation: the sibling / ping-pong streams look for the script that makes it one.
        sz, b, s, evs, i = dkbad[0]
        _broken_once(ctx, "dk-register", "(%%dk) read after an event differs from the machine's dk in %d scripts of stream %s, first: %s | machine %s | "
                     "chibi %s | replay: printf '%%s' %s | LD_LIBRARY_PATH=%s CHIBI_MODULE_PATH=%s/lib CHIBI_IGNORE_SYSTEM_PATH=1 %s/chibi-scheme /dev/stdin" % (
                         len(dkbad), label, " ".join(tokens(s)), fmt(evs), i, shlex.quote(standalone(s)), d, d, d))
    if keep:
        b, s, evs = keep[len(keep) // 2]
        ctx.sample(dict(kind="script:" + label, script=" ".join(tokens(s)), scheme=program(s),
                        model=fmt(evs), impl=io[len(keep) // 2]))
    if len(bad) >= 25 or hard >= 3:
        ctx._c06_stop = True
    ctx.note("%s: %d scripts, %d compared with chibi, %d skipped (machine out of fuel), %d skipped (uncaught at top), %d differ (+%d in the dk register only); %.1fs (model %.1fs)" % (
        label, len(bodies), len(keep), skipped["fuel"], skipped["uncaught"], len(bad), len(dkbad), time.time() - t_start, t_model))
    return len(bad)


def _chibi_chunk(d, exprs, lo, hi, prelude_extra, timeout):
    """one process for the cases lo..hi-1; returns ({case: output line}, rc, stderr)"""
    import subprocess, tempfile
    body = [scm.PRELUDE, prelude_extra]
    for i in range(lo, hi):
        body.append("(verif-case %d %s) (flush-output-port)" % (i, exprs[i]))
    body.append('(write-string "DONE")(newline)')
    with tempfile.NamedTemporaryFile("w", suffix=".scm", dir=B.SCRATCH, delete=False) as fh:
        fh.write("\n".join(body))
        path = fh.name
    try:
        try:
            r = B.run_chibi(d, [path], timeout=timeout)
            out, rc, err = r.stdout, r.returncode, r.stderr
        except subprocess.TimeoutExpired as e:
            out = e.stdout.decode() if isinstance(e.stdout, bytes) else (e.stdout or "")
            rc, err = "TIMEOUT", ""
    finally:
        os.unlink(path)
    got = {}
    for line in out.split("\n"):
        sp = line.find(" ")
        if sp > 0 and line[:sp].isdigit():
            got[int(line[:sp])] = line[sp + 1:]
    return got, rc, err


def run_chibi(d, exprs, prelude_extra="", timeout=30, chunk=250, max_hard=3, stop=False, _single=False):
    """like scm.run_cases, but flushes after every case (so a killed process is blamed on the right case),
    uses a short timeout and gives up after max_hard crashes/timeouts.  Returns (results, hard);
    results may be shorter than exprs.  The chunks are first run 4 at a time; from the first chunk that does not
    complete on, the sequential blame-the-right-case logic takes over."""
    import concurrent.futures
    res, hard, lo = [], 0, 0
    os.makedirs(B.SCRATCH, exist_ok=True)
    if not stop and not _single and len(exprs) > chunk:
        bounds = [(a, min(len(exprs), a + chunk)) for a in range(0, len(exprs), chunk)]
        with concurrent.futures.ThreadPoolExecutor(max_workers=4) as ex:
            outs = list(ex.map(lambda ab: _chibi_chunk(d, exprs, ab[0], ab[1], prelude_extra, timeout * 2), bounds))
        for (a, b), (got, rc, err) in zip(bounds, outs):
            if all(i in got for i in range(a, b)):
                res += [got[i] for i in range(a, b)]
                lo = b
            else:
                break
    while lo < len(exprs) and hard < max_hard and not stop:
        hi = min(len(exprs), lo + chunk)
        got, rc, err = _chibi_chunk(d, exprs, lo, hi, prelude_extra, timeout)
        n = lo
        while n < hi and n in got:
            res.append(got[n])
            n += 1
        if n < hi:                                   # case n killed the process (or the machine is just slow)
            verdict = "TIMEOUT" if rc == "TIMEOUT" else "CRASH rc=%s %s" % (rc, (err or "")[-200:].replace("\n", " | "))
            if rc == "TIMEOUT" and not _single:
                # confirm on its own: a loaded machine must not turn into a false alarm
                alone, _h = run_chibi(d, [exprs[n]], prelude_extra=prelude_extra, timeout=15, chunk=1, max_hard=1, _single=True)
                if alone and alone[0] != "TIMEOUT":
                    verdict = alone[0]
            res.append(verdict)
            if verdict == "TIMEOUT" or verdict.startswith("CRASH"):
                hard += 1
            n += 1
        lo = n
    return res, hard


def _broken_once(ctx, name, reason):
    if not any(u.get("name") == name for u in ctx.unproved):
        ctx.broken(name, reason)


def corpus_bodies():
    out = []
    cdir = os.path.join(os.path.dirname(__file__), "..", "corpus", "C06")
    if os.path.isdir(cdir):
        for f in sorted(os.listdir(cdir)):
            if f.endswith(".case"):
                for line in open(os.path.join(cdir, f)):
                    line = line.split("#")[0].strip()
                    if line:
                        out.append(parse_tokens(line.split())[0])
    return out


def parse_tokens(t):
    h = t[0]
    if h in ("const", "mark", "pref"):
        return (h, int(t[1])), t[2:]
    if h in ("show", "raise", "raisec"):
        a, r = parse_tokens(t[1:])
        return (h, a), r
    if h in ("seq", "add"):
        a, r = parse_tokens(t[1:])
        b, r = parse_tokens(r)
        return (h, a, b), r
    if h in ("wind", "callcc"):
        a, r = parse_tokens(t[2:])
        return (h, int(t[1]), a), r
    if h == "throw":
        a, r = parse_tokens(t[3:])
        return (h, int(t[1]), int(t[2]), a), r
    if h == "windp":
        a, r = parse_tokens(t[3:])
        return (h, int(t[1]), int(t[2]), a), r
    if h in ("param", "handler"):
        a, r = parse_tokens(t[2:])
        b, r = parse_tokens(r)
        return (h, int(t[1]), a, b), r
    if h == "guard":
        a, r = parse_tokens(t[3:])
        b, r = parse_tokens(r)
        return (h, None if t[1] == "_" else int(t[1]), int(t[2]), a, b), r
    raise ValueError(h)


def run(ctx):
    ctx.cov["rule"] = ("control scripts over {seq, add, mark, show, dynamic-wind, call/cc binding k1..k3, bounded throw (each k "
                       "invoked <= 2 times, from inside or outside its extent, incl. generator-style re-entry), parameterize, parameter "
                       "read, with-exception-handler, raise, raise-continuable, guard with matching / non-matching clause}, wrapped in an "
                       "outermost escape continuation and a top handler; printed as a Scheme program whose thunks/handlers/steps push "
                       "(kind . value) on a trace list; chibi's trace is compared event by event with the extracted Coq machine's. "
                       "Streams: corpus, exhaustive enumeration of all scripts up to a node bound over a reduced grammar, hand-written "
                       "templates with random holes, seeded random scripts of 4..22 nodes. A script is distinct by its token list and "
                       "non-trivial when it contains a throw/raise AND a wind/parameterize/handler/guard. Deeper exhaustive streams over two "
                       "small grammars (winds x call/cc x re-entry up to 7/9 nodes; parameters x handlers x guard x re-entry up to 5/6 nodes). "
                       "dynamic-wind thunks may read a parameter; guard clauses are printed through 4 arms of guard-aux; (raise 999) is printed "
                       "as a primitive error. Separately: travel-to-point! itself on every extent tree with <= 4 (thorough 5) points and every "
                       "(here,target) pair + random larger trees, vs the SPEC wind_script; sexp_save_stack/sexp_restore_stack on generated "
                       "stacks (incl. the growth boundary) vs the extracted stack model; 5 fixed programs escaping out of procedures called "
                       "back from C. Stream forced-gc: scripts that capture and re-enter continuations (corpus, templates, samples of "
                       "the exhaustive cores, random, and 10 programs outside the DSL: multiple values through continuations, generators, "
                       "coroutines, deep stacks, error objects) run one per process on the asan build under forced collection schedules "
                       "(every:1 = a collection before every allocation of the script's run, every:2/3, seeded; heap audit on a subset), "
                       "started at the first allocation of the run found through marker allocations in the allocation log; output must equal "
                       "the machine's trace, ASan silent; a failing schedule is bisected to a single at:k. "
                       "Round 3: every construct is printed in ALL its exported spellings across the run (call/cc | call-with-current-continuation "
                       "| (chibi) | (scheme r5rs); dynamic-wind x3; with-exception-handler and raise x3 incl. (srfi 18); parameterize / make-parameter "
                       "of (scheme base) | (srfi 39); values / call-with-values x3; seven ways to signal an error; two payload readers using the "
                       "error-object? family), chosen by a stable hash of (script, construct, site); a third of the scripts run in multiple-values "
                       "mode (every call/cc receiver is a call-with-values consumer summing its values, throws pass 1-3 values, via apply or "
                       "call-with-values too). The exported names / alias definitions / selecting .sld texts are pinned (gen/c06_exports.py) and "
                       "every exported procedure spelling must be eq? to the mirrored binding. Every event also records the wind point register "
                       "(%dk) read right after it (depth relative to the script start + identity in order of first sight), compared with the "
                       "machine's dk component (stepped in the OCaml driver). Stream sibling-jumps: >= 2 jumps between sibling extents of equal "
                       "depth (cousins, nephews, parameterize extents), the second taken from inside the re-entered extent (to the first, to a "
                       "third sibling, to the root, to a continuation captured after the re-entry), ping-pong up to 6 times: 726 structured + "
                       "500 (thorough 12000) sampled. RESUMECC on a stack that must grow (raw %call/cc continuation of a deep recursion "
                       "invoked from another green thread); growth branch of sexp_restore_stack vs the model; values/call-with-values on 0-4 values. "
                       "Round 4: stream deep-nesting: 5..40 (thorough ..120) nested extents of {wind, wind reading a parameter, parameterize, "
                       "handler returning / re-raising, non-matching guard} around 7 cores (parameter reads + raise-continuable at the bottom, "
                       "generator re-entry through all extents, cousins N deep on both sides, primitive error caught outside, a handler / guard "
                       "whose alist entry lies under N parameter bindings, 3N pending additions on the value stack captured and re-entered); "
                       "one parameterize form with two bindings whose second value expression reads the first parameter (theorem "
                       "parameterize_simultaneous); the C text of the VM raise path, the PARAMETER_REF opcode and the eval.c dynamic-state "
                       "primitives is pinned.")
    import sys
    sys.setrecursionlimit(max(sys.getrecursionlimit(), 20000))      # deep-nesting scripts: several hundred nested terms
    from gen import c06_travel, c06_shapes, c06_exports
    c06_travel.regen(ctx)
    c06_shapes.check(ctx)          # the hand-mirrored Scheme definitions still have the mirrored text
    c06_exports.check(ctx)         # every exported spelling / alias / selecting .sld of a modelled construct is the pinned one
    ctx.coq_obligations("Properties_C06")
    t0 = time.time()
    d = ctx.build("default")
    exe = ctx.extract("C06")
    ctx.note("coq obligations + build + extraction: %.1fs" % (time.time() - ctx.t0))
    if exe is None:
        return
    rng = ctx.rng
    travel_cases(ctx, exe, d)
    stack_cases(ctx, exe, d)
    callback_escapes(ctx, d, exe)
    alias_identity(ctx, d)
    resumecc_growth(ctx)
    thread_state(ctx, d)
    values_cases(ctx, exe, d)
    cb = corpus_bodies()
    if cb:
        run_scripts(ctx, exe, d, cb, "corpus")
    # every construct (the macros guard / parameterize too) through the re-exporting libraries (scheme small) and (scheme red)
    sib = sibling_family(rng, ctx.thorough)
    lb = cb + templates(rng) + rng.sample(sib[:726], 12)
    for pfx, lab in (("sm:", "lib-scheme-small"), ("red:", "lib-scheme-red")):
        run_scripts(ctx, exe, d, lb, lab, override=lib_override(pfx))
    ex = []
    for n in range(1, (4 if not ctx.thorough else 5)):
        ex += [relabel(s) for s in enum_shapes(n)]
    if ctx.thorough:
        # size 5 over the reduced grammar is 64k shapes: take a seeded third of them
        s5 = enum_shapes(5)
        ex += [relabel(s) for s in rng.sample(s5, len(s5) // 3)]
    run_scripts(ctx, exe, d, ex, "exhaustive")
    # two small grammars enumerated deeper: winds x call/cc x re-entry, and parameters x handlers x re-entry
    m1, m2 = {}, {}
    ex2 = []
    for n in range(1, (8 if not ctx.thorough else 10)):
        ex2 += [relabel(s) for s in enum_grammar(n, memo=m1, **WIND_CORE)]
    run_scripts(ctx, exe, d, ex2, "exhaustive-wind-core")
    ex3 = []
    for n in range(1, (6 if not ctx.thorough else 7)):
        ex3 += [relabel(s) for s in enum_grammar(n, memo=m2, **DYN_CORE)]
    run_scripts(ctx, exe, d, ex3, "exhaustive-dyn-core")
    run_scripts(ctx, exe, d, sib, "sibling-jumps")
    run_scripts(ctx, exe, d, deep_family(rng, ctx.thorough), "deep-nesting", fuel=20000)
    tp = []
    for _ in range(60 if not ctx.thorough else 1500):
        tp += templates(rng)
    run_scripts(ctx, exe, d, tp, "templates")
    rnd = []
    for _ in range(2000 if not ctx.thorough else 40000):
        rnd.append(gen_random(rng, rng.choice([4, 6, 8, 10, 12, 14, 18, 22]), Fresh()))
    run_scripts(ctx, exe, d, rnd, "random")
    if not getattr(ctx, "_c06_stop", False):
        gc_stream(ctx, exe, gc_bodies(ctx, m1, m2))
    ctx.assume("escapes from inside a before/after thunk are excluded (R7RS leaves them unspecified); thunks only push trace symbols")
    ctx.assume("continuations invoked across threads, and the behaviour of an exception nobody handles at the REPL top level, are outside this check")
    ctx.assume("errors detected by primitives ((car 999)) are signalled as non-continuable exceptions to the current handler (chibi's behaviour; R7RS only says 'it is an error')")
    ctx.trust("the forced-collection / allocation-log / poisoning hooks of /repo gc.c (SEXP_USE_VERIF_HOOKS) and ASan as the detector of "
              "touching a swept object; the hand-computed results of the 10 non-DSL programs of the forced-gc stream")
    ctx.trust("the Python printer of DSL scripts to Scheme text (props/C06.py: scheme(), incl. the table of spellings and the "
              "multiple-values encodings) and the OCaml parser of the same token list; the dk annotation is computed by the OCaml driver "
              "(ocaml/C06_driver.ml rundk) from the extracted step function")
    ctx.assume("the raw primitive %call/cc (exported by (chibi), no winding) is outside the R7RS property; it is used only to reach the "
               "growth branch of RESUMECC (a continuation resumed on another green thread's stack)")


def replay(ctx, data):
    """./check C06 --replay evidence/replay/C06-n.json : re-run the failing cases of that file"""
    from vlib import core
    d = ctx.build("default")
    exe = ctx.extract("C06")
    sig = data.get("signature", "")
    if exe is None:
        return core.finish(ctx)
    if sig.startswith("control-trace"):
        bodies = []
        for c in data.get("failing_cases", []):
            s, _ = parse_tokens(c["input"].split())
            bodies.append(s[1][2][3])           # strip the show/callcc 0/handler 99 wrapper
        run_scripts(ctx, exe, d, bodies, "replay")
    elif sig.startswith("control-gc"):
        import tempfile
        da = ctx.build("asan")
        for c in data.get("failing_cases", []):
            with tempfile.NamedTemporaryFile("w", suffix=".scm", dir=B.SCRATCH, delete=False) as fh:
                fh.write(c["program"])
                path = fh.name
            try:
                o, r, e = _gc_run(da, path, dict(c.get("schedule") or {}))
            finally:
                os.unlink(path)
            v = _gc_verdict(o, r, e, c["expected"])
            ctx.count(1, key=("gc-replay", c["input"]), nontrivial=True)
            if v is not None:
                ctx.violation("control-gc:" + v, input=c["input"], schedule=c.get("schedule"), program=c["program"], expected=c["expected"],
                              observed=dict(stdout=o[:400], rc=r, stderr=[l for l in e.split("\n") if "ERROR" in l or "SUMMARY" in l][:4]),
                              replay=_gc_replay_cmd(da, c["program"], dict(c.get("schedule") or {})))
    elif sig.startswith("travel-to-point"):
        travel_cases(ctx, exe, d)
    elif sig.startswith("c-callback-escape"):
        callback_escapes(ctx, d, exe)
    elif sig.startswith("stack-copy"):
        stack_cases(ctx, exe, d)
    elif sig.startswith("values"):
        values_cases(ctx, exe, d)
    elif sig.startswith("resumecc-growth"):
        resumecc_growth(ctx)
    else:
        from gen import c06_travel, c06_shapes
        c06_travel.regen(ctx)
        c06_shapes.check(ctx)
        from gen import c06_exports
        c06_exports.check(ctx)
        alias_identity(ctx, d)
        ctx.coq_obligations("Properties_C06")
    return core.finish(ctx)
