"""C07 — macro expansion is hygienic.
   (T)        coq/Properties_C07.v
   (K-inner)  harness/embed_c07.c (real sexp_env_cell / sexp_identifier_eq_op on random environment chains,
              closures, rename entries, context free-variable lists) vs the extracted model, query by query
              + (round 3) frames with rename entries as imports make them, the environment of closed code built by the real
              sexp_extend_synclo_env (xenv) and the real sexp_analyze of closures with free names around combinations (ana);
              the real sexp_strip_synclos on data with a closure at exactly one position (strip), incl. the depth bound
   (K-inner') harness/c07_renamer.scm: the real make-renamer (direct and as er-macro-transformer builds it) on symbols
              and on closures, several calls per renamer and several renamers, vs the extracted `rename` (eq? pattern)
   (K-mid)    (chibi ast) analyze of programs over the model's macro language (global macros, let-syntax,
              letrec-syntax) vs the extracted `analyze` (binding structure compared after canonical numbering),
              before and after swapping names
   (K-outer)  metamorphic: generated programs over a library of macro shapes, evaluated by the scratch
              chibi-scheme (a) hand-expanded with globally fresh names, (b) with macros and fresh user names,
              (c) with user-bound variables renamed to keywords / standard procedures / names free in the
              templates / temporaries of init-7.scm's own macros; all results must be identical.
              (round 3) + templates quoting data whose inserted symbols sit only in dotted tails / alist cdrs / vector slots
              (syntax-rules and er-macro-transformer); + programs written as scratch libraries whose user identifiers are
              IMPORTED (only / rename / prefix from (srfi 1), (scheme cxr), a scratch library) and used inside sc- / rsc- /
              er-macro-transformer and syntax-rules macros (with and without free names) that bind locals of the same names."""
import os, re, subprocess
from vlib import build as B, scm

HERE = os.path.dirname(os.path.abspath(__file__))
ROOT = os.path.dirname(HERE)

MODEL_CONFIG = "rename_bindings=1 strict_toplevel=1 flat_synclos=0 unwrapped_toplevel=0"
STRIP_BOUND = 10000       # SEXP_STRIP_SYNCLOS_BOUND of the scratch build (printed by the harness; a parameter of the model)


# =====================================================================================================
# K-inner: environment scripts
# =====================================================================================================
class Scen:
    """one random environment scenario; also a small independent re-implementation of the lookup
    (the judge: decides, when model and C differ, which of the two left the specification)"""

    def __init__(self, rng):
        self.rng = rng
        self.lines = []
        self.idents = {}      # slot -> ('sym', s) | ('clo', env, [fv slots], expr slot)
        self.parent = {}      # env -> parent
        self.binds = {}       # env -> list of (slot, cell) newest first
        self.rens = {}
        self.cells = []       # cell numbers defined so far
        self.fv = []          # list of ('i', slot) | ('e', env)
        self.nid = 0
        self.ncell = 0
        self.closed_over = set()   # envs some closure closes over
        self.ncopy = 0
        self.xenv = {}             # script env number -> judge env (copied chain)

    # -- construction
    def emit(self, s):
        self.lines.append(s)

    def new_sym(self, s):
        j = self.nid; self.nid += 1
        self.idents[j] = ('sym', s)
        self.emit("sym %d %d" % (j, s))
        return j

    def new_env(self, p):
        k = len(self.parent)
        self.parent[k] = p
        self.binds[k] = []; self.rens[k] = []
        self.emit("env %d %d" % (k, p))
        return k

    def bind(self, k, j):
        c = self.ncell; self.ncell += 1
        self.binds[k].insert(0, (j, c)); self.cells.append(c)
        self.emit("bind %d %d %d" % (k, j, c))

    def ren(self, k, j, c):
        self.rens[k].insert(0, (j, c))
        self.emit("ren %d %d %d" % (k, j, c))

    def new_clo(self, k, fv, x):
        j = self.nid; self.nid += 1
        self.idents[j] = ('clo', k, list(fv), x)
        self.closed_over.add(k)
        self.emit("clo %d %d %d %s" % (j, k, len(fv), " ".join(str(v) for v in list(fv) + [x])))
        return j

    def set_fv(self, items):
        self.fv = items
        self.emit("fv %d %s" % (len(items), " ".join("%s%d" % it for it in items)))

    # -- reference semantics (pointer identity = slot number for closures, symbol number for symbols)
    def key(self, j):
        d = self.idents[j]
        return ('s', d[1]) if d[0] == 'sym' else ('c', j)

    def name(self, j):
        d = self.idents[j]
        while d[0] == 'clo':
            j = d[3]; d = self.idents[j]
        return j

    def loc1(self, k, j, localp):
        kk = self.key(j)
        k = self.xenv.get(k, k)
        while k >= 0:
            for (jj, c) in self.rens[k]:
                if self.key(jj) == kk:
                    return c
            for (jj, c) in self.binds[k]:
                if self.key(jj) == kk:
                    return c
            if localp:
                break
            k = self.parent[k]
        return None

    def cell(self, k, j, localp, fv=None):
        fv = self.fv if fv is None else fv
        nm = self.key(self.name(j))
        redirected = False
        pos = None
        for idx, it in enumerate(fv):
            if it[0] == 'i' and self.key(it[1]) == nm:
                pos = idx; break
        if pos is not None:
            for it in fv[pos:]:
                if it[0] == 'e':
                    k = it[1]; redirected = True; break
        c = self.loc1(k, j, localp)
        while c is None and self.idents[j][0] == 'clo':
            _, ce, fv, x = self.idents[j]
            if not redirected and self.key(x) not in [self.key(v) for v in fv]:
                k = ce
            j = x
            c = self.loc1(k, j, localp)
        return c

    # -- round 3: syntactic closures around combinations (analysis enters them: eval.c:1216-1224, 235-255)
    def new_form(self, xs):
        j = self.nid; self.nid += 1
        self.idents[j] = ('form', list(xs))
        self.emit("form %d %d %s" % (j, len(xs), " ".join(str(x) for x in xs)))
        return j

    def is_ident(self, j):
        d = self.idents[j]
        while d[0] == 'clo':
            d = self.idents[d[3]]
        return d[0] == 'sym'

    def extend(self, fv_nonempty, ce, k):
        """specification of sexp_extend_synclo_env: with free names in the context every frame of k's chain is
        copied (bindings AND renames) and the context environment ce becomes the parent of the last copy"""
        k, ce = self.xenv.get(k, k), self.xenv.get(ce, ce)
        if not fv_nonempty:
            return k
        chain = []
        while k >= 0:
            chain.append(k); k = self.parent[k]
        ids = []
        for orig in chain:
            self.ncopy += 1
            n = 100000 + self.ncopy
            self.binds[n] = list(self.binds[orig]); self.rens[n] = list(self.rens[orig])
            ids.append(n)
        for a, b in zip(ids, ids[1:] + [ce]):
            self.parent[a] = b
        return ids[0]

    def new_xenv(self, k2, k, ce):
        self.xenv[k2] = self.extend(bool(self.fv), ce, k)
        self.emit("xenv %d %d %d" % (k2, k, ce))

    def ana(self, ce, j, fv=None):
        fv = self.fv if fv is None else fv
        d = self.idents[j]
        if self.is_ident(j):
            c = self.cell(ce, j, 0, fv)
            return "-" if c is None else str(c)
        if d[0] == 'form':
            return "(" + " ".join(self.ana(ce, x, fv) for x in d[1]) + ")"
        _, e, cfv, x = d
        fv2 = ([('i', v) for v in cfv] + [('e', ce)] + list(fv)) if cfv else list(fv)
        return self.ana(self.extend(bool(fv2), ce, e), x, fv2)

    def ideq(self, k1, j1, k2, j2):
        c1, c2 = self.cell(k1, j1, 0), self.cell(k2, j2, 0)
        if c1 is not None and c1 == c2:
            return 1
        if c1 is None and c2 is None:
            if self.key(j1) == self.key(j2) or self.key(self.name(j1)) == self.key(self.name(j2)):
                return 1
        return 0


def gen_scenario(rng, nq):
    """returns (Scen, queries) where queries = list of (line, expected-by-judge, class)"""
    sc = Scen(rng)
    sc.emit("reset")
    nsym = rng.choice([2, 3, 3, 4])
    syms = [sc.new_sym(s) for s in range(nsym)]
    clos = []
    nenv = rng.choice([2, 3, 4, 5, 6])
    for k in range(nenv):
        p = -1 if k == 0 else (k - 1 if rng.random() < 0.7 else rng.randrange(0, k))
        sc.new_env(p)
        # keys: symbols, or closures over strictly earlier environments (see driver: termination)
        for _ in range(rng.choice([0, 1, 1, 2, 3])):
            cands = list(syms) + [j for j in clos if sc.idents[j][1] < k] * 2
            sc.bind(k, rng.choice(cands))
        if sc.cells and rng.random() < 0.25:
            cands = list(syms) + [j for j in clos if sc.idents[j][1] < k]
            sc.ren(k, rng.choice(cands), rng.choice(sc.cells))
        for _ in range(rng.choice([0, 1, 2, 2])):
            x = rng.choice(syms + clos) if (clos and rng.random() < 0.35) else rng.choice(syms)
            r = rng.random()
            if r < 0.6:
                fv = []
            elif r < 0.8:
                fv = [x] + ([rng.choice(syms)] if rng.random() < 0.5 else [])
            else:
                fv = [rng.choice(syms + clos) for _ in range(rng.choice([1, 2]))]
            clos.append(sc.new_clo(rng.randrange(0, k + 1), fv, x))
    # late definitions of bare symbols in environments closures already captured (mutation is visible
    # through the closure because it holds the environment by reference)
    for _ in range(rng.choice([0, 0, 1, 2])):
        sc.bind(rng.randrange(0, nenv), rng.choice(syms))
    if rng.random() < 0.35:
        items = []
        for _ in range(rng.choice([2, 3, 4, 5])):
            items.append(('e', rng.randrange(0, nenv)) if rng.random() < 0.4 else ('i', rng.choice(syms + clos[:2])))
        sc.set_fv(items)
    qs = []
    allid = syms + clos
    for _ in range(nq):
        if rng.random() < 0.7:
            k = rng.randrange(0, nenv)
            j = rng.choice(clos) if (clos and rng.random() < 0.6) else rng.choice(allid)
            lp = 1 if rng.random() < 0.15 else 0
            exp = sc.cell(k, j, lp)
            cls = ("ctx-fv" if sc.fv else "closure-key" if sc.idents[j][0] == 'clo' else "symbol-key") + (":local" if lp else "")
            qs.append(("cell %d %d %d" % (k, j, lp), "-" if exp is None else str(exp), "env-cell:" + cls))
        else:
            k1, k2 = rng.randrange(0, nenv), rng.randrange(0, nenv)
            if rng.random() < 0.5:
                k2 = k1
            j1, j2 = rng.choice(allid), rng.choice(allid)
            if rng.random() < 0.3:
                j2 = j1
            qs.append(("ideq %d %d %d %d" % (k1, j1, k2, j2), str(sc.ideq(k1, j1, k2, j2)), "identifier=?"))
    return sc, qs


def gen_synclo_scenario(rng):
    """round 3: the sc-macro-transformer / make-syntactic-closure situation.  A use environment U whose frames carry
    RENAME entries (imports: name -> cell of a library environment) besides bindings, a macro environment M, frames
    the macro's template introduces on top of M binding the same NAMES, closures over U with (and without) free
    names around combinations of identifiers, nested; the environment such a closure is analysed in is built by the
    real sexp_extend_synclo_env (xenv) and by the real analyze (ana)."""
    sc = Scen(rng)
    sc.emit("reset")
    nsym = rng.choice([3, 4, 5])
    syms = [sc.new_sym(s) for s in range(nsym)]
    g = sc.new_env(-1)                                   # global frame
    for j in syms:
        sc.bind(g, j)        # every name has a global binding: analyze never has to create an undefined top-level
                             # cell (a mutation of the environment that is outside the model)
    lib = sc.new_env(g)                                  # a library: its cells are what imports point to
    for j in syms:
        if rng.random() < 0.8:
            sc.bind(lib, j)
    libcells = [c for (_, c) in sc.binds[lib]]
    # use environment: 1-3 frames, imports (rename entries, possibly under another name) and own definitions
    u = g
    uframes = []
    for _ in range(rng.choice([1, 2, 2, 3])):
        u = sc.new_env(u); uframes.append(u)
        for j in syms:
            r = rng.random()
            if r < 0.45 and libcells:
                sc.ren(u, j, rng.choice(libcells))       # (import (rename (lib) (x j))) / (only (lib) j)
            elif r < 0.6:
                sc.bind(u, j)
    # macro environment: the library itself, or the program (macro defined where it is used)
    m = rng.choice([lib, u, g])
    # what the template introduces: 1-2 frames binding plain symbols (`(lambda (exit) (let ((tmp ..) (first ..)) ..))`)
    ce = m
    for _ in range(rng.choice([1, 2, 2])):
        ce = sc.new_env(ce)
        for j in rng.sample(syms, rng.choice([1, 2, min(3, nsym)])):
            sc.bind(ce, j)
    # identifiers of the closed user code: bare symbols, renamed symbols (closures over M or U)
    clos = []
    for _ in range(rng.choice([1, 2, 3])):
        x = rng.choice(syms + clos) if (clos and rng.random() < 0.3) else rng.choice(syms)
        fv = [] if rng.random() < 0.7 else [rng.choice(syms)]
        clos.append(sc.new_clo(rng.choice([m, u, ce]), fv, x))
    def free_names():
        r = rng.random()
        if r < 0.2:
            return []
        return rng.sample(syms, rng.choice([1, 1, 2]))
    def form(depth):
        xs = []
        for _ in range(rng.choice([2, 3, 4])):
            if depth > 0 and rng.random() < 0.3:
                inner = form(depth - 1)
                if rng.random() < 0.7:
                    inner = sc.new_clo(rng.choice(uframes + [m]), free_names(), inner)
                xs.append(inner)
            else:
                xs.append(rng.choice(syms + syms + clos))
        return sc.new_form(xs)
    user = sc.new_clo(u, free_names(), form(rng.choice([0, 1, 1, 2])))     # the closed user form
    top = user
    if rng.random() < 0.5:
        # the whole transformer result closed in M with no free names (what sc-macro-transformer returns), used in U
        top = sc.new_clo(m, [], sc.new_form([rng.choice(syms), user, rng.choice(syms + clos)]))
    qs = []
    # an enclosing context fv list (the closure is itself inside closed code) in a third of the scenarios
    if rng.random() < 0.33:
        items = [('i', rng.choice(syms)) for _ in range(rng.choice([1, 2]))] + [('e', rng.choice(uframes + [ce]))]
        sc.set_fv(items)
    # the environment of closed code, queried directly: needs a non-empty fv list to copy at all
    if not sc.fv and rng.random() < 0.8:
        sc.set_fv([('i', v) for v in rng.sample(syms, rng.choice([1, 2]))] + [('e', ce)])
    x2 = 3000
    sc.new_xenv(x2, u, ce)
    for _ in range(rng.choice([4, 6, 8])):
        j = rng.choice(syms + syms + clos)
        lp = 1 if rng.random() < 0.1 else 0
        exp = sc.cell(x2, j, lp)
        qs.append(("cell %d %d %d" % (x2, j, lp), "-" if exp is None else str(exp), "env-cell:closed-code" + (":local" if lp else "")))
    # the real analyze, last (it may create undefined top-level cells)
    at = u if top is not user else ce
    qs.append(("ana %d %d" % (at, top), sc.ana(at, top), "analyze:closed-code"))
    return sc, qs


def run_inner(ctx, d, exe, nscen):
    rng = ctx.rng
    emb = B.cc_embed(d, os.path.join(ROOT, "harness", "embed_c07.c"), os.path.join(d, "embed_c07"))
    lines, meta = ["config"], [None]
    for s in range(2 * nscen):
        sc, qs = gen_scenario(rng, rng.choice([10, 20, 30])) if s < nscen else gen_synclo_scenario(rng)
        for l in sc.lines:
            lines.append(l); meta.append(None)
        for (q, exp, cls) in qs:
            lines.append(q); meta.append((exp, cls, s, list(sc.lines)))
    r = subprocess.run([emb], input="\n".join(lines) + "\n", capture_output=True, text=True, env=B.chibi_env(d), timeout=600)
    io = r.stdout.split("\n")
    if r.returncode != 0 or len(io) < len(lines):
        ctx.broken("inner-correspondence:C07", "embedding harness died rc=%s after %d/%d answers: %s" % (r.returncode, len(io), len(lines), r.stderr[-500:]))
        return
    global STRIP_BOUND
    mcfg = re.match(r"(.*) strip_bound=(\d+)$", io[0])
    if not mcfg or mcfg.group(1) != MODEL_CONFIG:
        ctx.broken("build-configuration:C07", "the model mirrors %s but the scratch build has %s" % (MODEL_CONFIG, io[0]))
    else:
        STRIP_BOUND = int(mcfg.group(2))
    mo = ["config"] + ctx.run_model(exe, lines[1:])
    sampled = 0
    for q, m, i, mt in zip(lines, mo, io, meta):
        if mt is None:
            continue
        exp, cls, s, script = mt
        ctx.count(1, key=(tuple(script), q), nontrivial=(cls != "env-cell:symbol-key"))
        ctx.cov["traces_validated_against_impl"] += 1
        if m == i == exp:
            if sampled < 4 and (cls.startswith("env-cell:closure-key") or (sampled >= 2 and cls == "analyze:closed-code")) and i != "-":
                ctx.sample(dict(kind="inner", script=script[1:], query=q, model=m, impl=i)); sampled += 1
            continue
        replay = "printf '%%s\\n' %s | LD_LIBRARY_PATH=%s %s   # last line answers the query; expected %s" % (
            " ".join("'%s'" % l for l in script + [q]), d, emb, exp)
        if i != exp and m == exp:
            ctx.violation(cls, input=dict(script=script, query=q), expected=exp, observed=i, replay=replay,
                          why="sexp_env_cell / identifier=? disagrees with the model and with the independent judge")
        elif i != exp:
            ctx.violation(cls, input=dict(script=script, query=q), expected=exp, observed=i, model=m, replay=replay,
                          why="C differs from the judge (and the model differs too)")
        else:
            ctx.broken("correspondence:" + cls, "model differs from C and from the judge: %s model=%s impl=%s script=%s" % (q, m, i, script))


# =====================================================================================================
# K-inner (quoted data): the real sexp_strip_synclos vs the extracted two-stage model (contains + strip_b)
# =====================================================================================================
def d_tokens(x):
    t = x[0]
    if t in 'SL':
        return "%s%d" % (t, x[1])
    if t == 'N':
        return "N"
    if t == 'P':
        return "P %s %s" % (d_tokens(x[1]), d_tokens(x[2]))
    if t == 'V':
        return " ".join(["V%d" % len(x[1])] + [d_tokens(y) for y in x[1]])
    return "C " + d_tokens(x[1])


def d_strip(x):
    """the specification: every closure layer disappears, everything else stays"""
    t = x[0]
    if t == 'C':
        return d_strip(x[1])
    if t == 'P':
        return ('P', d_strip(x[1]), d_strip(x[2]))
    if t == 'V':
        return ('V', [d_strip(y) for y in x[1]])
    return x


def d_hgt(x):
    t = x[0]
    if t == 'C':
        return d_hgt(x[1])
    if t == 'P':
        return 1 + max(d_hgt(x[1]), d_hgt(x[2]))
    if t == 'V':
        return 1 + max([d_hgt(y) for y in x[1]] + [0])
    return 0


def d_list(xs, tail=('N',)):
    for x in reversed(xs):
        tail = ('P', x, tail)
    return tail


def gen_strip_cases(rng, nrandom):
    """(datum, class): one closure at EXACTLY ONE position, systematically over the position classes, then random data"""
    out = []
    lit = lambda: ('L', rng.randrange(0, 50))
    def clo():
        r = rng.random()
        inner = ('S', rng.randrange(0, 6))
        if r < 0.6:
            return ('C', inner)
        if r < 0.75:
            return ('C', ('C', inner))                                  # renamed twice
        if r < 0.9:
            return ('C', d_list([lit(), inner]))                        # a closure around a whole form
        return ('C', d_list([lit()], ('C', inner)))                     # ... whose own dotted tail is a closure
    # car at nesting depth d, at the first / middle / last position of its list
    for dpt in range(0, 5):
        for pos in range(3):
            x = clo()
            for _ in range(dpt + 1):
                xs = [lit(), lit()]; xs.insert(pos, x); x = d_list(xs)
            out.append((x, "car-depth-%d" % dpt))
    # the dotted tail after k elements (no closure in any car), alone and nested
    for k in range(1, 8):
        out.append((d_list([lit() for _ in range(k)], clo()), "dotted-tail"))
        out.append((d_list([lit(), d_list([lit() for _ in range(k)], clo()), lit()]), "dotted-tail:nested"))
        out.append((('V', [lit(), d_list([lit() for _ in range(k)], clo())]), "dotted-tail:in-vector"))
    # vector slots: first / middle / last
    for n in range(1, 6):
        for pos in sorted(set([0, n // 2, n - 1])):
            xs = [lit() for _ in range(n)]; xs[pos] = clo()
            cls = "vector-slot:" + ("first" if pos == 0 else "last" if pos == n - 1 else "middle")
            out.append((('V', xs), cls))
            out.append((d_list([lit(), ('V', xs)]), cls + ":in-list"))
            out.append((d_list([lit()], ('V', xs)), cls + ":vector-as-dotted-tail"))
    # association lists with non-symbol keys: closures only in the cdrs of the entries
    for n in range(1, 5):
        for which in range(n):
            ents = [('P', lit(), (clo() if e == which else ('S', e))) for e in range(n)]
            out.append((d_list(ents), "alist-cdr"))
        out.append((d_list([('P', lit(), clo()) for _ in range(n)]), "alist-cdr:all"))
    # nested quasi-quotation written as data: (quasiquote (1 (unquote X) . Y))
    for _ in range(4):
        qq, uq = ('S', 20), ('S', 21)
        a, b = (clo(), lit()) if rng.random() < 0.5 else (lit(), clo())
        out.append((d_list([qq, d_list([lit(), d_list([uq, a])], b)]), "quasiquote"))
    # the closure is the whole datum
    for _ in range(3):
        out.append((clo(), "whole-datum"))
    # random data with 0-3 closures anywhere
    def rnd(d):
        r = rng.random()
        if d <= 0 or r < 0.3:
            q = rng.random()
            return lit() if q < 0.5 else ('S', rng.randrange(0, 6)) if q < 0.75 else ('N',) if q < 0.82 else ('C', ('S', rng.randrange(0, 6)))
        if r < 0.7:
            tail = ('N',) if rng.random() < 0.6 else rnd(0)
            return d_list([rnd(d - 1) for _ in range(rng.choice([1, 2, 3, 4]))], tail)
        if r < 0.9:
            return ('V', [rnd(d - 1) for _ in range(rng.choice([0, 1, 2, 3]))])
        return ('C', rnd(d - 1))
    for _ in range(nrandom):
        out.append((rnd(rng.choice([1, 2, 3, 4])), "random"))
    return out


def run_strip(ctx, d, exe, nrandom):
    rng = ctx.rng
    emb = os.path.join(d, "embed_c07")
    cases = gen_strip_cases(rng, nrandom)
    toks = [d_tokens(x) for x, _ in cases]
    # the depth bound: lists whose last car / dotted tail lies just below and just beyond what the copy reaches, and
    # nesting just below and beyond what the predicate reaches (model = implementation there; the specification only
    # speaks about data within the bound)
    B0 = STRIP_BOUND
    edge = []
    for k in (B0 - 2, B0 - 1, B0, B0 + 1):
        edge.append(("P L1 " * k + "C S3", "bound:dotted-tail-after-%d" % k))
        edge.append(("P L1 " * (k - 1) + "P C S3 N", "bound:last-car-of-%d" % k))
    for k in (B0 - 1, B0, B0 + 1):
        edge.append(("P " * k + "C S3" + " N" * k, "bound:car-depth-%d" % k))
    r = subprocess.run([emb], input="\n".join("strip " + t for t in toks + [t for t, _ in edge]) + "\n", capture_output=True, text=True,
                       env=B.chibi_env(d), timeout=300)
    io = r.stdout.split("\n")
    if r.returncode != 0 or len(io) < len(toks) + len(edge):
        ctx.broken("inner-correspondence:strip", "embedding harness died rc=%s after %d/%d answers: %s" % (r.returncode, len(io), len(toks) + len(edge), r.stderr[-300:]))
        return
    mo = ctx.run_model(exe, ["strip %d %s" % (B0, t) for t in toks + [t for t, _ in edge]])
    shown = 0
    for n, ((x, cls), t) in enumerate(zip(cases, toks)):
        exp = d_tokens(d_strip(x))
        i, m = io[n], mo[n]
        ctx.count(1, key=("strip", t), nontrivial=("C" in t))
        ctx.cov["traces_validated_against_impl"] += 1
        if i == m == exp:
            if shown < 2 and cls.startswith(("dotted-tail", "alist")):
                ctx.sample(dict(kind="strip", datum=t, stripped=i, position=cls)); shown += 1
            continue
        replay = "printf '%%s\\n' 'strip %s' | LD_LIBRARY_PATH=%s %s   # prefix notation: P a d pair, N (), L<n> number, S<n> symbol, V<k> vector, C e closure; expected %s" % (t, d, emb, exp)
        if i != exp:
            ctx.violation("strip:" + cls, input=t, expected=exp, observed=i, model=m, replay=replay,
                          why="strip-syntactic-closures (sexp_strip_synclos: contains-syntax? predicate, then copy) left a syntactic closure in quoted data "
                              "or changed the datum; position class of the single closure: " + cls)
        else:
            ctx.broken("correspondence:strip", "model differs from sexp_strip_synclos and from the specification: %s model=%s impl=%s" % (t, m, i))
    for n, (t, cls) in enumerate(edge):
        i, m = io[len(toks) + n], mo[len(toks) + n]
        ctx.count(1, key=("strip", cls), nontrivial=True)
        if i != m:
            ctx.broken("correspondence:strip:" + cls, "at the depth bound %d the model and sexp_strip_synclos differ: model=%s.. impl=%s.." % (B0, m[-40:], i[-40:]))


# =====================================================================================================
# K-outer: metamorphic programs
# =====================================================================================================
GLOBAL_MACROS = r"""
(define-syntax my-or2 (syntax-rules () ((_ a b) (let ((t a)) (if t t b)))))
(define-syntax my-or2b (syntax-rules () ((_ a b) ((lambda (tmp) (if tmp tmp b)) a))))
(define-syntax swap! (syntax-rules () ((_ x y) (let ((tmp x)) (set! x y) (set! y tmp)))))
(define-syntax my-let1 (syntax-rules () ((_ v e body) ((lambda (v) body) e))))
(define-syntax my-sum (syntax-rules () ((_ a b) (+ a b))))
(define-syntax my-pair (syntax-rules () ((_ a b) (list a b))))
(define-syntax repeat (syntax-rules () ((_ n body) (let loop ((i n)) (if (> i 0) (begin body (loop (- i 1))) #f)))))
(define-syntax flat (syntax-rules () ((_ (a ...) ...) (list a ... ...))))
(define-syntax my-let* (syntax-rules () ((_ () body) (let () body)) ((_ ((v e) rest ...) body) (let ((v e)) (my-let* (rest ...) body)))))
(define-syntax my-lets (syntax-rules () ((_ ((v e) ...) body) ((lambda (v ...) body) e ...))))
(define-syntax my-cond (syntax-rules (else) ((_ (else e)) e) ((_ (c e) clause ...) (if c e (my-cond clause ...)))))
(define-syntax define-getter (syntax-rules () ((_ name var) (define-syntax name (syntax-rules () ((_) var))))))
(define-syntax my-if (er-macro-transformer (lambda (expr rename compare) (list (rename 'if) (cadr expr) (car (cddr expr)) (cadr (cddr expr))))))
(define-syntax sc-or2 (sc-macro-transformer (lambda (expr env)
   (let ((a (make-syntactic-closure env '() (cadr expr))) (b (make-syntactic-closure env '() (car (cddr expr)))))
     `(let ((t ,a)) (if t t ,b))))))
(define-syntax inc-by (syntax-rules () ((_ x n) (set! x (+ x n)))))
(define-syntax kw-list (syntax-rules () ((_ a) (list 'if 'tmp 'else a '(t . loop) '#(else t)))))
(define-syntax my-cond2 (syntax-rules (else =>) ((_) #f) ((_ (else e)) e) ((_ (c => f) clause ...) (let ((t c)) (if t (f t) (my-cond2 clause ...)))) ((_ (c e) clause ...) (if c e (my-cond2 clause ...)))))
(define-syntax aif (sc-macro-transformer (lambda (expr env)
   (let ((test (make-syntactic-closure env '() (cadr expr)))
         (then (make-syntactic-closure env '(it) (car (cddr expr))))
         (alt (make-syntactic-closure env '() (cadr (cddr expr)))))
     `(let ((it ,test)) (if it ,then ,alt))))))
(define-syntax esc-sum (syntax-rules () ((_ a b) (... (+ a (- b 1))))))
(define-syntax esc-or2 (syntax-rules () ((_ a b) (... (let ((t a)) (if t t b))))))
(define-syntax esc-dots (syntax-rules () ((_ a ...) (+ (length '((... ...) a ... (... ...))) a ...))))
(define-syntax esc-nest (syntax-rules () ((_ (a b ...) ...) (+ (* a ((... +) 0 b ...)) ...))))
(define-syntax esc-custom (syntax-rules ::: () ((_ a b :::) (+ (::: (- a 1)) (let ((... 2)) (* ... (+ b ::: 0)))))))
(define-syntax esc-dot (syntax-rules () ((_ a . rest) (... (+ a . rest)))))
(define-syntax esc-vec (syntax-rules () ((_ a b) (+ a b (if (eq? (vector-ref '#(a (... ...) tmp) 2) 'tmp) 4 0)))))
(define-syntax esc-deep (syntax-rules () ((_ (a ...) ...) (+ 0 (... (- 0 1)) (car (list a ... 0)) ... (... (* 1 1))))))
"""

# identifiers the templates of the esc-* macros insert under an ellipsis escape / next to one (round 4): a user
# variable bound around the use and passed as an argument may take any of these names
ESC_NAMES = {'sum': ["+", "-"], 'or': ["t", "if", "let"], 'dots': ["+", "length", "quote"], 'nest': ["+", "*"],
             'custom': ["-", "+", "let", "*", "..."], 'dotted': ["+"], 'vec': ["+", "if", "eq?", "tmp"],
             'deep': ["-", "*", "+", "car", "list"]}

# names a renamed user variable may take: core keywords, derived keywords, standard procedures, names
# free in the templates above, temporaries of init-7.scm's own macros (cond/or/do/case/syntax-rules ...)
ADVERSARIAL = ["if", "lambda", "let", "set!", "quote", "begin", "define", "else", "=>", "and", "or", "cond", "case", "do",
               "let*", "letrec", "when", "unless", "quasiquote", "unquote", "list", "cons", "car", "cdr", "+", "-", ">", "<", "=",
               "not", "eq?", "memv", "apply", "append", "map", "t", "tmp", "loop", "i", "res", "ls", "len", "lp", "expr",
               "rename", "compare", "v", "e", "a", "b", "x", "y", "n", "c", "body", "clause", "rest", "name", "var", "_", "...",
               "my-or2", "my-cond", "flat", "er-macro-transformer", "syntax-rules", "define-syntax", "let-syntax", "key", "tmp2",
               "p", "q", "e1", "e2", "temps", "letrec-syntax", "it", "*", "length"]


Q_SYMS = ["tag", "one", "two", "else", "t", "tmp", "if", "x", "loop", "quote"]


def qdata_datum(rng):
    """a datum whose symbols sit only at chosen positions: ('n', k) number, ('s', name) symbol, ('l', [items], tail|None)
    list, ('v', [items]) vector.  Numbers / strings everywhere else, so that a syntax-rules template has closures ONLY
    at those positions; for the er variant exactly the symbols are renamed."""
    sym = lambda: ('s', rng.choice(Q_SYMS))
    num = lambda: ('n', rng.randrange(0, 20))
    nums = lambda k: [num() for _ in range(k)]
    c = rng.randrange(9)
    if c == 0:      # (0 . tag), (1 2 . tag)
        return ('l', nums(rng.choice([1, 2, 3, 5])), sym())
    if c == 1:      # association list with number keys: ((1 . one) (2 . two))
        return ('l', [('l', [num()], sym()) for _ in range(rng.choice([1, 2, 3]))], None)
    if c == 2:      # ... only one entry carries a symbol
        n = rng.choice([2, 3, 4]); w = rng.randrange(n)
        return ('l', [('l', [num()], sym() if e == w else num()) for e in range(n)], None)
    if c == 3:      # vector slot first / middle / last
        n = rng.choice([1, 2, 3, 5]); xs = nums(n); xs[rng.choice([0, n // 2, n - 1])] = sym()
        return ('v', xs)
    if c == 4:      # nested dotted tail
        return ('l', [num(), ('l', nums(rng.choice([1, 2])), sym()), num()], None)
    if c == 5:      # vector as dotted tail / vector inside a list
        v = ('v', nums(1) + [sym()])
        return ('l', nums(2), v) if rng.random() < 0.5 else ('l', [num(), v], None)
    if c == 6:      # car at depth
        x = sym()
        for _ in range(rng.choice([1, 2, 3])):
            x = ('l', [num(), x, num()], None)
        return x
    if c == 7:      # dotted tail inside a vector
        return ('v', [num(), ('l', nums(2), sym())])
    return ('l', [num(), ('l', [sym(), num()], sym())], None)


def q_text(x):
    t = x[0]
    if t == 'n':
        return str(x[1])
    if t == 's':
        return x[1]
    if t == 'v':
        return "#(%s)" % " ".join(q_text(y) for y in x[1])
    return "(%s%s)" % (" ".join(q_text(y) for y in x[1]), "" if x[2] is None else " . " + q_text(x[2]))


def q_build(x):
    """expression building the datum inside an er-macro-transformer: symbols go through the renamer r"""
    t = x[0]
    if t == 'n':
        return str(x[1])
    if t == 's':
        return "(r '%s)" % x[1]
    if t == 'v':
        return "(vector %s)" % " ".join(q_build(y) for y in x[1])
    out = "'()" if x[2] is None else q_build(x[2])
    for y in reversed(x[1]):
        out = "(cons %s %s)" % (q_build(y), out)
    return out


class Gen:
    def __init__(self, rng):
        self.rng = rng
        self.nv = 0
        self.shapes = set()
        self.fixed = {}      # variables whose name is dictated by a macro (aif's `it`)
        self.aif_then = 0    # > 0 while generating the `then` branch of an aif (a closure with free name it)
        self.nested_aif = False
        self.in_template = set()   # variables whose binder is written inside a syntax-rules template: not `...` / `_`
        self.extra = {}      # var -> [(candidate: var id | name, [expressions whose user text must not use that name])]:
                             # names the variable may take although the token check on its whole scope forbids them
                             # (sibling keywords of a let-syntax, the macro's own name, temporaries of generated macros)

    def newvar(self):
        self.nv += 1
        return self.nv

    def const(self):
        return ('num', self.rng.randrange(0, 9))

    def atom(self, scope):
        if scope and self.rng.random() < 0.75:
            return ('var', self.rng.choice(scope))
        return self.const()

    def expr(self, scope, depth, force=None):
        """an integer-valued expression"""
        rng = self.rng
        if depth <= 0 and force is None:
            return self.atom(scope)
        shapes = ['plus', 'lam', 'let', 'if', 'or2', 'or2b', 'sum', 'let1', 'lets', 'letstar', 'swap', 'repeat', 'cond',
                  'builtin-or', 'builtin-cond', 'builtin-do', 'builtin-let*', 'named-let', 'getter', 'let-syntax',
                  'letrec-syntax', 'my-if', 'sc-or2', 'incby', 'builtin-case', 'builtin-and', 'local-define-syntax', 'when',
                  'else-var', 'else-var-builtin', 'kwlist', 'aif',
                  'syn-sibling', 'syn-sibling', 'encl-kw', 'gen-ordered', 'gen-or', 'kw-after', 'qdata', 'qdata', 'esc', 'esc', 'esc']
        s = rng.choice(shapes) if force is None else force
        self.shapes.add(s)
        E = lambda sc=scope, d=depth - 1: self.expr(sc, d)
        if s == 'plus':
            return ('call', '+', [E(), E()])
        if s == 'lam':
            v = self.newvar()
            return ('app', ('lam', [v], E(scope + [v])), [E()])
        if s == 'let':
            v = self.newvar()
            return ('let', [(v, E())], E(scope + [v]))
        if s == 'if':
            return ('if', ('call', '<', [E(), E()]), E(), E())
        if s in ('or2', 'or2b', 'sc-or2', 'builtin-or'):
            a = ('bool', False) if rng.random() < 0.5 else E()
            return ('mac', s, [a, E()])
        if s == 'builtin-and':
            return ('mac', s, [E(), E()])
        if s == 'sum':
            return ('mac', s, [E(), E()])
        if s == 'my-if':
            return ('mac', s, [('call', '<', [E(), E()]), E(), E()])
        if s == 'let1':
            v = self.newvar()
            return ('mac', s, [v, E(), E(scope + [v])])
        if s in ('lets', 'builtin-let*', 'letstar'):
            n = rng.choice([1, 2, 3])
            vs = [self.newvar() for _ in range(n)]
            if s == 'lets':
                inits = [E() for _ in vs]
            else:
                inits = [self.expr(scope + vs[:k], depth - 1) for k in range(n)]
            return ('mac', s, [vs, inits, E(scope + vs)])
        if s == 'swap':
            x, y = self.newvar(), self.newvar()
            sc2 = scope + [x, y]
            return ('let', [(x, E()), (y, E())], ('seq', [('mac', 'swap', [x, y])], ('call', '-', [('var', x), ('call', '*', [('num', 3), ('var', y)])])))
        if s == 'incby':
            x = self.newvar()
            return ('let', [(x, E())], ('seq', [('mac', 'incby', [x, E(scope + [x])])], ('var', x)))
        if s == 'repeat':
            acc = self.newvar()
            return ('let', [(acc, E())], ('seq', [('mac', 'repeat', [('num', rng.randrange(0, 4)), ('set', acc, ('call', '+', [('var', acc), self.expr(scope + [acc], depth - 1)]))])], ('var', acc)))
        if s in ('cond', 'builtin-cond'):
            n = rng.choice([1, 2])
            clauses = [(('call', '<', [E(), E()]) if rng.random() < 0.7 else self.atom(scope), E()) for _ in range(n)]
            return ('mac', s, [clauses, E()])
        if s == 'builtin-case':
            return ('mac', s, [E(), rng.sample(range(0, 9), 2), E(), E()])
        if s == 'when':
            x = self.newvar()
            return ('let', [(x, E())], ('seq', [('mac', 'when', [('call', '<', [E(scope + [x]), E(scope + [x])]), ('set', x, E(scope + [x]))])], ('var', x)))
        if s == 'builtin-do':
            i, acc = self.newvar(), self.newvar()
            return ('mac', s, [i, acc, ('num', rng.randrange(0, 4)), E(), self.expr(scope + [i, acc], depth - 1)])
        if s == 'named-let':
            f, i, acc = self.newvar(), self.newvar(), self.newvar()
            return ('mac', s, [f, i, acc, ('num', rng.randrange(0, 4)), E(), self.expr(scope + [i, acc], depth - 1)])
        if s in ('getter', 'let-syntax', 'local-define-syntax'):
            # outer variable captured by a locally defined macro, inner variable shadows nothing relevant
            x, y, m = self.newvar(), self.newvar(), self.newvar()
            return ('mac', s, [x, E(), y, E(scope + [x]), m, self.expr(scope + [x, y], depth - 1)])
        if s == 'letrec-syntax':
            m1, m2 = self.newvar(), self.newvar()
            return ('mac', s, [m1, m2, E(), E()])
        if s in ('else-var', 'else-var-builtin'):
            # a user variable in the test / receiver position of a cond clause: may be renamed to else or =>
            x, f = self.newvar(), self.newvar()
            xv = ('bool', False) if rng.random() < 0.4 else self.const()
            return ('mac', s, [x, xv, f, E(), E(), rng.random() < 0.5])
        if s == 'kwlist':
            return ('mac', s, [E()])
        if s == 'syn-sibling':
            # a let-syntax / letrec-syntax with two sibling keywords G F; G's template refers to the user procedure H
            # bound outside (and, letrec-syntax only, to the later sibling F); V is an unrelated outer variable.
            # let-syntax: the specs are NOT in the scope of G and F, so H may be called like F or like G itself;
            # both forms: V may be called like either keyword (it is not used inside the form)
            rec = 'rec' if rng.random() < 0.4 else 'nonrec'
            V, H, G, F = self.newvar(), self.newvar(), self.newvar(), self.newvar()
            self.extra[V] = [(F, []), (G, [])]
            if rec == 'nonrec':
                self.extra[H] = [(F, []), (G, [])]
            e1, e2 = E(), E()
            if rec == 'nonrec' and rng.random() < 0.5:
                # the keyword F named like a procedure G's template uses free (top-level outer binding): valid
                # when the body's user text does not use that name
                self.extra[F] = [('-', [e1, e2])]
            return ('mac', s, [rec, V, E(), H, ('num', rng.randrange(0, 9)), G, F, e1, e2])
        if s == 'encl-kw':
            # a variable bound inside the body of a let-syntax may take the keyword's name where the keyword is not used
            F, Y = self.newvar(), self.newvar()
            e3 = self.expr(scope + [Y], depth - 1)
            self.extra[Y] = [(F, [e3])]
            return ('mac', s, [F, E(), Y, E(), e3])
        if s == 'kw-after':
            # a local keyword named like an outer variable that is used again after the let-syntax form
            V, F = self.newvar(), self.newvar()
            e1 = E()
            self.extra[F] = [(V, [e1])]
            return ('mac', s, [V, E(), F, e1, rng.random() < 0.5])
        if s == 'gen-ordered':
            # macro-defining macro whose generated macro introduces a binding per recursion step and accumulates
            # the temporaries (every expansion of the generated macro must insert a NEW identifier)
            d = rng.choice(['d1', 'd2'])
            DEF, MK, NAME, T = self.newvar(), self.newvar(), self.newvar(), self.newvar()
            es = [E() for _ in range(rng.choice([2, 3]))]
            self.extra[T] = [(NAME, []), (DEF, [])]            # the temporary spelled like the generated macro's own name
            self.in_template |= {T, NAME, MK}
            return ('mac', s, [d, DEF, MK, NAME, T, es])
        if s == 'gen-or':
            # macro whose template defines a binding-introducing macro (let-syntax) and uses it, in the same template,
            # on a template-bound variable U: U may be spelled like the generated macro's temporary T
            d = rng.choice(['d1', 'd2'])
            WITH, WITH2, GOR, T, U = [self.newvar() for _ in range(5)]
            self.extra[U] = [(T, [])]
            self.extra[T] = [(U, []), (GOR, []), (WITH, [])]     # the temporary spelled like the generated macro itself
            self.in_template |= {WITH, GOR, T, U}
            return ('mac', s, [d, WITH, WITH2, GOR, T, U, E()])
        if s == 'qdata':
            # quoted data in a template: the inserted (renamed) symbols sit at chosen positions only - dotted tails,
            # cdrs of an alist with non-symbol keys, vector slots, nested - and must come out as plain symbols
            kind = rng.choice(['sr', 'sr', 'er'])
            return ('mac', s, [kind, qdata_datum(rng), E()])
        if s == 'esc':
            # templates under an ellipsis escape (... tmpl), (... ...), nested ellipsis depth, a custom ellipsis identifier,
            # dotted and vector templates: the identifiers they insert must be renamed like any other.  V is a user
            # variable bound around the use and passed in: it may be called like any identifier the template inserts
            kind = rng.choice(sorted(ESC_NAMES))
            V = self.newvar()
            sc2 = scope + [V]
            def A():
                r = rng.random()
                if r < 0.5:
                    return ('var', V)
                if r < 0.75:
                    return self.atom(sc2)
                return self.expr(sc2, min(depth - 1, 1))
            if kind in ('sum', 'vec'):
                args = [A(), A()]
            elif kind == 'or':
                args = [('bool', False) if rng.random() < 0.5 else A(), A()]
            elif kind == 'dots':
                args = [A() for _ in range(rng.choice([0, 1, 2, 3]))]
            elif kind in ('nest', 'deep'):
                args = [[A()] + [A() for _ in range(rng.choice([0, 1, 2]))] for _ in range(rng.choice([1, 2, 3]))]
            elif kind == 'custom':
                args = [A()] + [A() for _ in range(rng.choice([0, 1, 2]))]
            else:
                args = [A() for _ in range(rng.choice([1, 2, 3]))]
            flat = []
            for x in args:
                flat.extend(x if isinstance(x, list) else [x])
            self.extra[V] = [(n, flat) for n in ESC_NAMES[kind]]
            return ('let', [(V, E())], ('mac', s, [kind, args]))
        if s == 'aif':
            it = self.newvar()
            self.fixed[it] = 'it'
            if self.aif_then:
                self.nested_aif = True     # F-C07-2: an aif inside the free-name closure of another aif
            test = ('bool', False) if rng.random() < 0.3 else E()
            self.aif_then += 1
            # every aif calls its variable `it`: inside the branch the enclosing aifs' variables are shadowed
            then = self.expr([v for v in scope if v not in self.fixed] + [it], depth - 1)
            self.aif_then -= 1
            return ('mac', s, [it, test, then, E()])
        return self.atom(scope)


class Renderer:
    """mode 'mac': with macros, names from `names`; mode 'ref': macro-free, hand expansion, fresh g-names"""

    def __init__(self, names, ref, defect=False):
        self.names = names
        self.ref = ref
        self.g = 0
        self.defect = defect      # hand-expand with the F-C07-2 behaviour (see run_outer)
        self.it_stack = []        # `it` variables of the enclosing aif free-name branches

    def fresh(self):
        self.g += 1
        return "g%d" % self.g

    def nm(self, v):
        return self.names[v]

    def r(self, e):
        t = e[0]
        R = self.r
        if t == 'num':
            return str(e[1])
        if t == 'bool':
            return "#t" if e[1] else "#f"
        if t == 'var':
            return self.nm(e[1])
        if t == 'call':
            return "(%s %s)" % (e[1], " ".join(R(a) for a in e[2]))
        if t == 'app':
            return "(%s %s)" % (R(e[1]), " ".join(R(a) for a in e[2]))
        if t == 'lam':
            return "(lambda (%s) %s)" % (" ".join(self.nm(v) for v in e[1]), R(e[2]))
        if t == 'if':
            return "(if %s %s %s)" % (R(e[1]), R(e[2]), R(e[3]))
        if t == 'set':
            return "(set! %s %s)" % (self.nm(e[1]), R(e[2]))
        if t == 'seq':
            return "(begin %s %s)" % (" ".join(R(a) for a in e[1]), R(e[2]))
        if t == 'let':
            if self.ref:
                return "((lambda (%s) %s) %s)" % (" ".join(self.nm(v) for v, _ in e[1]), R(e[2]), " ".join(R(x) for _, x in e[1]))
            return "(let (%s) %s)" % (" ".join("(%s %s)" % (self.nm(v), R(x)) for v, x in e[1]), R(e[2]))
        if t == 'mac':
            return self.mac(e[1], e[2])
        raise ValueError(t)

    def mac(self, s, a):
        R, ref, nm = self.r, self.ref, self.nm
        if s in ('or2', 'or2b', 'sc-or2', 'builtin-or'):
            if ref:
                g = self.fresh()
                return "((lambda (%s) (if %s %s %s)) %s)" % (g, g, g, R(a[1]), R(a[0]))
            return "(%s %s %s)" % ({'or2': 'my-or2', 'or2b': 'my-or2b', 'sc-or2': 'sc-or2', 'builtin-or': 'or'}[s], R(a[0]), R(a[1]))
        if s == 'builtin-and':
            return ("(if %s %s #f)" if ref else "(and %s %s)") % (R(a[0]), R(a[1]))
        if s == 'sum':
            return ("(+ %s %s)" if ref else "(my-sum %s %s)") % (R(a[0]), R(a[1]))
        if s == 'my-if':
            return ("(if %s %s %s)" if ref else "(my-if %s %s %s)") % (R(a[0]), R(a[1]), R(a[2]))
        if s == 'let1':
            if ref:
                return "((lambda (%s) %s) %s)" % (nm(a[0]), R(a[2]), R(a[1]))
            return "(my-let1 %s %s %s)" % (nm(a[0]), R(a[1]), R(a[2]))
        if s == 'lets':
            vs, inits, body = a
            if ref:
                return "((lambda (%s) %s) %s)" % (" ".join(nm(v) for v in vs), R(body), " ".join(R(x) for x in inits))
            return "(my-lets (%s) %s)" % (" ".join("(%s %s)" % (nm(v), R(x)) for v, x in zip(vs, inits)), R(body))
        if s in ('letstar', 'builtin-let*'):
            vs, inits, body = a
            if ref:
                out = R(body)
                for v, x in reversed(list(zip(vs, inits))):
                    out = "((lambda (%s) %s) %s)" % (nm(v), out, R(x))
                return out
            return "(%s (%s) %s)" % ("my-let*" if s == 'letstar' else "let*", " ".join("(%s %s)" % (nm(v), R(x)) for v, x in zip(vs, inits)), R(body))
        if s == 'swap':
            if ref:
                g = self.fresh()
                return "((lambda (%s) (set! %s %s) (set! %s %s)) %s)" % (g, nm(a[0]), nm(a[1]), nm(a[1]), g, nm(a[0]))
            return "(swap! %s %s)" % (nm(a[0]), nm(a[1]))
        if s == 'incby':
            if ref:
                return "(set! %s (+ %s %s))" % (nm(a[0]), nm(a[0]), R(a[1]))
            return "(inc-by %s %s)" % (nm(a[0]), R(a[1]))
        if s == 'repeat':
            if ref:
                l, i = self.fresh(), self.fresh()
                return "((lambda () (define (%s %s) (if (> %s 0) (begin %s (%s (- %s 1))) #f)) (%s %s)))" % (l, i, i, R(a[1]), l, i, l, R(a[0]))
            return "(repeat %s %s)" % (R(a[0]), R(a[1]))
        if s in ('cond', 'builtin-cond'):
            clauses, els = a
            if ref:
                out = R(els)
                for c, x in reversed(clauses):
                    out = "(if %s %s %s)" % (R(c), R(x), out)
                return out
            return "(%s %s (else %s))" % ("my-cond" if s == 'cond' else "cond", " ".join("(%s %s)" % (R(c), R(x)) for c, x in clauses), R(els))
        if s == 'builtin-case':
            k, data, x, els = a
            if ref:
                g = self.fresh()
                return "((lambda (%s) (if (if (eqv? %s %d) #t (eqv? %s %d)) %s %s)) %s)" % (g, g, data[0], g, data[1], R(x), R(els), R(k))
            return "(case %s ((%d %d) %s) (else %s))" % (R(k), data[0], data[1], R(x), R(els))
        if s == 'when':
            return ("(if %s (begin %s) #f)" if ref else "(when %s %s)") % (R(a[0]), R(a[1]))
        if s == 'builtin-do':
            i, acc, n, init, step = a
            if ref:
                l = self.fresh()
                return "((lambda () (define (%s %s %s) (if (>= %s %s) %s (%s (+ %s 1) %s))) (%s 0 %s)))" % (
                    l, nm(i), nm(acc), nm(i), R(n), nm(acc), l, nm(i), R(step), l, R(init))
            return "(do ((%s 0 (+ %s 1)) (%s %s %s)) ((>= %s %s) %s))" % (nm(i), nm(i), nm(acc), R(init), R(step), nm(i), R(n), nm(acc))
        if s == 'named-let':
            f, i, acc, n, init, step = a
            if ref:
                return "((lambda () (define (%s %s %s) (if (>= %s %s) %s (%s (+ %s 1) %s))) (%s 0 %s)))" % (
                    nm(f), nm(i), nm(acc), nm(i), R(n), nm(acc), nm(f), nm(i), R(step), nm(f), R(init))
            return "(let %s ((%s 0) (%s %s)) (if (>= %s %s) %s (%s (+ %s 1) %s)))" % (
                nm(f), nm(i), nm(acc), R(init), nm(i), R(n), nm(acc), nm(f), nm(i), R(step))
        if s in ('getter', 'let-syntax', 'local-define-syntax'):
            x, xe, y, ye, m, body = a
            # the macro m expands to a reference to x; y is bound between the definition and the use
            if ref:
                return "((lambda (%s) ((lambda (%s) (+ %s %s)) %s)) %s)" % (nm(x), nm(y), nm(x), R(body), R(ye), R(xe))
            if s == 'getter':
                return "((lambda (%s) (define-getter %s %s) ((lambda (%s) (+ (%s) %s)) %s)) %s)" % (nm(x), nm(m), nm(x), nm(y), nm(m), R(body), R(ye), R(xe))
            if s == 'let-syntax':
                return "((lambda (%s) (let-syntax ((%s (syntax-rules () ((_) %s)))) ((lambda (%s) (+ (%s) %s)) %s))) %s)" % (nm(x), nm(m), nm(x), nm(y), nm(m), R(body), R(ye), R(xe))
            return "((lambda (%s) (define-syntax %s (syntax-rules () ((_) %s))) ((lambda (%s) (+ (%s) %s)) %s)) %s)" % (nm(x), nm(m), nm(x), nm(y), nm(m), R(body), R(ye), R(xe))
        if s in ('else-var', 'else-var-builtin'):
            x, xv, f, e1, e2, arrow = a
            kw = "my-cond2" if s == 'else-var' else "cond"
            if ref:
                g = self.fresh()
                first = "((lambda (%s) (if %s (%s %s) %%s)) %s)" % (g, g, nm(f), g, nm(x)) if arrow else "(if %s %s %%s)" % (nm(x), R(e1))
                return "((lambda (%s %s) %s) %s (lambda (%s) (+ 1 (if %s %s 0))))" % (nm(x), nm(f), first % R(e2), R(xv), "q", "q", "q")
            clause = "(%s => %s)" % (nm(x), nm(f)) if arrow else "(%s %s)" % (nm(x), R(e1))
            return "((lambda (%s %s) (%s %s (#t %s))) %s (lambda (%s) (+ 1 (if %s %s 0))))" % (nm(x), nm(f), kw, clause, R(e2), R(xv), "q", "q", "q")
        if s == 'kwlist':
            lst = "(list 'if 'tmp 'else %s '(t . loop) '#(else t))" % R(a[0])
            return "(if (equal? %s %s) 1 0)" % (lst if ref else "(kw-list %s)" % R(a[0]), lst)
        if s == 'qdata':
            kind, dat, e = a
            txt = q_text(dat)
            if ref:
                return "(+ (if (equal? '%s '%s) 1 0) %s)" % (txt, txt, R(e))
            if kind == 'sr':
                spec = "(syntax-rules () ((_) '%s))" % txt
            else:
                spec = "(er-macro-transformer (lambda (e r c) (list (r 'quote) %s)))" % q_build(dat)
            return "(+ (let-syntax ((qd %s)) (if (equal? (qd) '%s) 1 0)) %s)" % (spec, txt, R(e))
        if s == 'aif':
            it, test, then, alt = a
            if ref:
                cond_it = self.it_stack[-1] if (self.defect and self.it_stack) else it
                rt = R(test)
                if self.defect and self.it_stack and then == ('var', it):
                    # the branch is the bare identifier `it`: an identifier closure is looked up by name through the
                    # recorded redirect as well, i.e. in the enclosing aif's environment
                    rthen = nm(self.it_stack[-1])
                else:
                    self.it_stack.append(it)
                    rthen = R(then)
                    self.it_stack.pop()
                return "((lambda (%s) (if %s %s %s)) %s)" % (nm(it), nm(cond_it), rthen, R(alt), rt)
            return "(aif %s %s %s)" % (R(test), R(then), R(alt))
        if s == 'syn-sibling':
            rec, V, ev, H, c1, G, F, e1, e2 = a
            hdef = "(lambda (x y) (+ x y %s))" % R(c1)
            if ref:
                g = "(%s (* %s 3) 0)" % (nm(H), R(e1)) if rec == 'rec' else "(%s (- %s 1) 0)" % (nm(H), R(e1))
                return "((lambda (%s %s) (+ %s (+ %s (* %s 2)))) %s %s)" % (nm(V), nm(H), nm(V), g, R(e2), R(ev), hdef)
            tg = "(%s (%s a 3) 0)" % (nm(H), nm(F)) if rec == 'rec' else "(%s (- a 1) 0)" % nm(H)
            return "((lambda (%s %s) (+ %s (%s ((%s (syntax-rules () ((_ a) %s))) (%s (syntax-rules () ((_ a b) (* a b))))) (+ (%s %s) (%s %s 2))))) %s %s)" % (
                nm(V), nm(H), nm(V), "letrec-syntax" if rec == 'rec' else "let-syntax", nm(G), tg, nm(F), nm(G), R(e1), nm(F), R(e2), R(ev), hdef)
        if s == 'encl-kw':
            F, e1, Y, e2, e3 = a
            if ref:
                return "(+ (* 2 %s) ((lambda (%s) %s) %s))" % (R(e1), nm(Y), R(e3), R(e2))
            return "(let-syntax ((%s (syntax-rules () ((_ a) (* 2 a))))) (+ (%s %s) ((lambda (%s) %s) %s)))" % (nm(F), nm(F), R(e1), nm(Y), R(e3), R(e2))
        if s == 'kw-after':
            V, ev, F, e1, internal = a
            if ref:
                return "((lambda (%s) (+ (* 2 %s) %s)) %s)" % (nm(V), R(e1), nm(V), R(ev))
            if internal:
                return "((lambda (%s) (+ ((lambda () (define-syntax %s (syntax-rules () ((_ a) (* 2 a)))) (%s %s))) %s)) %s)" % (nm(V), nm(F), nm(F), R(e1), nm(V), R(ev))
            return "((lambda (%s) (+ (let-syntax ((%s (syntax-rules () ((_ a) (* 2 a))))) (%s %s)) %s)) %s)" % (nm(V), nm(F), nm(F), R(e1), nm(V), R(ev))
        if s == 'gen-ordered':
            d, DEF, MK, NAME, T, es = a
            if ref:
                gs = [self.fresh() for _ in es]
                out = "(- %s)" % " ".join(reversed(gs))
                for g, x in reversed(list(zip(gs, es))):
                    out = "((lambda (%s) %s) %s)" % (g, out, R(x))
                return out
            rules = "((_ () temps) (- . temps)) ((_ (e1 . rest) temps) ((lambda (%s) (name rest (%s . temps))) e1))" % (nm(T), nm(T))
            inner = "(define-syntax name (syntax-rules () %s))" % rules
            if d == 'd1':
                defs = "(define-syntax %s (syntax-rules () ((_ name) %s))) (%s %s)" % (nm(DEF), inner, nm(DEF), nm(NAME))
            else:
                defs = "(define-syntax %s (syntax-rules () ((_ mk) (define-syntax mk (syntax-rules () ((_ name) %s)))))) (%s %s) (%s %s)" % (
                    nm(DEF), inner, nm(DEF), nm(MK), nm(MK), nm(NAME))
            return "((lambda () %s (%s (%s) ())))" % (defs, nm(NAME), " ".join(R(x) for x in es))
        if s == 'gen-or':
            d, WITH, WITH2, GOR, T, U, e = a
            if ref:
                gu, gt = self.fresh(), self.fresh()
                return "((lambda (%s) ((lambda (%s) (if %s %s %s)) #f)) %s)" % (gu, gt, gt, gt, gu, R(e))
            t1 = "(let-syntax ((%s (syntax-rules () ((_ a b) ((lambda (%s) (if %s %s b)) a))))) ((lambda (%s) (%s #f %s)) e1))" % (
                nm(GOR), nm(T), nm(T), nm(T), nm(U), nm(GOR), nm(U))
            if d == 'd1':
                return "((lambda () (define-syntax %s (syntax-rules () ((_ e1) %s))) (%s %s)))" % (nm(WITH), t1, nm(WITH), R(e))
            return "((lambda () (define-syntax %s (syntax-rules () ((_ e2) (let-syntax ((%s (syntax-rules () ((_ e1) %s)))) (%s e2))))) (%s %s)))" % (
                nm(WITH2), nm(WITH), t1, nm(WITH), nm(WITH2), R(e))
        if s == 'esc':
            kind, args = a
            if kind in ('nest', 'deep'):
                groups = [[R(x) for x in grp] for grp in args]
                if not ref:
                    return "(esc-%s %s)" % (kind, " ".join("(%s)" % " ".join(grp) for grp in groups))
                if kind == 'nest':
                    return "(+ %s)" % " ".join("(* %s (+ 0 %s))" % (grp[0], " ".join(grp[1:])) for grp in groups)
                return "(+ 0 (- 0 1) %s (* 1 1))" % " ".join("(car (list %s 0))" % " ".join(grp) for grp in groups)
            xs = [R(x) for x in args]
            if not ref:
                return "(esc-%s %s)" % ({'sum': 'sum', 'or': 'or2', 'dots': 'dots', 'custom': 'custom', 'dotted': 'dot', 'vec': 'vec'}[kind], " ".join(xs))
            if kind == 'sum':
                return "(+ %s (- %s 1))" % (xs[0], xs[1])
            if kind == 'or':
                g = self.fresh()
                return "((lambda (%s) (if %s %s %s)) %s)" % (g, g, g, xs[1], xs[0])
            if kind == 'dots':
                return "(+ %d %s)" % (len(xs) + 2, " ".join(xs))
            if kind == 'custom':
                g = self.fresh()
                return "(+ (- %s 1) ((lambda (%s) (* %s (+ %s 0))) 2))" % (xs[0], g, g, " ".join(xs[1:]))
            if kind == 'dotted':
                return "(+ %s)" % " ".join(xs)
            return "(+ %s %s 4)" % (xs[0], xs[1])
        if s == 'letrec-syntax':
            m1, m2, e1, e2 = a
            if ref:
                return "(+ %s (* 2 %s))" % (R(e1), R(e2))
            return "(letrec-syntax ((%s (syntax-rules () ((_ p q) (%s q p)))) (%s (syntax-rules () ((_ p q) (+ q (* 2 p)))))) (%s %s %s))" % (
                nm(m1), nm(m2), nm(m2), nm(m1), R(e1), R(e2))
        raise ValueError(s)


TOKEN_RE = re.compile(r"[^\s()']+")


def binders_with_scopes(e, out):
    """collect (var id, scope expression list) for every user binder: the renamed name must not occur as a
    token of the user text in that scope"""
    t = e[0]
    if t in ('num', 'bool', 'var'):
        return
    if t == 'call':
        for a in e[2]: binders_with_scopes(a, out)
    elif t == 'app':
        binders_with_scopes(e[1], out)
        for a in e[2]: binders_with_scopes(a, out)
    elif t == 'lam':
        for v in e[1]: out.append((v, [e]))
        binders_with_scopes(e[2], out)
    elif t == 'if':
        for a in e[1:]: binders_with_scopes(a, out)
    elif t == 'set':
        binders_with_scopes(e[2], out)
    elif t == 'seq':
        for a in e[1]: binders_with_scopes(a, out)
        binders_with_scopes(e[2], out)
    elif t == 'let':
        for v, x in e[1]:
            out.append((v, [e])); binders_with_scopes(x, out)
        binders_with_scopes(e[2], out)
    elif t == 'mac':
        s, a = e[1], e[2]
        # every variable id appearing directly in the argument structure is bound by this form
        def walk(x):
            if isinstance(x, int) and not isinstance(x, bool):
                out.append((x, [e]))
            elif isinstance(x, tuple) and x and isinstance(x[0], str):
                binders_with_scopes(x, out)
            elif isinstance(x, (list, tuple)):
                for y in x: walk(y)
        if s == 'builtin-case':
            binders_with_scopes(a[0], out); binders_with_scopes(a[2], out); binders_with_scopes(a[3], out)
        elif s == 'qdata':
            binders_with_scopes(a[2], out)
        elif s in ('swap', 'incby'):
            for x in a:
                if isinstance(x, tuple): binders_with_scopes(x, out)
        else:
            walk(a)


def run_outer(ctx, d, nprog):
    rng = ctx.rng
    probe = scm.run_cases(d, ["(let ((x 1)) (or #f (+ x 1)))"], prelude_extra=GLOBAL_MACROS, imports="(import (chibi))", timeout=120)
    if probe != ["f2"]:
        ctx.broken("outer:scheme-does-not-start", "the scratch chibi-scheme cannot load the standard environment / macro library: %s" % (probe[0] or "")[:600])
        return
    run_corpus(ctx, d)
    exprs, meta = [], []
    FOCUS = ['syn-sibling', 'syn-sibling', 'encl-kw', 'kw-after', 'gen-ordered', 'gen-or', 'letrec-syntax', 'let-syntax',
             'getter', 'local-define-syntax', 'qdata', 'qdata', 'qdata', 'esc', 'esc', 'esc', 'esc']
    nfocus = max(40, nprog // 5)
    for p in range(nprog + nfocus):
        g = Gen(rng)
        depth = rng.choice([1, 2, 2, 3])
        if p < nprog:
            body = g.expr([], depth)
        else:
            # focused stream: the scoping shapes of local macro binding forms / macro-generating macros on top
            body = g.expr([], rng.choice([1, 2]), force=rng.choice(FOCUS))
            if rng.random() < 0.5:
                v = g.newvar()
                body = ('let', [(v, g.const())], ('call', '+', [('var', v), body]))
        prog = ('call', 'list', [body, g.expr([], 1)])
        base_names = {v: "u%d" % v for v in range(1, g.nv + 1)}
        ref = Renderer(base_names, True).r(prog)
        refd = Renderer(base_names, True, defect=True).r(prog) if g.nested_aif else None
        base = None
        mac_names = dict(base_names)
        mac_names.update(g.fixed)
        bs = []
        binders_with_scopes(prog, bs)
        bs = [(v, sc) for (v, sc) in bs if v not in g.fixed]
        base = Renderer(mac_names, False).r(prog)
        variants = []
        for _ in range(3 if bs else 0):
            names = dict(mac_names)
            chosen = rng.sample(bs, min(len(bs), rng.choice([1, 1, 2, 3])))
            # binders with scoping-specific candidates come first half of the time
            if g.extra and rng.random() < 0.6:
                special = [b for b in bs if b[0] in g.extra]
                chosen = [rng.choice(special)] + [c for c in chosen if c[0] not in g.extra][:rng.choice([0, 0, 1])]
            used_new = set()
            what = []
            for (v, scope) in chosen:
                if names[v] != mac_names[v]:
                    continue
                n = None
                if v in g.extra and rng.random() < 0.75:
                    # a name the scoping rules of the binding form allow although it occurs in the scope text
                    cand, must_not_use = rng.choice(g.extra[v])
                    cn = names[cand] if isinstance(cand, int) else cand
                    txt = " ".join(Renderer(names, False).r(x) for x in must_not_use)
                    tk = set(TOKEN_RE.findall(txt))
                    if "'" in txt:
                        tk.add("quote")
                    if cn not in tk and cn not in used_new and cn != names[v] and not (isinstance(cand, int) and names[cand] != mac_names[cand]):
                        n = cn
                        used_new.add(cn)
                if n is None:
                    scope_text = " ".join(Renderer(names, False).r(x) for x in scope)
                    toks = set(TOKEN_RE.findall(scope_text))
                    if "'" in scope_text:
                        toks.add("quote")          # 'x reads as (quote x): the user text does use `quote`
                    # candidates: the adversarial list + every other name of the program (other binders, local keywords)
                    pool = ADVERSARIAL + sorted(set(names.values())) * 2
                    # `it` is the declared free name of aif: a user variable referenced inside an aif branch cannot be called `it`
                    cands = [n for n in pool if n not in toks and n not in used_new and not (v in g.in_template and n in ("...", "_"))
                             and not (n == "it" and "(aif " in scope_text)]
                    if not cands:
                        continue
                    n = rng.choice(cands)
                names[v] = n; used_new.add(n); what.append((base_names[v], n))
            if what:
                variants.append((Renderer(names, False).r(prog), what))
        exprs.append(ref); meta.append((p, 'ref', None, sorted(g.shapes), refd))
        exprs.append(base); meta.append((p, 'base', None, sorted(g.shapes), refd))
        for (txt, what) in variants:
            exprs.append(txt); meta.append((p, 'var', what, sorted(g.shapes), refd))
        if refd is not None:
            exprs.append(refd); meta.append((p, 'refd', None, sorted(g.shapes), refd))
    out = scm.run_cases(d, exprs, prelude_extra=GLOBAL_MACROS, imports="(import (chibi))", timeout=60, chunk=400)
    byp = {}
    for e, o, m in zip(exprs, out, meta):
        byp.setdefault(m[0], []).append((e, o, m))
    shown = 0
    for p, items in byp.items():
        refo = items[0][1]
        # F-C07-2: what the program evaluates to when (and only when) the `(if it ..)` inserted by an aif nested
        # in the free-name branch of another aif reads the enclosing aif's `it` (the recorded redirect) - computed
        # by a second hand expansion; any other deviation is a new violation
        defect_out = None
        if items[-1][2][1] == 'refd':
            defect_out = items[-1][1]
            items = items[:-1]
        for (e, o, m) in items[1:]:
            ctx.count(1, key=e, nontrivial=(m[1] == 'var'))
            if o == refo and not (o or "").startswith(("CRASH", "TIMEOUT")):
                if m[1] == 'var' and shown < 3:
                    ctx.sample(dict(kind="outer", reference=items[0][0], renamed=e, renaming=m[2], result=o)); shown += 1
                continue
            if defect_out is not None and o == defect_out and not (o or "").startswith(("ERR", "CRASH", "TIMEOUT")):
                sig = "outer:sc-free-name-redirect-overrides-inner-binding"
            elif m[1] == 'base':
                sig = "outer:macro-use-differs-from-hand-expansion"
            else:
                cls = sorted(set(name_class(n) for _, n in m[2]), key=["core-keyword", "derived-keyword", "standard-procedure", "template-temporary", "program-name"].index)
                sig = "outer:renaming-changes-result:" + cls[0]
            ctx.violation(sig, input=e, expected=refo, observed=o, renaming=m[2], reference_program=items[0][0], shapes=m[3],
                          replay="cat > /tmp/c07.scm <<'EOF'\n(import (scheme base) (scheme write) (chibi))\n%s\n(write %s)(newline)\n(write %s)(newline)\nEOF\nchibi-scheme /tmp/c07.scm   # both lines must be equal" % (GLOBAL_MACROS, items[0][0], e))
        if (refo or "").startswith(("ERR", "CRASH", "TIMEOUT")):
            ctx.broken("outer-generator:C07", "reference program does not evaluate: %s -> %s" % (items[0][0], refo))


# -----------------------------------------------------------------------------------------------------
# K-outer (imports): programs whose user identifiers are IMPORTED (only / rename / prefix; (srfi 1), (scheme cxr),
# (scheme char), a scratch library), used inside sc- / rsc- / er-macro-transformer and syntax-rules macros with and
# without free names, whose templates introduce locals named like those imports.  Every program is a library
# (c07 pN) in a scratch directory; imported bindings live in the RENAMES of the library's environment.
# -----------------------------------------------------------------------------------------------------
IMP_HELPERS = ["tmp", "first", "second", "last", "t", "loop", "k", "my-first", "my-pick1", "third", "caddr", "x", "digit-value", "helper"]
IMP_SOURCES = [("(srfi 1)", "first", 0), ("(srfi 1)", "second", 1), ("(srfi 1)", "third", 2), ("(srfi 1)", "last", -1),
               ("(scheme cxr)", "caddr", 2), ("(scheme cxr)", "cadddr", 3), ("(c07 util)", "pick1", 0), ("(c07 util)", "pick2", 1),
               ("(c07 util)", "third-of", 2)]
IMP_UTIL = """(define-library (c07 util) (export pick1 pick2 (rename pick3 third-of)) (import (scheme base))
  (begin (define (pick1 l) (car l)) (define (pick2 l) (cadr l)) (define (pick3 l) (car (cddr l)))))
"""


def imp_macros(private_helper):
    """the macro definitions; every template-introduced local is called like a name a user may import"""
    locs = " ".join("(%s (lambda (v) 'captured-%s))" % (n, n) for n in IMP_HELPERS if n != "helper")
    locs_er = " ".join("(,(rename '%s) (lambda (v) 'captured))" % n for n in IMP_HELPERS if n != "helper")
    return """
(define (%s x) (+ (* 2 x) 1))
(define-syntax with-escape
  (sc-macro-transformer
   (lambda (exp env)
     `(call-with-current-continuation
       (lambda (exit)
         (let (%s)
           ,(make-syntactic-closure env '(exit) (cadr exp))))))))
(define-syntax aif*
  (sc-macro-transformer
   (lambda (exp env)
     (let ((test (make-syntactic-closure env '() (cadr exp)))
           (then (make-syntactic-closure env '(it) (car (cddr exp))))
           (alt (make-syntactic-closure env '() (cadr (cddr exp)))))
       `(let ((it ,test) %s) (if it ,then ,alt))))))
(define-syntax sc-plain
  (sc-macro-transformer
   (lambda (exp env) `(let (%s) ,(make-syntactic-closure env '() (cadr exp))))))
(define-syntax er-wrap
  (er-macro-transformer
   (lambda (exp rename compare) `(,(rename 'let) (%s) ,(cadr exp)))))
(define-syntax sr-wrap
  (syntax-rules () ((_ body) (let (%s) body))))
(define-syntax call-helper
  (rsc-macro-transformer
   (lambda (exp env) (list (make-syntactic-closure env '() '%s) (cadr exp)))))
""" % (private_helper, locs, locs, locs, locs_er, locs, private_helper)


class ImpGen:
    def __init__(self, rng):
        self.rng = rng
        self.nimp = rng.choice([1, 2, 2, 3])
        self.srcs = rng.sample(IMP_SOURCES, self.nimp)
        self.nloc = 0
        self.kinds = set()

    def expr(self, depth, in_esc=False, in_aif=False, locs=()):
        rng = self.rng
        r = rng.random()
        if depth <= 0 or r < 0.25:
            q = rng.random()
            if q < 0.6:
                k = rng.randrange(self.nimp)
                n = max(4, self.srcs[k][2] + 1)
                return ('imp', k, [rng.randrange(0, 50) for _ in range(n)])
            if q < 0.7 and in_aif:
                return ('it',)
            if q < 0.8 and locs:
                return ('var', rng.choice(locs))
            return ('num', rng.randrange(0, 9))
        E = lambda d=depth - 1, esc=in_esc, aif=in_aif, l=locs: self.expr(d, esc, aif, l)
        if r < 0.4:
            return ('plus', E(), E())
        if r < 0.55 and not in_esc:        # (a with-escape inside the body of another one is the recorded F-C07-2)
            self.kinds.add('free-names')
            return ('esc', self.expr(depth - 1, True, in_aif, locs))
        if r < 0.62 and in_esc:
            return ('exit', E())
        if r < 0.72 and not in_aif:
            self.kinds.add('free-names')
            return ('aif', E(), self.expr(depth - 1, in_esc, True, locs), E())
        if r < 0.80:
            self.kinds.add('no-free-names')
            return (rng.choice(['scplain', 'er', 'sr']), E())
        if r < 0.86:
            return ('helper', E())
        if r < 0.94:
            self.nloc += 1
            v = self.nloc
            return ('let', v, E(), self.expr(depth - 1, in_esc, in_aif, tuple(locs) + (v,)))
        return ('plus', E(), E())


def imp_render(e, inames, lnames, ref, st):
    R = lambda x: imp_render(x, inames, lnames, ref, st)
    t = e[0]
    if t == 'num':
        return str(e[1])
    if t == 'imp':
        return "(%s '(%s))" % (inames[e[1]], " ".join(str(v) for v in e[2]))
    if t == 'it':
        return st['it'] if ref else "it"
    if t == 'var':
        return lnames[e[1]]
    if t == 'plus':
        return "(+ %s %s)" % (R(e[1]), R(e[2]))
    if t == 'let':
        return "((lambda (%s) %s) %s)" % (lnames[e[1]], R(e[3]), R(e[2])) if ref else "(let ((%s %s)) %s)" % (lnames[e[1]], R(e[2]), R(e[3]))
    if t == 'esc':
        if not ref:
            return "(with-escape %s)" % R(e[1])
        st['g'] += 1
        g = "g%d" % st['g']
        old = st.get('exit'); st['exit'] = g
        out = "(call-with-current-continuation (lambda (%s) %s))" % (g, R(e[1]))
        st['exit'] = old
        return out
    if t == 'exit':
        return "(%s %s)" % (st['exit'] if ref else "exit", R(e[1]))
    if t == 'aif':
        if not ref:
            return "(aif* %s %s %s)" % (R(e[1]), R(e[2]), R(e[3]))
        st['g'] += 1
        g = "g%d" % st['g']
        test = R(e[1])
        old = st.get('it'); st['it'] = g
        then = R(e[2])
        st['it'] = old
        return "((lambda (%s) (if %s %s %s)) %s)" % (g, g, then, R(e[3]), test)
    if t in ('scplain', 'er', 'sr'):
        return R(e[1]) if ref else "(%s %s)" % ({'scplain': 'sc-plain', 'er': 'er-wrap', 'sr': 'sr-wrap'}[t], R(e[1]))
    if t == 'helper':
        return "(+ (* 2 %s) 1)" % R(e[1]) if ref else "(call-helper %s)" % R(e[1])
    raise ValueError(t)


def imp_import_clause(src, name):
    lib, orig, _ = src
    if name == orig:
        return "(only %s %s)" % (lib, orig), "only"
    if name == "my-" + orig:
        return "(prefix (only %s %s) my-)" % (lib, orig), "prefix"
    if lib == "(c07 util)" and orig != "third-of":
        return "(rename %s (%s %s))" % (lib, orig, name), "rename"        # the whole library, one name renamed
    return "(rename (only %s %s) (%s %s))" % (lib, orig, orig, name), "rename"


def run_outer_imports(ctx, d, nprog):
    rng = ctx.rng
    top = os.path.join(B.SCRATCH, "c07_imp_%d" % os.getpid())
    libdir = os.path.join(top, "c07")
    os.makedirs(libdir, exist_ok=True)
    CHIBI = "(only (chibi) sc-macro-transformer rsc-macro-transformer er-macro-transformer make-syntactic-closure)"
    try:
        with open(os.path.join(libdir, "util.sld"), "w") as fh:
            fh.write(IMP_UTIL)
        with open(os.path.join(libdir, "macros.sld"), "w") as fh:
            fh.write("(define-library (c07 macros) (export with-escape aif* sc-plain er-wrap sr-wrap call-helper)\n (import (scheme base) %s)\n (begin %s))\n"
                     % (CHIBI, imp_macros("helper")))
        progs, libs = [], []
        def add(text):
            libs.append(text)
            return len(libs) - 1
        for pn in range(nprog):
            g = ImpGen(rng)
            body = g.expr(rng.choice([2, 3, 3, 4]))
            # make sure an imported procedure is used inside closed code with free names in most programs
            if rng.random() < 0.7:
                body = ('plus', ('esc', ('plus', ('imp', 0, [3, 1, 4, 1, 5]), ('exit', g.expr(1, True)))) if rng.random() < 0.5
                        else ('aif', g.expr(1), ('plus', ('it',), g.expr(1, False, True)), ('num', 0)), body)
                g.kinds.add('free-names')
            external = rng.random() < 0.5            # the macros come from a library / are defined in the program itself
            def program(inames, lnames, ref):
                clauses = ["(scheme base)"]
                styles = []
                for src, n in zip(g.srcs, inames):
                    c, st = imp_import_clause(src, n)
                    clauses.append(c); styles.append(st)
                if not ref:
                    clauses.append("(c07 macros)" if external else CHIBI)
                text = imp_render(body, inames, lnames, ref, {'g': 0})
                defs = "" if (ref or external) else imp_macros("helper-0")
                return "(export result)\n (import %s)\n (begin %s\n (define result %s))" % (" ".join(clauses), defs, text), styles
            base_i = ["u%d" % k for k in range(g.nimp)]
            base_l = {v: "w%d" % v for v in range(1, g.nloc + 1)}
            ref_txt, _ = program(base_i, base_l, True)
            base_txt, _ = program(base_i, base_l, False)
            entry = dict(ref=add(ref_txt), base=add(base_txt), variants=[], kinds=sorted(g.kinds), external=external)
            for _ in range(3):
                pool = [n for n in IMP_HELPERS if external or n != "helper"]
                inames, lnames, what = list(base_i), dict(base_l), []
                used = set()
                for k in rng.sample(range(g.nimp), rng.choice([1, 1, 2]) if g.nimp > 1 else 1):
                    orig = g.srcs[k][1]
                    cands = [n for n in pool if n not in used]
                    # prefer the styles only / prefix when they are possible for this import
                    pref = [n for n in cands if n == orig or n == "my-" + orig]
                    n = rng.choice(pref) if (pref and rng.random() < 0.5) else rng.choice(cands)
                    # an import spelled like ANOTHER import's original name would clash with nothing (only-imports)
                    inames[k] = n; used.add(n); what.append((base_i[k], n))
                for v in list(lnames):
                    if rng.random() < 0.3:
                        cands = [n for n in pool if n not in used]
                        n = rng.choice(cands); lnames[v] = n; used.add(n); what.append((base_l[v], n))
                txt, styles = program(inames, lnames, False)
                entry['variants'].append((add(txt), what, styles))
            progs.append(entry)
        for n, text in enumerate(libs):
            with open(os.path.join(libdir, "p%d.sld" % n), "w") as fh:
                fh.write("(define-library (c07 p%d)\n %s)\n" % (n, text))
        exprs = ["(eval 'result (environment '(c07 p%d)))" % n for n in range(len(libs))]
        out = scm.run_cases(d, exprs, timeout=120, chunk=200,
                            extra_env={"CHIBI_MODULE_PATH": os.path.join(d, "lib") + ":" + top})
    finally:
        import shutil
        shutil.rmtree(top, ignore_errors=True)
    shown = 0
    def replay(a, b):
        return ("mkdir -p /tmp/c07imp/c07 && cd /tmp/c07imp && cat > c07/util.sld <<'EOF'\n%sEOF\ncat > c07/macros.sld <<'EOF'\n(define-library (c07 macros) (export with-escape aif* sc-plain er-wrap sr-wrap call-helper)\n (import (scheme base) %s)\n (begin %s))\nEOF\n"
                "cat > c07/a.sld <<'EOF'\n(define-library (c07 a)\n %s)\nEOF\ncat > c07/b.sld <<'EOF'\n(define-library (c07 b)\n %s)\nEOF\n"
                "chibi-scheme -I /tmp/c07imp -e \"(import (scheme base) (scheme write) (prefix (c07 a) a-) (prefix (c07 b) b-))\" -e '(write (list a-result b-result))'   # both must be equal"
                % (IMP_UTIL, CHIBI, imp_macros("helper"), libs[a], libs[b]))
    for e in progs:
        refo = out[e['ref']]
        if (refo or "").startswith(("ERR", "CRASH", "TIMEOUT")):
            ctx.broken("outer-generator:C07:imports", "reference program does not evaluate: %s -> %s" % (libs[e['ref']], refo))
            continue
        items = [(e['base'], None, None)] + e['variants']
        for (n, what, styles) in items:
            ctx.count(1, key=("imports", libs[n]), nontrivial=(what is not None))
            if out[n] == refo:
                if what is not None and shown < 2 and 'free-names' in e['kinds']:
                    ctx.sample(dict(kind="outer-imports", program=libs[n], renaming=what, result=out[n])); shown += 1
                continue
            fn = "closed-with-free-names" if 'free-names' in e['kinds'] else "no-free-names"
            if what is None:
                sig = "outer:imports:macro-use-differs-from-hand-expansion:" + fn
            else:
                sig = "outer:imports:renaming-changes-result:%s:%s" % ("+".join(sorted(set(styles))), fn)
            ctx.violation(sig, input=libs[n], expected=refo, observed=out[n], renaming=what, reference_program=libs[e['ref']],
                          macros_from="(c07 macros)" if e['external'] else "the program itself", replay=replay(e['ref'], n),
                          why="the user's identifiers are imported bindings (rename entries of the library environment); used inside a macro whose template "
                              "binds locals of the same names they must still denote the imports")


def run_corpus(ctx, d):
    path = os.path.join(ROOT, "corpus", "C07", "outer.cases")
    cases = []
    for line in open(path):
        line = line.strip()
        if not line or line.startswith("#"):
            continue
        parts = [x.strip() for x in line.split("|||")]
        sig, ref, prog = parts[:3]
        cases.append((sig, ref, prog, parts[3] if len(parts) > 3 else None))
    exprs = []
    for (sig, ref, prog, known) in cases:
        exprs += [ref, prog, known or "0"]
    out = scm.run_cases(d, exprs, prelude_extra=GLOBAL_MACROS, imports="(import (chibi))", timeout=60, chunk=30)
    for k, (sig, ref, prog, known) in enumerate(cases):
        ro, po, ko = out[3 * k], out[3 * k + 1], out[3 * k + 2]
        ctx.count(1, key=("corpus", prog), nontrivial=True)
        if ro != po or (ro or "").startswith(("ERR", "CRASH", "TIMEOUT")):
            if known is not None and po != ko:
                # a recorded finding is only recognised by the exact value the recorded defect produces
                sig = "corpus:known-finding-case-has-another-result"
            ctx.violation(sig, input=prog, expected="%s => %s" % (ref, ro), observed=po,
                          replay="cat > /tmp/c07.scm <<'EOF'\n(import (scheme base) (scheme write) (chibi))\n%s\n(write %s)(newline)\n(write %s)(newline)\nEOF\nchibi-scheme /tmp/c07.scm   # both lines must be equal" % (GLOBAL_MACROS, ref, prog))


def name_class(n):
    if n in ("if", "lambda", "let", "set!", "quote", "begin", "define", "define-syntax", "let-syntax"):
        return "core-keyword"
    if n in ("else", "=>", "and", "or", "cond", "case", "do", "let*", "letrec", "when", "unless", "quasiquote", "unquote",
             "syntax-rules", "er-macro-transformer", "_", "..."):
        return "derived-keyword"
    if n in ("list", "cons", "car", "cdr", "+", "-", ">", "<", "=", "not", "eq?", "memv", "apply", "append", "map", "*", "length"):
        return "standard-procedure"
    if re.fullmatch(r"u[0-9]+", n):
        return "program-name"
    return "template-temporary"



# =====================================================================================================
# K-mid: the model expander + resolve vs (chibi ast) analyze
# =====================================================================================================
MID_SYMS = ["lambda", "if", "quote", "set!", "m0", "m1", "m2", "m3", "m4", "m5", "m6", "m7", "m8",
            "x", "y", "z", "t", "tmp", "f", "g", "h", "a", "b", "let-syntax", "letrec-syntax", "syntax-rules", "_", "p", "q", "w"]
MID_CORE = {"lambda": 3, "if": 4, "quote": 6, "set!": 2, "let-syntax": 10, "letrec-syntax": 11, "syntax-rules": 100}
MID_MACROS = [  # (arity, template as nested python lists; "vN" = pattern variable N)
    (2, [["lambda", ["t"], ["if", "t", "t", "v1"]], "v0"]),                       # m0: or2
    (3, [["lambda", ["v0"], "v2"], "v1"]),                                        # m1: let1 (user binder through the macro)
    (2, [["lambda", ["tmp"], ["f", ["set!", "v0", "v1"], ["set!", "v1", "tmp"]]], "v0"]),   # m2: swap!
    (3, ["if", "v0", "v1", "v2"]),                                                # m3: my-if
    (1, ["f", ["quote", "if"], ["quote", ["t", "tmp", 7]], "v0"]),                # m4: quoted template symbols
    (2, ["m1", "t", "v0", ["m0", "t", "v1"]]),                                    # m5: inserted t handed to other macros
    (2, ["lambda", ["v0", "t"], ["f", "v0", "t", "v1"]]),                         # m6: user and inserted binder side by side
]


def mid_tokens(x, sym):
    if isinstance(x, list):
        return "( " + " ".join(mid_tokens(y, sym) for y in x) + " )"
    if isinstance(x, int):
        return str(x)
    if x[0] == 'v' and x[1:].isdigit():
        return x
    return "s%d" % sym[x]


def mid_text(x):
    if isinstance(x, list):
        return "(" + " ".join(mid_text(y) for y in x) + ")"
    return str(x)


def mid_swap(x, a, b):
    if isinstance(x, list):
        return [mid_swap(y, a, b) for y in x]
    return b if x == a else a if x == b else x


def mid_random_template(rng, k, arity):
    ids = ["lambda", "if", "quote", "set!", "t", "tmp", "f", "x"] + ["m%d" % j for j in range(k)]
    def go(d):
        r = rng.random()
        if d <= 0 or r < 0.3:
            return rng.choice(["v%d" % rng.randrange(arity)] * 3 + ["t", "tmp", "f", "x", rng.randrange(0, 9)])
        if r < 0.5:
            return ["lambda", [rng.choice(["t", "tmp", "v%d" % rng.randrange(arity)])], go(d - 1)]
        if r < 0.65:
            return ["if", go(d - 1), go(d - 1), go(d - 1)]
        if r < 0.75:
            return ["quote", rng.choice(["t", ["if", "tmp"], 3])]
        if r < 0.85 and k > 0:
            j = rng.randrange(min(k, len(MID_MACROS)))
            return ["m%d" % j] + [go(d - 1) for _ in range(MID_MACROS[j][0])]
        return [rng.choice(["f", "t", go(d - 1)])] + [go(d - 1) for _ in range(rng.choice([1, 2]))]
    return go(3)


def mid_form(rng, scope, depth, macros, kws=None, local_ok=True, force_kw=None):
    # (macro keywords are not used as variables here: an unshadowed one reaches the transformer as an
    #  identifier macro, errors inside the expansion, and the pinned chibi crashes when that is caught)
    # kws: local keywords visible here (name -> arity); a lambda binding the name removes it
    kws = kws or {}
    names = ["x", "y", "z", "t", "tmp", "a", "b", "if", "lambda", "quote", "f", "set!"]
    def E(sc=scope, d=depth - 1, kw=kws):
        return mid_form(rng, sc, d, macros, kw, local_ok)
    def minus(ps):
        return {k: v for k, v in kws.items() if k not in ps}
    if force_kw is not None or (kws and rng.random() < 0.25):
        k = force_kw if force_kw is not None else rng.choice(sorted(kws))
        if k in kws:
            return [k] + [E() for _ in range(kws[k])]
    r = rng.random()
    if depth <= 0 or r < 0.18:
        if scope and rng.random() < 0.7:
            return rng.choice(scope)
        return rng.choice([a for a in ["f", "g", "x", "t", "tmp"] if a not in kws] + [rng.randrange(0, 9), rng.randrange(0, 9)])
    if r < 0.36:
        ps = rng.sample(names, rng.choice([1, 1, 2, 3]))
        if rng.random() < 0.03:
            ps = ps + [ps[0]]
        return ["lambda", ps, E(scope + ps, depth - 1, minus(ps))]
    if r < 0.44:
        return ["if", E(), E(), E()]
    if r < 0.50:
        return ["quote", rng.choice(["x", "t", ["if", "x", 3], [], 4, ["quote", "tmp"]] + scope[:2])]
    if r < 0.56:
        tg = [v for v in scope + ["g"] if v not in kws]
        return ["set!", rng.choice(tg) if tg else "w", E()]
    if r < 0.86:
        k = rng.randrange(len(macros))
        ar = macros[k][0]
        args = [E() for _ in range(ar)]
        if k in (1, 6) or rng.random() < 0.2:          # binder positions want identifiers
            args[0] = rng.choice([n for n in names if n not in kws] if k not in (1, 6) else names)
            if k == 1:
                args[2] = mid_form(rng, scope + [args[0]], depth - 1, macros, minus([args[0]]), local_ok)
            if k == 6:
                args[1] = mid_form(rng, scope + [args[0]], depth - 1, macros, minus([args[0], "t"]), local_ok)
        if k == 2:
            tg = [v for v in scope if v not in kws]
            args = [rng.choice(tg + ["g"]), rng.choice(tg + ["h"])] if tg else ["g", "h"]
            args = [("w" if a in kws else a) for a in args]
        return ["m%d" % k] + args
    if r < 0.9 and scope:
        return [rng.choice(scope)] + [E() for _ in range(rng.choice([0, 1, 2]))]
    if r < 0.97 and local_ok:
        return mid_let_syntax(rng, scope, depth, macros, kws)
    return [rng.choice([a for a in ["f", "g"] if a not in kws] + [E()])] + [E() for _ in range(rng.choice([0, 1, 2]))]


def mid_let_syntax(rng, scope, depth, macros, kws):
    """(let-syntax | letrec-syntax ((k (syntax-rules () ((_ p ..) template))) ..) body): keyword names collide with
    user variables, with each other's template identifiers and with the global macros; templates mention
    siblings, enclosing local keywords, outer variables, the macro's own name.
    let-syntax: a sibling's / the macro's own name in a template denotes the OUTER binding (a variable);
    letrec-syntax: it denotes the sibling keyword (only later siblings are used, so expansion terminates)."""
    rec = rng.random() < 0.5
    n = rng.choice([1, 2, 2, 3])
    pool = ["x", "y", "z", "t", "tmp", "f", "g", "h", "a", "b"]
    names = rng.sample(pool, n)
    if not rec and rng.random() < 0.1 and n > 1:
        names[1] = names[0]                       # let-syntax may bind a keyword twice: the later spec wins
    arities = [rng.choice([1, 1, 2]) for _ in names]
    specs = []
    for idx, (k, ar) in enumerate(zip(names, arities)):
        pvs = rng.sample(["p", "q", "x", "t"], ar)
        visible = dict(kws)                       # keywords a template head may properly use
        if rec:
            for k2, ar2 in list(zip(names, arities))[idx + 1:]:
                visible[k2] = ar2
            hidden = set(names[:idx + 1])         # earlier siblings / itself: never mentioned (would recurse)
        else:
            hidden = set()
        outer_named = {} if rec else dict(zip(names, arities))   # names that denote the outer variable here
        heads = [h for h in list(names) + scope[:3] + ["f", "g", "x", "t"] + sorted(kws) if h not in hidden]
        atoms = [h for h in heads if h not in visible or h in pvs]
        def tm(d, bound=()):
            r = rng.random()
            if d <= 0 or r < 0.35:
                return rng.choice(pvs * 3 + atoms + list(bound) + [rng.randrange(0, 9)])
            if r < 0.5:
                b = rng.choice(["t", "tmp", pvs[0]])
                return ["lambda", [b], tm(d - 1, tuple(bound) + (b,))]
            if r < 0.6:
                return ["if", tm(d - 1, bound), tm(d - 1, bound), tm(d - 1, bound)]
            h = rng.choice(heads)
            if h in pvs or h in bound:
                return [h] + [tm(d - 1, bound) for _ in range(rng.choice([1, 2]))]
            if h in visible:
                return [h] + [tm(d - 1, bound) for _ in range(visible[h])]
            if h in outer_named:
                # must be an application of the outer variable; were it (wrongly) taken for the sibling keyword the
                # argument count does not fit, so the expansion fails instead of looping
                return [h] + [tm(d - 1, bound) for _ in range(outer_named[h] + 1)]
            return [h] + [tm(d - 1, bound) for _ in range(rng.choice([1, 2]))]
        specs.append([k, ["syntax-rules", [], [["_"] + pvs, tm(2)]]])
    inner_kws = dict(kws)
    for k, ar in zip(names, arities):
        inner_kws[k] = ar
    body = mid_form(rng, [v for v in scope if v not in names], depth - 1, macros, inner_kws, force_kw=rng.choice(names))
    return ["letrec-syntax" if rec else "let-syntax", specs, body]


def sx_parse(s):
    toks = s.replace("(", " ( ").replace(")", " ) ").split()
    def p(i):
        if toks[i] == "(":
            l = []; i += 1
            while toks[i] != ")":
                x, i = p(i); l.append(x)
            return l, i + 1
        return toks[i], i + 1
    return p(0)[0]


def mid_canon_model(out, sym_names):
    """model output -> the canonical notation of harness/c07_analyze.scm"""
    if out.startswith("ERR"):
        return "ERR"
    t = sx_parse(out)
    num = {}
    def datum(x):
        if isinstance(x, list):
            return [datum(y) for y in x]
        if x.startswith("s"):
            return sym_names[int(x[1:])]
        return x
    def go(x):
        h = x[0]
        if h == "lam":
            ks = []
            for c in x[1]:
                num[c] = len(num) + 1; ks.append(str(num[c]))
            return ["lam", ks, go(x[2])]
        if h == "ref":
            return ["l", str(num[x[1]])] if x[1] in num else ["cell", x[1]]
        if h == "unb":
            return ["g", datum(x[1])]
        if h == "lit":
            return ["lit", x[1]]
        if h == "void":
            return ["void"]
        if h == "quote":
            return ["quote", datum(x[1])]
        return [h] + [go(y) for y in x[1:]]
    return mid_text(go(t))


def run_mid(ctx, d, exe, ncases):
    rng = ctx.rng
    sym = {n: i for i, n in enumerate(MID_SYMS)}
    macros = list(MID_MACROS)
    for k in (7, 8):
        ar = rng.choice([1, 2])
        macros.append((ar, mid_random_template(rng, k, ar)))
    setup = ["reset"]
    for n, c in MID_CORE.items():
        setup.append("global %d core %d" % (sym[n], c))
    deflines = []
    for k, (ar, t) in enumerate(macros):
        setup.append("global %d macro %d" % (sym["m%d" % k], k))
        setup.append("macro %d %d %s" % (k, ar, mid_tokens(t, sym)))
        pvs = ["pv%d" % i for i in range(ar)]
        def pv(x):
            if isinstance(x, list):
                return [pv(y) for y in x]
            return "pv" + x[1:] if isinstance(x, str) and x[0] == 'v' and x[1:].isdigit() else x
        deflines.append("(defmac m%d (%s) %s)" % (k, " ".join(pvs), mid_text(pv(t))))
    forms = []
    for _ in range(ncases):
        f = mid_form(rng, [], rng.choice([2, 3, 3, 4]), macros)
        forms.append((f, None))
        if rng.random() < 0.6:
            a, b = rng.sample(["x", "y", "z", "t", "tmp", "a", "b", "if", "lambda", "f", "quote"], 2)
            forms.append((mid_swap(f, a, b), (f, a, b)))
    reqs, cases = list(setup), list(deflines)
    for n, (f, sw) in enumerate(forms):
        if sw is None:
            reqs.append("analyze 400 " + mid_tokens(f, sym))
        else:
            reqs.append("analyze_swap 400 %d %d %s" % (sym[sw[1]], sym[sw[2]], mid_tokens(sw[0], sym)))
        cases.append("(case %d %s)" % (n, mid_text(f)))
    mo = ctx.run_model(exe, reqs)[len(setup):]
    # the pinned chibi can die (SIGSEGV) some cases after an error was raised and caught during analyze (reported to
    # C01 in round 1): restart the driver behind the last complete answer; a case that kills a fresh process is skipped
    impl = {}
    ncase = len(cases) - len(deflines)
    start, restarts, skipped = 0, 0, []
    path = os.path.join(B.SCRATCH, "c07_mid_%d.cases" % os.getpid())
    while start < ncase and restarts < 25:
        with open(path, "w") as fh:
            fh.write("\n".join(deflines + cases[len(deflines) + start:]) + "\n")
        try:
            r = B.run_chibi(d, [os.path.join(ROOT, "harness", "c07_analyze.scm"), path], timeout=120 if not ctx.thorough else 900)
        finally:
            os.unlink(path)
        lines = r.stdout.split("\n")
        got = 0
        for line in lines[:-1]:                     # the last element is an unterminated (partial) line or ""
            sp = line.find(" ")
            if sp > 0 and line[:sp].isdigit():
                impl[int(line[:sp])] = " ".join(line[sp + 1:].split()); got += 1
        if "DONE" in lines:
            break
        restarts += 1
        nxt = min([n for n in range(start, ncase) if n not in impl] or [ncase])
        if got == 0:
            skipped.append(nxt); nxt += 1           # died on the first case of a fresh process
        start = nxt
    if restarts:
        ctx.note("K-mid: the analyze driver died %d time(s) (rc=%s) and was restarted; cases skipped: %s" % (restarts, r.returncode, [mid_text(forms[k][0]) for k in skipped]))
    if restarts >= 25 or len(skipped) > 3:
        ctx.broken("mid-correspondence:C07", "analyze driver keeps dying (rc=%s), %d/%d cases answered: %s" % (r.returncode, len(impl), len(forms), r.stderr[-300:]))
    shown = 0
    for n, (f, sw) in enumerate(forms):
        if n not in impl:
            continue
        m = mid_canon_model(mo[n], MID_SYMS)
        i = impl[n]
        txt = mid_text(f)
        if mo[n] == "ERR syntax 3" and i != "ERR":
            continue          # a lambda with several body forms (made by swapping `lambda` in): outside the model
        ctx.count(1, key=("mid", txt), nontrivial=("(m" in txt))
        ctx.cov["traces_validated_against_impl"] += 1
        if m == i:
            if shown < 2 and "(m" in txt and i != "ERR" and len(txt) < 120:
                ctx.sample(dict(kind="mid", form=txt, binding_structure=i)); shown += 1
            continue
        ctx.broken("correspondence:analyze", "model and (chibi ast) analyze disagree on %s : model=%s impl=%s macros=%s" % (txt, m, i, deflines))


# =====================================================================================================
# K-inner (renamer): the real make-renamer vs the extracted `rename`
# =====================================================================================================
RN_NAMES = ["t", "tmp", "if", "x"]


def gen_renamer_script(rng):
    """identifiers: symbols, raw closures, results of renamers applied to symbols AND to closures (the template
    identifiers of macro-generated macros), several applications per renamer (= one expansion) and several
    renamers (= several expansions, also of the same macro environment)"""
    ops = []
    nid = 0
    for s in range(rng.choice([1, 2, 3])):
        ops.append(("sym", nid, s)); nid += 1
    nren = rng.choice([2, 3, 4])
    for r in range(nren):
        ops.append(("new", r, rng.choice([0, 0, 1, 2])))
    for _ in range(rng.choice([4, 8, 12, 16])):
        q = rng.random()
        if q < 0.12:
            ops.append(("clo", nid, rng.randrange(3), rng.randrange(nid)))
        else:
            # prefer closure arguments and repeated (renamer, argument) pairs
            clos = [o[1] for o in ops if o[0] in ("app", "clo")]
            x = rng.choice(clos) if (clos and rng.random() < 0.6) else rng.randrange(nid)
            ops.append(("app", nid, rng.randrange(nren), x))
        nid += 1
    return ops


def renamer_judge(ops):
    """the specification: (R x) is a NEW object unless R was asked for the very object x before; it is a closure
    over R's environment whose expression is x itself"""
    cls, shape, memo, renv = {}, {}, {}, {}
    for o in ops:
        if o[0] == "sym":
            cls[o[1]] = o[1]; shape[o[1]] = "s"
        elif o[0] == "new":
            renv[o[1]] = o[2]
        elif o[0] == "clo":
            cls[o[1]] = o[1]; shape[o[1]] = "(c %d %d)" % (o[2], cls[o[3]])
        else:
            _, j, r, x = o
            key = (r, cls[x])
            if key in memo:
                cls[j] = memo[key]; shape[j] = shape[memo[key]]
            else:
                memo[key] = j; cls[j] = j; shape[j] = "(c %d %d)" % (renv[r], cls[x])
    n = len(cls)
    return "(%s) (%s)" % (" ".join(str(cls[j]) for j in range(n)), " ".join(shape[j] for j in range(n)))


def renamer_replay(ops):
    lines = ["(import (scheme base) (scheme write) (scheme eval) (chibi) (chibi ast))",
             "(define envs (vector (interaction-environment) (environment '(scheme base)) (environment '(scheme write))))"]
    for o in ops:
        if o[0] == "sym":
            lines.append("(define i%d '%s)" % (o[1], RN_NAMES[o[2]]))
        elif o[0] == "new":
            lines.append("(define r%d (make-renamer (vector-ref envs %d)))" % (o[1], o[2]))
        elif o[0] == "clo":
            lines.append("(define i%d (make-syntactic-closure (vector-ref envs %d) '() i%d))" % (o[1], o[2], o[3]))
        else:
            lines.append("(define i%d (r%d i%d))" % (o[1], o[2], o[3]))
    n = max(o[1] for o in ops if o[0] != "new") + 1
    lines.append("(write (list %s))   ; for each identifier: is it eq? to an earlier one" % " ".join(
        "(list %s)" % " ".join("(eq? i%d i%d)" % (a, b) for a in range(b)) for b in range(n)))
    return "\n".join(lines)


def run_renamer(ctx, d, exe, nscripts):
    rng = ctx.rng
    scripts = [gen_renamer_script(rng) for _ in range(nscripts)]
    reqs, where = [], []
    for n, ops in enumerate(scripts):
        reqs.append("rn_reset")
        for o in ops:
            reqs.append("rn_%s %s" % (o[0], " ".join(str(v) for v in o[1:])))
        reqs.append("rn_dump"); where.append(len(reqs) - 1)
    mo = ctx.run_model(exe, reqs)
    path = os.path.join(B.SCRATCH, "c07_rn_%d.cases" % os.getpid())
    with open(path, "w") as fh:
        for n, ops in enumerate(scripts):
            fh.write("(%d %s)\n" % (n, " ".join("(%s %s)" % (o[0], " ".join((RN_NAMES[v] if (o[0] == "sym" and k == 1) else str(v)) for k, v in enumerate(o[1:]))) for o in ops)))
    try:
        r = B.run_chibi(d, [os.path.join(ROOT, "harness", "c07_renamer.scm"), path], timeout=120)
    finally:
        os.unlink(path)
    impl = {}
    for line in r.stdout.split("\n"):
        sp = line.find(" ")
        if sp > 0 and line[:sp].isdigit():
            impl[int(line[:sp])] = line[sp + 1:].strip()
    if "DONE" not in r.stdout:
        ctx.broken("renamer-correspondence:C07", "renamer driver died rc=%s after %d/%d scripts: %s" % (r.returncode, len(impl), len(scripts), r.stderr[-600:]))
    shown = 0
    for n, ops in enumerate(scripts):
        if n not in impl:
            continue
        exp = renamer_judge(ops)
        m, i = mo[where[n]], impl[n]
        closure_arg = any(o[0] == "app" and any(p[1] == o[3] and p[0] in ("app", "clo") for p in ops) for o in ops)
        ctx.count(1, key=("renamer", tuple(ops)), nontrivial=closure_arg)
        ctx.cov["traces_validated_against_impl"] += 1
        if m == i == exp:
            if shown < 1 and closure_arg:
                ctx.sample(dict(kind="renamer", script=[list(o) for o in ops], identity_pattern=i)); shown += 1
            continue
        if i != exp:
            ctx.violation("renamer:identity-pattern" + (":closure-argument" if closure_arg else ""), input=[list(o) for o in ops], expected=exp, observed=i, model=m,
                          replay=renamer_replay(ops),
                          why="make-renamer must return a NEW syntactic closure over its macro environment for every identifier (symbol or closure) "
                              "it has not been asked for before, and the remembered one otherwise; classes = smallest eq? identifier, shapes = (c env expr)")
        else:
            ctx.broken("correspondence:renamer", "model differs from make-renamer and from the judge: model=%s impl=%s script=%s" % (m, i, ops))



# =====================================================================================================
# K-inner (templates, round 4): the real syntax-rules compiler (syntax-rules-transformer: expand-pattern + expand-template,
# lib/init-7.scm:849-1100) vs the extracted expand-template model (coq/C07/Template.v: compile + eval) and an
# independent Python judge (R7RS instantiation where chibi agrees with it).  Terms: ('S', n) identifier, ('R', n) renamed
# identifier (syntactic closure), ('U', k) user atom, ('L', n) number, ('N',) (), ('P', a, d), ('V', list-term).
# =====================================================================================================
T_DOTS = 900        # the symbol `...`
T_CUSTOM = 901      # a custom ellipsis identifier (s901)
T_NIL = ('N',)


def t_list(items, tail=T_NIL):
    out = tail
    for x in reversed(items):
        out = ('P', x, out)
    return out


def t_text(t):
    k = t[0]
    if k == 'S':
        return "..." if t[1] == T_DOTS else "s%d" % t[1]
    if k == 'U':
        return "u%d" % t[1]
    if k == 'L':
        return str(t[1])
    if k == 'N':
        return "()"
    if k == 'V':
        return "#" + t_text(t[1])
    items = []
    while t[0] == 'P':
        items.append(t_text(t[1])); t = t[2]
    return "(%s%s)" % (" ".join(items), "" if t == T_NIL else " . " + t_text(t))


def t_prefix(t):
    k = t[0]
    if k == 'N':
        return "N"
    if k == 'P':
        return "P %s %s" % (t_prefix(t[1]), t_prefix(t[2]))
    if k == 'V':
        return "V " + t_prefix(t[1])
    return "%s%d" % (k, t[1])


def t_of_value(v):
    """a binding value: a term, or a python list of values (one per repetition)"""
    return t_list([t_of_value(x) for x in v]) if isinstance(v, list) else v


def t_syms(t, out):
    if t[0] == 'S':
        out.append(t[1])
    elif t[0] == 'P':
        t_syms(t[1], out); t_syms(t[2], out)
    elif t[0] == 'V':
        t_syms(t[1], out)
    return out


class TmplGen:
    def __init__(self, rng):
        self.rng = rng
        self.nvar = 0
        self.nuser = 0
        r = rng.random()
        self.ell, self.off = (T_DOTS, False) if r < 0.7 else ((T_CUSTOM, False) if r < 0.93 else (T_DOTS, True))
        self.vars = []          # (symbol number, dim) in pattern order
        self.features = set()
        self.error_planted = False

    # ---- pattern + matching input -------------------------------------------------------------------
    def user(self):
        rng = self.rng
        def atom():
            if rng.random() < 0.8:
                self.nuser += 1
                return ('U', self.nuser)
            return ('L', rng.randrange(0, 50))
        r = rng.random()
        if r < 0.65:
            return atom()
        if r < 0.9:
            return t_list([atom() for _ in range(rng.choice([0, 1, 2]))])
        return ('V', t_list([atom()]))

    def pattern(self, dim, depth):
        """returns (pattern term, matcher); matcher() -> (input term, {var: value})"""
        rng = self.rng
        if depth <= 0 or rng.random() < 0.45:
            self.nvar += 1
            v = self.nvar
            self.vars.append((v, dim))
            def m():
                x = self.user()
                return x, {v: x}
            return ('S', v), m
        n = rng.choice([0, 1, 1, 2])
        subs = [self.pattern(dim, depth - 1) for _ in range(n)]
        esub = self.pattern(dim + 1, depth - 1) if (dim < 2 and not self.off and rng.random() < 0.75) else None
        vec = rng.random() < 0.12
        evars = []
        if esub is not None:
            evars = [v for (v, d) in self.vars if v in t_syms(esub[0], [])]
        def m():
            items, b = [], {}
            for (_, mm) in subs:
                x, bb = mm(); items.append(x); b.update(bb)
            if esub is not None:
                reps = [esub[1]() for _ in range(rng.choice([0, 1, 2, 2, 3]))]
                items.extend(x for x, _ in reps)
                for v in evars:
                    b[v] = [bb[v] for _, bb in reps]
            x = t_list(items)
            return (('V', x) if vec else x), b
        pitems = [pt for (pt, _) in subs] + ([esub[0], ('S', self.ell)] if esub is not None else [])
        pt = t_list(pitems)
        return (('V', pt) if vec else pt), m

    # ---- template ------------------------------------------------------------------------------------
    def atom(self, ctx, esc):
        rng = self.rng
        r = rng.random()
        ok = [v for (v, d) in self.vars if d <= ctx]
        if r < 0.38 or not self.vars:
            if (esc or self.ell != T_DOTS or self.off) and rng.random() < 0.3:
                return ('S', T_DOTS)          # `...` as an ordinary identifier
            return ('S', rng.choice([10, 11, 12, 13, 14, 15]))
        if r < 0.8 and ok:
            return ('S', rng.choice(ok))
        if r < 0.83 and not self.error_planted:
            bad = [v for (v, d) in self.vars if d > ctx]
            if bad:
                self.error_planted = True
                self.features.add('too-few')
                return ('S', rng.choice(bad))
        if r < 0.93:
            return ('L', rng.randrange(0, 50))
        return T_NIL

    def tmpl(self, ctx, esc, depth):
        rng = self.rng
        if depth <= 0:
            return self.atom(ctx, esc)
        r = rng.random()
        mark = ('S', self.ell)
        if r < 0.25:
            return self.atom(ctx, esc)
        if r < 0.37 and not self.off:
            # the ellipsis escape: (... tmpl) or (... t1 t2 ..) (then the cdr is the template)
            self.features.add('escape' if not esc else 'escape-in-escape')
            if rng.random() < 0.7:
                inner = mark if rng.random() < 0.2 else self.tmpl(ctx, True, depth - 1)
                if inner == mark:
                    self.features.add('literal-ellipsis')
                return t_list([mark, inner])
            self.features.add('escape-multi')
            return ('P', mark, t_list([self.tmpl(ctx, True, depth - 1) for _ in range(rng.choice([0, 2, 3]))],
                                      self.atom(ctx, True) if rng.random() < 0.2 else T_NIL))
        if r < 0.47:
            self.features.add('vector')
            return ('V', self.seq(ctx, esc, depth, False))
        return self.seq(ctx, esc, depth, True)

    def seq(self, ctx, esc, depth, dotted_ok):
        rng = self.rng
        items = []
        for _ in range(rng.choice([1, 2, 2, 3, 4])):
            k = rng.choice([1, 1, 1, 2])
            deep = [v for (v, d) in self.vars if d >= ctx + k]
            if not esc and not self.off and deep and rng.random() < 0.45:
                v = rng.choice(deep)
                self.features.add('ellipsis-%d' % k)
                if rng.random() < 0.3:
                    sub = ('S', v)
                else:
                    inner = [self.tmpl(ctx + k, esc, depth - 1) for _ in range(rng.choice([0, 1, 2]))]
                    inner.insert(rng.randrange(len(inner) + 1), ('S', v) if rng.random() < 0.7 else t_list([('S', 13), ('S', v)]))
                    sub = t_list(inner)
                    if k > 1:
                        self.features.add('ellipsis-%d-compound' % k)
                items.append(sub)
                items.extend([('S', self.ell)] * k)
            elif not esc and not self.off and not self.error_planted and rng.random() < 0.02:
                self.error_planted = True
                self.features.add('too-many')
                items.append(self.atom(ctx, esc) if rng.random() < 0.5 else t_list([('S', 12), ('L', 1)]))
                items.append(('S', self.ell))
            else:
                x = self.tmpl(ctx, esc, depth - 1)
                items.append(x)
        tail = T_NIL
        if dotted_ok and rng.random() < 0.18:
            tail = self.atom(ctx, esc)
            if tail[0] == 'S':
                self.features.add('dotted')
        # a generated element must not be read as a mark by accident
        if not esc and not self.off:
            if items and items[0] == ('S', self.ell):
                items.insert(0, ('S', 10))
        return t_list(items, tail)


class TJudgeErr(Exception):
    pass


class TNoJudge(Exception):
    pass


def t_judge(g, t, binds):
    """R7RS instantiation; ('ERR', kind) | term; raises TNoJudge where chibi's ellipsis handling is its own"""
    dims = dict(g.vars)
    is_mark = (lambda x: False) if g.off else (lambda x: x == ('S', g.ell))

    def static(t, ctx, esc, errs):
        k = t[0]
        if k == 'S':
            if t[1] in dims and dims[t[1]] > ctx:
                errs.add('few')
        elif k == 'V':
            static(t[1], ctx, esc, errs)
        elif k == 'P':
            a, d = t[1], t[2]
            if not esc and is_mark(a):
                static(d[1] if (d[0] == 'P' and d[2] == T_NIL) else d, ctx, True, errs)
            elif not esc and d[0] == 'P' and is_mark(d[1]):
                depth, tail = 0, d
                while tail[0] == 'P' and is_mark(tail[1]):
                    depth += 1; tail = tail[2]
                if not [v for v in t_syms(a, []) if v in dims and dims[v] >= ctx + depth]:
                    errs.add('many')
                    return
                static(a, ctx + depth, esc, errs)
                static(tail, ctx, esc, errs)
            else:
                static(a, ctx, esc, errs); static(d, ctx, esc, errs)

    errs = set()
    static(t, 0, False, errs)
    if errs:
        return ('ERR', sorted(errs))

    def J(t, env, esc):
        k = t[0]
        if k == 'S':
            if t[1] in env:
                rem, val = env[t[1]]
                if rem > 0:
                    raise TNoJudge()
                return val
            return ('R', t[1])
        if k == 'V':
            return ('V', J(t[1], env, esc))
        if k != 'P':
            return t
        a, d = t[1], t[2]
        if not esc and is_mark(a):
            return J(d[1] if (d[0] == 'P' and d[2] == T_NIL) else d, env, True)
        if not esc and d[0] == 'P' and is_mark(d[1]):
            depth, tail = 0, d
            while tail[0] == 'P' and is_mark(tail[1]):
                depth += 1; tail = tail[2]
            evs = [v for v in dict.fromkeys(t_syms(a, [])) if v in env and env[v][0] >= depth]
            if depth >= 2:
                if not (a[0] == 'S' and a[1] in env):
                    raise TNoJudge()
                val = env[a[1]][1]
                for _ in range(depth - 1):
                    val = [x for sub in val for x in sub]
                if env[a[1]][0] != depth:
                    raise TNoJudge()
                outs = list(val)
            else:
                lens = set(len(env[v][1]) for v in evs)
                if len(lens) != 1:
                    raise TNoJudge()
                outs = []
                for i in range(lens.pop()):
                    e2 = dict(env)
                    for v in evs:
                        e2[v] = (env[v][0] - 1, env[v][1][i])
                    outs.append(J(a, e2, esc))
            rest = J(tail, env, esc)
            return t_list(outs, rest)
        return ('P', J(a, env, esc), J(d, env, esc))

    env = {v: (dims[v], binds[v]) for v in dims}
    return J(t, env, False)


def run_template(ctx, d, exe, ncases):
    rng = ctx.rng
    cases, reqs = [], []
    for n in range(ncases):
        g = TmplGen(rng)
        pats = [g.pattern(0, rng.choice([1, 2, 3])) for _ in range(rng.choice([1, 2, 3]))]
        tm = g.tmpl(0, False, rng.choice([1, 2, 3, 3, 4]))
        ins, binds = [], {}
        for (_, m) in pats:
            x, b = m(); ins.append(x); binds.update(b)
        pattern = t_list([('S', 20)] + [pt for (pt, _) in pats])
        head = "syntax-rules" + (" s%d" % T_CUSTOM if g.ell == T_CUSTOM else "") + (" (...)" if g.off else " ()")
        spec = "(%s (%s %s))" % (head, "(_%s)" % t_text(pattern)[4:-1] if len(pats) else "(_)", t_text(tm))
        form = t_text(t_list([('S', 21)] + ins))
        req = "tmpl %d %d %d %s %s %d %s" % (g.ell, 1 if g.off else 0, len(g.vars), " ".join("%d %d" % vd for vd in g.vars), t_prefix(tm),
                                             len(g.vars), " ".join("%d %s" % (v, t_prefix(t_of_value(binds[v]))) for v, _ in g.vars))
        try:
            exp = t_judge(g, tm, binds)
        except TNoJudge:
            exp = None
        cases.append((n, g, spec, form, tm, exp)); reqs.append(req)
    mo = ctx.run_model(exe, reqs)
    path = os.path.join(B.SCRATCH, "c07_tmpl_%d.cases" % os.getpid())
    with open(path, "w") as fh:
        for (n, g, spec, form, tm, exp) in cases:
            fh.write("(%d %s %s)\n" % (n, spec, form))
    try:
        r = B.run_chibi(d, [os.path.join(ROOT, "harness", "c07_template.scm"), path], timeout=180 if not ctx.thorough else 900)
    finally:
        os.unlink(path)
    impl = {}
    for line in r.stdout.split("\n"):
        sp = line.find(" ")
        if sp > 0 and line[:sp].isdigit():
            impl[int(line[:sp])] = line[sp + 1:].strip()
    if "DONE" not in r.stdout:
        ctx.broken("template-correspondence:C07", "template driver died rc=%s after %d/%d cases: %s" % (r.returncode, len(impl), len(cases), r.stderr[-600:]))
    shown = 0
    for (n, g, spec, form, tm, exp) in cases:
        if n not in impl:
            continue
        i, m = impl[n], mo[n]
        feats = sorted(g.features)
        ctx.count(1, key=("tmpl", spec, form), nontrivial=bool(g.features))
        ctx.cov["traces_validated_against_impl"] += 1
        if exp is None:
            e = None
        elif exp[0] == 'ERR':
            e = "ERR " + exp[1][0] if len(exp[1]) == 1 else None
        else:
            e = t_prefix(exp)
        replay = "echo '(0 %s %s)' > /tmp/c07t.case; chibi-scheme %s /tmp/c07t.case   # expected: 0 %s" % (spec, form, os.path.join(ROOT, "harness", "c07_template.scm"), e or m)
        bare = [tok for tok in i.split() if tok[0] == 'S'] if not i.startswith("ERR") else []
        if bare:
            where = "escaped" if any(f.startswith('escape') for f in feats) and all(b not in t_prefix(strip_escapes(tm, g)).split() for b in bare) else "plain"
            ctx.violation("template:inserted-identifier-not-renamed:" + where, input=dict(rule=spec, use=form), expected=e or m, observed=i, features=feats, replay=replay,
                          why="every identifier of a syntax-rules template that is not a pattern variable must be inserted through the renamer (a syntactic closure over the "
                              "macro's definition environment); a bare symbol would be looked up at the use site (theorem template_inserted_identifiers_are_renamed)")
        elif e is not None and i != e:
            ctx.violation("template:instantiation-differs" + (":" + feats[0] if feats else ""), input=dict(rule=spec, use=form), expected=e, observed=i, model=m, features=feats, replay=replay,
                          why="the instantiated template must be the substitution of the pattern variables (ellipsis repetition, escapes, vectors, dotted tails) with all other identifiers renamed")
        elif m != i and not (exp is not None and exp[0] == 'ERR' and len(exp[1]) > 1 and i.startswith("ERR") and m.startswith("ERR")):
            ctx.broken("correspondence:template", "model expand_template differs from syntax-rules: model=%s impl=%s rule=%s use=%s" % (m, i, spec, form))
        elif shown < 2 and ('escape' in g.features or 'ellipsis-2' in g.features) and not i.startswith("ERR"):
            ctx.sample(dict(kind="template", rule=spec, use=form, output=i, features=feats)); shown += 1


def strip_escapes(t, g):
    """the template with every escaped sub-template removed (to tell where a bare identifier came from)"""
    if g.off:
        return t
    if t[0] == 'P':
        if t[1] == ('S', g.ell):
            return T_NIL
        return ('P', strip_escapes(t[1], g), strip_escapes(t[2], g))
    if t[0] == 'V':
        return ('V', strip_escapes(t[1], g))
    return t

# =====================================================================================================
def run(ctx):
    n_scen, n_prog, n_mid = (150, 250, 400) if not ctx.thorough else (4000, 6000, 20000)
    ctx.cov["rule"] = ("inner: random environment chains (2-6 frames, 2-4 symbols so that names collide), bindings and rename entries "
                       "keyed by symbols or by closures, closures (nested, with and without free names) over any frame, optional "
                       "context free-variable list; every sexp_env_cell (incl. localp) / identifier=? answer compared with the "
                       "extracted model; non-trivial = the key is a closure or a context fv list is set, distinct by (script, query). "
                       "outer: random integer-valued programs over 29 binding/macro shapes (user macros: binding-introducing, "
                       "free reference, nested ellipsis, literals, recursive, macro-defining, let-syntax, letrec-syntax, internal "
                       "define-syntax, er and sc transformers; built-ins: or and cond case do let* named-let when) evaluated hand-expanded "
                       "/ with macros / with 1-3 user binders renamed to a name not used by the user text in the binder's scope "
                       "drawn from keywords, standard procedures, template-free names, init-7 temporaries, every other name of the program (other binders, "
                       "local keywords) and, where the binding form's scoping allows it although the name occurs in the scope text, sibling keywords of a "
                       "let-syntax / the macro's own name / keywords bound by an enclosing let-syntax / temporaries of a generated macro; plus a focused "
                       "stream whose top shape is a local-macro scoping shape or a macro-generating macro (accumulated temporaries, generated "
                       "binding macro used in the same template; nesting depth 1-2); non-trivial = a renamed variant. "
                       "renamer: scripts of make-renamer calls (2-4 renamers over 3 environments, arguments symbols, raw closures and earlier results, "
                       "repeated pairs) compared by eq?-classes and (env, expr) shapes with the extracted rename and an independent judge. "
                       "round 3 - closed code: use environments whose frames carry rename entries (imports), macro-introduced frames binding the same names, "
                       "closures with free names around (nested) combinations; lookups in the environment built by the real sexp_extend_synclo_env and the real "
                       "sexp_analyze of such closures vs model (extend_synclo_env / enter_fv / resolve) and judge. strip: one closure at exactly one position per "
                       "position class (car at depth 0-4 x first/middle/last, dotted tail after 1-7 elements plain / nested / in a vector, vector slot first/middle/last "
                       "plain / in a list / as a dotted tail, alist cdr, quasi-quote, whole datum; closures single, double, around a form) + random data + lists and "
                       "nesting at the depth bound +-1, real sexp_strip_synclos vs strip_synclos and the specification. outer-imports: 40 (thorough 1200) library "
                       "programs x (hand expansion, fresh import names, 3 variants with imports / locals renamed to the macros' local names). "
                       "round 4 - templates: 400 (thorough 6000) random syntax-rules rules (patterns with variables at ellipsis depth 0-2 in lists and vectors; templates with "
                       "inserted identifiers, pattern variables, 1-2 trailing ellipses on variables and compound sub-templates, (... tmpl) / (... t1 t2 ..) escapes, (... ...), "
                       "escapes inside escapes, vectors, dotted tails, a custom ellipsis identifier (23 %) with `...` as an ordinary identifier, the ellipsis among the literals (7 %), "
                       "one planted too-few / too-many error) run through the real syntax-rules-transformer and compared with the extracted compile + eval and a Python judge; "
                       "non-trivial = the template has an ellipsis, an escape, a vector or a dotted identifier tail. outer: shape esc (8 macros whose templates insert identifiers under "
                       "escapes / next to (... ...) / at ellipsis depth 2 / with a custom ellipsis / in dotted and vector templates; the user variable passed in may take each inserted name). "
                       "mid: forms now include let-syntax / letrec-syntax with 1-3 specs whose keyword names collide with variables, siblings and template identifiers")
    ctx.coq_obligations("Properties_C07")
    d = ctx.build("default")
    exe = ctx.extract("C07")
    if exe is None:
        return
    run_inner(ctx, d, exe, n_scen)
    run_strip(ctx, d, exe, 150 if not ctx.thorough else 6000)
    run_renamer(ctx, d, exe, 120 if not ctx.thorough else 3000)
    run_template(ctx, d, exe, 400 if not ctx.thorough else 6000)
    run_mid(ctx, d, exe, n_mid)
    run_outer(ctx, d, n_prog)
    run_outer_imports(ctx, d, 40 if not ctx.thorough else 1200)
    ctx.assume("closure and cell identity is modelled by allocation numbers (distinct objects have distinct numbers)")
    ctx.assume("a closure holds a snapshot of its environment: cyclic structures (a frame that contains, as a key, a closure over itself) are outside the model and the generator")
    ctx.assume("build configuration " + MODEL_CONFIG + " (checked against the scratch build by the harness)")
    ctx.assume("define / define-syntax (top-level and internal), ellipsis, literals and multi-rule syntax-rules are tied by the outer metamorphic runs only, not by the model expander; "
               "let-syntax / letrec-syntax are inside the model for single-rule ellipsis-free specs written with plain symbols (duplicate letrec-syntax keywords excluded)")
    ctx.assume("quoted data are trees: the cycle test of sexp_contains_syntax_p_bound (eval.c:625-626) and sharing are outside the model; the strip theorems hold for data whose "
               "car/cdr/vector path length is below SEXP_STRIP_SYNCLOS_BOUND (%d in the scratch build; at the bound the model and the implementation are compared, not the specification)" % STRIP_BOUND)
    ctx.assume("expand-template (round 4) is modelled on symbol numbers: ellipsis-mark? (compare / eq? on the ellipsis identifier) is symbol equality, i.e. the definition "
               "environment does not rebind the ellipsis; template identifiers that are already closures (templates produced by another macro) and the pattern matcher "
               "(its bindings are an input of the model; generated patterns: variables, lists / vectors with one trailing ellipsis, depth <= 2) are outside Template.v; "
               "improper lists handed to map / append by the generated code (an error in Scheme) are truncated in the model")
    ctx.assume("rename_invariance_core is stated for guarded runs, which refuse let-syntax / letrec-syntax: programs with local syntax definitions are covered by K-mid / K-outer only")
    ctx.assume("(scheme base) let-syntax / letrec-syntax wrap the core splicing forms in (let () ..): the analyze comparison drops that parameterless lambda")
