"""C18 — sorting and container libraries conform to their abstract data types.
   (T) coq/Properties_C18.v
   (G) gen/c18_iset.py (iset merge guards), gen/c18_ralist.py (largest-skew-binary of SRFI 101, check of SRFI 134),
       gen/c18_rbtree.py (the tree-match clause tables of the SRFI 146 red-black tree)
   (K-inner) families isett / deque / ra / map / lq: the real representation (iset tree, ideque record, ra-list tree sizes, red-black
       tree of a mapping, first/last pointers of a list queue) against the model's (coq/C18/ISet.v + ISetInter.v, Deque.v, RaList.v,
       RBTree.v, LQueue.v) after every operation
   (K-outer, sorts) SRFI 95 / SRFI 132 procedures vs the extracted reference stable sort / merge (coq/C18/Spec.v,
       Oracle.v); elements carry their original position so stability is observable.
   (K-outer, containers) operation histories on SRFI 113/146/101/117/134/(chibi iset)/1/133 vs the extracted
       abstract models (coq/C18/SpecCont.v), every version re-dumped at the end (persistence)."""
import os, re
from fractions import Fraction
from vlib import build as B, scm

HERE = os.path.dirname(os.path.abspath(__file__))

SORT_PRELUDE = r"""
(import (srfi 95) (srfi 132))
(define (deep k i) (vector k (list (list (list (list (list i)))))))
(define (tok x)
  (cond ((and (pair? x) (integer? (cdr x))) (cdr x))
        ((pair? x) (string->symbol (apply string-append "l" (map (lambda (k) (string-append "_" (number->string k))) x))))
        ((vector? x) (car (car (car (car (car (vector-ref x 1)))))))
        ((number? x) (string->symbol (string-append (if (exact? x) "e" "i") (number->string (exact x)))))
        (else x)))
(define (toks seq) (map tok (if (vector? seq) (vector->list seq) seq)))
(define (mk kind keys off)
  (let lp ((ks keys) (i off) (acc '()))
    (if (null? ks) (reverse acc)
        (lp (cdr ks) (+ i 1)
            (cons (case kind ((pair) (cons (car ks) i)) ((deep) (deep (car ks) i)) (else (car ks))) acc)))))
(define (mkv kind keys off) (list->vector (mk kind keys off)))
(define (car< a b) (< (car a) (car b)))
(define (car> a b) (> (car a) (car b)))
(define (car= a b) (= (car a) (car b)))
(define (div4 x) (floor (/ x 4)))
"""


def zhex(z):
    return ("-%x" % -z) if z < 0 else ("%x" % z)


def zl(l):
    return ",".join(zhex(x) for x in l) if l else "_"


def parse_zl(s):
    return [] if s in ("_", "") else [int(x, 16) for x in s.split(",")]


# ------------------------------------------------------------------------------------------ sort inputs
def key_patterns(rng, n):
    """a list of integer base keys of length n: heavy duplication and adversarial orders"""
    if n == 0:
        return []
    d = rng.choice([1, 2, 3, max(1, n // 4), n, 2 * n + 1])
    kind = rng.choice(["random", "random", "random", "sorted", "reversed", "organ", "constant", "saw", "nearly"])
    if kind == "constant":
        return [rng.randrange(-3, 4)] * n
    base = sorted(rng.randrange(-d, d + 1) for _ in range(n))
    if kind == "random":
        rng.shuffle(base)
    elif kind == "reversed":
        base.reverse()
    elif kind == "organ":
        base = base[0::2] + base[1::2][::-1]
    elif kind == "saw":
        p = rng.choice([2, 3, 5, 7])
        base = [base[(i * p) % n] for i in range(n)] if n % p else base[n // 2:] + base[:n // 2]
    elif kind == "nearly":
        for _ in range(rng.choice([1, 1, 2, 3])):
            i, j = rng.randrange(n), rng.randrange(n)
            base[i], base[j] = base[j], base[i]
    return base


def num_literal(rng, k):
    """a Scheme number whose value is derived from k; (literal, Fraction value, token)"""
    r = rng.random()
    if r < 0.40:
        v = Fraction(k); lit = str(k); ex = True
    elif r < 0.75:
        v = Fraction(k); lit = "%d.0" % k if k >= 0 else "-%d.0" % -k; ex = False
    elif r < 0.83:
        v = Fraction(2 * k + 1, 2); lit = "%d/2" % (2 * k + 1); ex = True
    elif r < 0.91:
        v = Fraction(2 * k + 1, 2); lit = repr(float(v)); ex = False
    elif r < 0.96:
        v = Fraction(k) + (1 << 70); lit = str(int(v)); ex = True          # bignum
    else:
        v = Fraction(k) - (1 << 70); lit = str(int(v)); ex = True
    tok = ("e" if ex else "i") + str(v)
    return lit, v, tok


LESS = {
    # name: (scheme text for less, scheme text for key or None, kinds, descending?, opcode path?)
    "op<": ("<", None, ("num",), False), "op>": (">", None, ("num",), True),
    "lam<": ("(lambda (a b) (< a b))", None, ("num",), False), "lam>": ("(lambda (a b) (> a b))", None, ("num",), True),
    "car<": ("car<", None, ("pair",), False), "car>": ("car>", None, ("pair",), True),
    "key<": ("<", "car", ("pair",), False), "key>": (">", "car", ("pair",), True),
    "lamkey<": ("(lambda (a b) (< a b))", "car", ("pair",), False),
    "div4<": ("<", "div4", ("num",), False), "div4>": ("(lambda (a b) (> a b))", "div4", ("num",), True),
    "default": (None, None, ("deep", "num", "lex"), False), "false": ("#f", None, ("deep", "lex"), False),
}

# proc: (template with {seq} {less} {key}, container, accepts key?, accepts default less?, stable required?)
SORT_PROCS = {
    "sort": ("(toks (sort {seq}{less}{key}))", "both", True, True, True),
    "sort!": ("(let ((s {seq})) (let ((r (sort! s{less}{key}))) (toks (if (vector? s) s r))))", "both", True, True, True),
    "list-sort": ("(toks (list-sort {less} {seq}))", "list", False, False, False),
    "list-stable-sort": ("(toks (list-stable-sort {less} {seq}))", "list", False, False, True),
    "list-sort!": ("(toks (list-sort! {less} {seq}))", "list", False, False, False),
    "list-stable-sort!": ("(toks (list-stable-sort! {less} {seq}))", "list", False, False, True),
    "vector-sort": ("(toks (vector-sort {less} {seq}{range}))", "vector", False, False, False),
    "vector-stable-sort": ("(toks (vector-stable-sort {less} {seq}{range}))", "vector", False, False, True),
    "vector-sort!": ("(let ((s {seq})) (vector-sort! {less} s{range}) (toks s))", "vector", False, False, False),
    "vector-stable-sort!": ("(let ((s {seq})) (vector-stable-sort! {less} s{range}) (toks s))", "vector", False, False, True),
}


class SortCase:
    pass


def make_elems(rng, kind, base):
    """returns (scheme key literals, per-element sort-key values (before less/key), tokens)"""
    lits, vals, toks = [], [], []
    for i, k in enumerate(base):
        if kind == "num":
            lit, v, t = num_literal(rng, k)
        elif kind == "lex":
            # proper lists of small integers under the built-in ordering: lexicographic, a proper prefix first
            tup = tuple([k] + [rng.randrange(-1, 3) for _ in range(rng.choice([0, 0, 1, 1, 2]))])
            if rng.random() < 0.3:
                tup = (rng.randrange(-1, 2),) + tup
            lit, v, t = "(" + " ".join(map(str, tup)) + ")", tup, "l" + "".join("_%d" % x for x in tup)
        else:
            lit, v, t = str(k), Fraction(k), None
        lits.append(lit); vals.append(v); toks.append(t)
    return lits, vals, toks


def ranks(vals, lessname):
    if lessname.startswith("div4"):
        vals = [v // 4 for v in vals]
    u = sorted(set(vals))
    idx = {v: i for i, v in enumerate(u)}
    return [idx[v] for v in vals]


def gen_sort_case(rng, n, proc=None, lessname=None):
    c = SortCase()
    c.proc = proc or rng.choice(list(SORT_PROCS))
    tmpl, cont, acc_key, acc_default, c.stable = SORT_PROCS[c.proc]
    while True:
        c.lessname = lessname or rng.choice(list(LESS))
        less, key, kinds, c.desc = LESS[c.lessname]
        if (key and not acc_key) or (less is None and (not acc_default or c.proc == "sort!")) or (less == "#f" and not acc_default):
            if lessname:
                return None
            continue
        break
    c.kind = rng.choice(kinds)
    c.vector = cont == "vector" or (cont == "both" and rng.random() < 0.5)
    base = key_patterns(rng, n)
    lits, vals, toks = make_elems(rng, c.kind, base)
    c.n = n
    # optional sub-range for the SRFI 132 vector procedures
    c.start, c.end = 0, n
    rng_txt = ""
    if "{range}" in tmpl and n > 0 and rng.random() < 0.3:
        c.start = rng.randrange(0, n + 1)
        if rng.random() < 0.6:
            c.end = rng.randrange(c.start, n + 1)
            rng_txt = " %d %d" % (c.start, c.end)
        else:
            rng_txt = " %d" % c.start
    c.toks = [t if t is not None else str(i) for i, t in enumerate(toks)]
    c.ranks = ranks(vals, c.lessname)
    seq = "(%s '%s '(%s) 0)" % ("mkv" if c.vector else "mk", c.kind, " ".join(lits))
    c.expr = tmpl.format(seq=seq, less=(" " + less if less is not None else "") if c.proc in ("sort", "sort!") else less,
                         key=(" " + key) if key else "", range=rng_txt)
    c.inplace_range = c.proc in ("vector-sort!", "vector-stable-sort!")
    return c


def sort_sig(c):
    return "sort:%s:%s:%s%s" % (c.proc, c.lessname, "vector" if c.vector else "list", ":len2-3" if 2 <= (c.end - c.start) <= 3 else "")


def replay_text(prelude, expr):
    return "cat > /tmp/c18-replay.scm <<'EOF'\n(import (scheme base) (scheme write))\n%s\n(write %s)\n(newline)\nEOF\nchibi-scheme /tmp/c18-replay.scm" % (prelude.strip(), expr)


def parse_toks(s):
    if s is None:
        return None
    s = s.strip()
    if not (s.startswith("(") and s.endswith(")")):
        return None
    return s[1:-1].split()


def check_sorts(ctx, d, exe):
    rng = ctx.rng
    cases = []
    # corpus first: minimised past disagreements
    for proc, lessname, n in [("sort", "car<", 3), ("sort", "lam<", 2), ("vector-stable-sort", "car<", 2), ("vector-sort!", "car<", 3),
                              ("sort", "op>", 4), ("list-stable-sort", "op>", 6), ("sort!", "key>", 5)]:
        for _ in range(6):
            c = gen_sort_case(rng, n, proc, lessname)
            if c:
                if proc in ("sort", "sort!") and lessname in ("car<", "lam<"):
                    pass
                cases.append(c)
    # every length 0..40 for every procedure and a rotating choice of orderings
    reps = 2 if not ctx.thorough else 12
    for n in range(0, 41):
        for proc in SORT_PROCS:
            for _ in range(reps):
                c = gen_sort_case(rng, n, proc)
                if c:
                    cases.append(c)
    # every ordering x procedure at the lengths where the hand-written cases and the first merges live
    for n in (1, 2, 3, 4, 5, 7, 8, 9, 16, 17):
        for proc in SORT_PROCS:
            for ln in LESS:
                c = gen_sort_case(rng, n, proc, ln)
                if c:
                    cases.append(c)
    # seeded larger inputs up to 2000
    big = [50, 64, 100, 127, 128, 129, 255, 500, 1000, 2000] if not ctx.thorough else \
          [rng.randrange(41, 2001) for _ in range(300)] + [2000, 1999, 1024, 1025]
    for n in big:
        for _ in range(2):
            cases.append(gen_sort_case(rng, n))
    # the sorted? predicates ride along as separate cases below
    reqs = ["sort %d %s" % (1 if c.desc else 0, zl(c.ranks[c.start:c.end])) for c in cases]
    spec = ctx.run_model(exe, reqs)
    # the extracted model (both C sorts) on the same inputs: proved equal to the spec, so this only guards extraction
    mreqs = [("msortb" if c.lessname in ("op<", "op>", "default", "false") else "msortl") + q[4:] for c, q in zip(cases, reqs)]
    model = ctx.run_model(exe, mreqs)
    impl = scm.run_cases(d, [c.expr for c in cases], prelude_extra=SORT_PRELUDE)
    nbad = 0
    for c, q, s, m, out in zip(cases, reqs, spec, model, impl):
        dup = len(set(c.ranks)) < len(c.ranks)
        ctx.count(1, key=("sort", c.proc, c.lessname, c.vector, tuple(c.toks), c.start, c.end), nontrivial=(c.end - c.start) >= 2)
        ctx.cov["traces_validated_against_impl"] += 1
        if m != s:
            ctx.broken("extraction:sort-model-vs-spec", "extracted model and spec differ on %s: %s vs %s" % (q, m, s))
        order = [c.start + i for i in parse_zl(s)]
        exp_region = [c.toks[i] for i in order]
        # vector-sort! with a range sorts that range in place; vector-sort with a range returns only the range
        expected = c.toks[:c.start] + exp_region + c.toks[c.end:] if c.inplace_range else exp_region
        got = parse_toks(out)
        ok = got == expected
        why = "differs from the stable sort"
        if not ok and got is not None and not c.stable and len(got) == len(expected):
            # SRFI 132 list-sort / vector-sort need not be stable: ordered permutation is enough
            lo, hi = (c.start, c.end) if len(got) == c.n else (0, len(got))
            region = got[lo:hi] if len(got) == c.n else got
            t2r = {}
            for i in range(c.start, c.end):
                t2r.setdefault(c.toks[i], c.ranks[i])
            if sorted(region) == sorted(exp_region) and (len(got) != c.n or (got[:lo] == c.toks[:lo] and got[hi:] == c.toks[hi:])):
                rk = [t2r[t] for t in region]
                o2 = ctx.run_model(exe, ["sorted %d %s" % (1 if c.desc else 0, zl(rk))])[0]
                ok = o2 == "1"
                why = "not ordered"
            else:
                why = "not a permutation of the input"
        if not ok:
            nbad += 1
            if nbad <= 40:
                ctx.violation(sort_sig(c), input=c.expr[:3000], expected="(" + " ".join(expected) + ")", observed=out, why=why,
                              replay=replay_text(SORT_PRELUDE, c.expr))
    if cases:
        c = cases[len(cases) // 2]
        ctx.sample(dict(kind="sort", expr=c.expr[:300], spec_request=reqs[len(cases) // 2][:200], spec=spec[len(cases) // 2][:200], impl=(impl[len(cases) // 2] or "")[:200]))
    return len(cases)



# ------------------------------------------------------------------------------------------ merges, predicates, dups, medians
MERGE_PROCS = {
    # name: (template, container, accepts key?)
    "merge": ("(toks (merge {a} {b} {less}{key}))", "list", True),
    "merge!": ("(toks (merge! {a} {b} {less}{key}))", "list", True),
    "list-merge": ("(toks (list-merge {less} {a} {b}))", "list", False),
    "list-merge!": ("(toks (list-merge! {less} {a} {b}))", "list", False),
    "vector-merge": ("(toks (vector-merge {less} {a} {b}{range}))", "vector", False),
    "vector-merge!": ("(let ((to (make-vector {total} (cons -1 -1)))) (vector-merge! {less} to {a} {b}{range}) (toks to))", "vector", False),
}
MERGE_LESS = ["lam<", "lam>", "op<", "op>", "car<", "car>", "key<", "key>"]


def sorted_keys(rng, n, desc):
    ks = sorted(key_patterns(rng, n))
    return ks[::-1] if desc else ks


def check_merges(ctx, d, exe):
    rng = ctx.rng
    cases = []
    sizes = [(a, b) for a in range(0, 7) for b in range(0, 7)] + [(rng.randrange(0, 60), rng.randrange(0, 60)) for _ in range(60 if not ctx.thorough else 1500)]
    sizes += [(300, 400), (1000, 1)] if not ctx.thorough else [(1000, 1000), (2000, 3)]
    for (n1, n2) in sizes:
        for proc in MERGE_PROCS:
            tmpl, cont, acc_key = MERGE_PROCS[proc]
            ln = rng.choice([l for l in MERGE_LESS if acc_key or LESS[l][1] is None])
            less, key, kinds, desc = LESS[ln]
            kind = kinds[0]
            b1, b2 = sorted_keys(rng, n1, desc), sorted_keys(rng, n2, desc)
            if rng.random() < 0.5 and n1 and n2:      # force shared keys: ties across the two inputs
                b2 = sorted([rng.choice(b1) for _ in range(n2)], reverse=desc)
            l1, v1, t1 = make_elems(rng, kind, b1)
            l2, v2, t2 = make_elems(rng, kind, b2)
            if kind == "num":
                # inexact/ratio variants shift a key by 1/2: re-sort the literals by value so the inputs stay sorted
                z1 = sorted(zip(v1, range(n1), l1, t1), key=lambda x: x[0], reverse=desc); z2 = sorted(zip(v2, range(n2), l2, t2), key=lambda x: x[0], reverse=desc)
                if desc:   # python's reverse sort keeps ties in original order reversed; any order of ties is a valid sorted input
                    pass
                v1, l1, t1 = [z[0] for z in z1], [z[2] for z in z1], [z[3] for z in z1]
                v2, l2, t2 = [z[0] for z in z2], [z[2] for z in z2], [z[3] for z in z2]
            s1, e1, s2, e2 = 0, n1, 0, n2
            rtxt = ""
            to_start = 0
            total = n1 + n2
            if proc == "vector-merge" and rng.random() < 0.4:
                s1 = rng.randrange(0, n1 + 1); e1 = rng.randrange(s1, n1 + 1)
                r = rng.random()
                if r < 0.3:
                    e1 = n1; rtxt = " %d" % s1
                elif r < 0.6:
                    rtxt = " %d %d" % (s1, e1)
                else:
                    s2 = rng.randrange(0, n2 + 1); e2 = rng.randrange(s2, n2 + 1)
                    rtxt = " %d %d %d %d" % (s1, e1, s2, e2)
            if proc == "vector-merge!" and rng.random() < 0.4:
                to_start = rng.randrange(0, 4); total = n1 + n2 + to_start + rng.randrange(0, 3)
                rtxt = " %d" % to_start
            toks = [t if t is not None else str(i) for i, t in enumerate(t1)] + [t if t is not None else str(n1 + i) for i, t in enumerate(t2)]
            rk = ranks(v1 + v2, ln)
            mkf = "mkv" if cont == "vector" else "mk"
            a = "(%s '%s '(%s) 0)" % (mkf, kind, " ".join(l1))
            b = "(%s '%s '(%s) %d)" % (mkf, kind, " ".join(l2), n1)
            lt = less
            expr = tmpl.format(a=a, b=b, less=lt, key=(" " + key) if key else "", range=rtxt, total=total)
            cases.append(dict(proc=proc, ln=ln, expr=expr, toks=toks, rk=rk, n1=n1, sl=(s1, e1, s2, e2), desc=desc, to_start=to_start, total=total))
    reqs = []
    for c in cases:
        s1, e1, s2, e2 = c["sl"]
        reqs.append("merge %d %s %s" % (1 if c["desc"] else 0, zl(c["rk"][s1:e1]), zl(c["rk"][c["n1"] + s2:c["n1"] + e2])))
    spec = ctx.run_model(exe, reqs)
    model = ctx.run_model(exe, [("mvmerge" if c["proc"].startswith("vector") else "mmerge95") + q[5:] for c, q in zip(cases, reqs)])
    impl = scm.run_cases(d, [c["expr"] for c in cases], prelude_extra=SORT_PRELUDE)
    nbad = 0
    for c, q, s, m, out in zip(cases, reqs, spec, model, impl):
        s1, e1, s2, e2 = c["sl"]
        ctx.count(1, key=("merge", c["proc"], c["ln"], tuple(c["toks"]), c["sl"]), nontrivial=(e1 - s1) >= 1 and (e2 - s2) >= 1)
        ctx.cov["traces_validated_against_impl"] += 1
        if m != s:
            ctx.broken("extraction:merge-model-vs-spec", "extracted model and spec differ on %s: %s vs %s" % (q, m, s))
        n1s = e1 - s1
        order = [(s1 + i) if i < n1s else (c["n1"] + s2 + (i - n1s)) for i in parse_zl(s)]
        expected = [c["toks"][i] for i in order]
        if c["proc"] == "vector-merge!":
            expected = ["-1"] * c["to_start"] + expected + ["-1"] * (c["total"] - c["to_start"] - len(expected))
        got = parse_toks(out)
        if got != expected:
            nbad += 1
            if nbad <= 20:
                ctx.violation("merge:%s:%s" % (c["proc"], c["ln"]), input=c["expr"][:3000], expected="(" + " ".join(expected) + ")", observed=out,
                              why="not the stable merge (ties: first sequence first)", replay=replay_text(SORT_PRELUDE, c["expr"]))
    ctx.sample(dict(kind="merge", expr=cases[40]["expr"][:300], spec=spec[40], impl=impl[40]))


def check_predicates(ctx, d, exe):
    """sorted? / list-sorted? / vector-sorted?, delete-neighbor-dups (4 procedures), vector-find-median(!), vector-select!"""
    rng = ctx.rng
    exprs, reqs, meta = [], [], []
    for it in range(600 if not ctx.thorough else 12000):
        n = rng.choice([0, 1, 2, 3, 4, 5, 8, 9, 17, rng.randrange(0, 60)])
        base = key_patterns(rng, n)
        what = rng.choice(["sorted", "sorted", "dedup", "dedup", "median", "select"])
        if what == "sorted":
            desc = rng.random() < 0.4
            if rng.random() < 0.6:
                base = sorted(base, reverse=desc)
                if n >= 2 and rng.random() < 0.4:
                    i = rng.randrange(n - 1); base[i], base[i + 1] = base[i + 1], base[i]
            form = rng.choice(["sorted?l", "sorted?v", "sorted?key", "list-sorted?", "vector-sorted?"])
            lits = " ".join(map(str, base))
            lo = "car>" if desc else "car<"
            e = {"sorted?l": "(sorted? (mk 'pair '(%s) 0) %s)" % (lits, lo), "sorted?v": "(sorted? (mkv 'pair '(%s) 0) %s)" % (lits, lo),
                 "sorted?key": "(sorted? (mk 'pair '(%s) 0) %s car)" % (lits, ">" if desc else "<"),
                 "list-sorted?": "(list-sorted? %s (mk 'pair '(%s) 0))" % (lo, lits), "vector-sorted?": "(vector-sorted? %s (mkv 'pair '(%s) 0))" % (lo, lits)}[form]
            exprs.append(e); reqs.append("sorted %d %s" % (1 if desc else 0, zl(base))); meta.append((form, None))
        elif what == "dedup":
            form = rng.choice(["list-delete-neighbor-dups", "list-delete-neighbor-dups!", "vector-delete-neighbor-dups", "vector-delete-neighbor-dups!"])
            lits = " ".join(map(str, base))
            s, e_ = 0, n
            rt = ""
            if form.startswith("vector") and n and rng.random() < 0.4:
                s = rng.randrange(0, n + 1); e_ = rng.randrange(s, n + 1); rt = " %d %d" % (s, e_)
            if form == "list-delete-neighbor-dups":
                e = "(toks (list-delete-neighbor-dups car= (mk 'pair '(%s) 0)))" % lits
            elif form == "list-delete-neighbor-dups!":
                e = "(toks (list-delete-neighbor-dups! car= (mk 'pair '(%s) 0)))" % lits
            elif form == "vector-delete-neighbor-dups":
                e = "(toks (vector-delete-neighbor-dups car= (mkv 'pair '(%s) 0)%s))" % (lits, rt)
            else:
                e = "(let* ((v (mkv 'pair '(%s) 0)) (e (vector-delete-neighbor-dups! car= v%s))) (toks (vector-copy v %d e)))" % (lits, rt, s)
            exprs.append(e); reqs.append("dedup %s" % zl(base[s:e_])); meta.append((form, s))
        elif what == "median":
            form = rng.choice(["vector-find-median", "vector-find-median!"])
            lits = " ".join(map(str, base))
            e = "(%s < (vector %s) 'none)" % (form, lits)
            exprs.append(e)
            if n == 0:
                reqs.append("select _ 0"); meta.append((form, "none"))
            elif n % 2:
                reqs.append("select %s %d" % (zl(base), n // 2)); meta.append((form, "odd"))
            else:
                reqs.append("select %s %d" % (zl(base), n // 2 - 1)); meta.append((form, ("even", base)))
        else:
            if n == 0:
                continue
            k = rng.randrange(n)
            lits = " ".join(map(str, base))
            exprs.append("(car (vector-select! car< (mkv 'pair '(%s) 0) %d))" % (lits, k))
            reqs.append("select %s %d" % (zl(base), k)); meta.append(("vector-select!", "odd"))
    spec = ctx.run_model(exe, reqs)
    impl = scm.run_cases(d, exprs, prelude_extra=SORT_PRELUDE)
    nbad = 0
    for e, q, s, out, (form, info) in zip(exprs, reqs, spec, impl, meta):
        ctx.count(1, key=("pred", e), nontrivial=len(q) > 12)
        ctx.cov["traces_validated_against_impl"] += 1
        if q.startswith("sorted"):
            expected = "#t" if s == "1" else "#f"
        elif q.startswith("dedup"):
            expected = "(" + " ".join(str(info + i) for i in parse_zl(s)) + ")"
        elif info == "none":
            expected = "none"
        elif info == "odd":
            expected = None
            v = int(s, 16)
            ok = out is not None and scm.parse_int(out) is not None and scm.parse_int(out)[1] == v
        else:
            b = sorted(info[1]); n = len(b)
            v = Fraction(b[n // 2 - 1] + b[n // 2], 2)
            if int(s, 16) != b[n // 2 - 1]:
                ctx.broken("harness:median", "spec select disagrees with the harness's own middle element")
            expected = None
            ok = out is not None and ((scm.parse_int(out) is not None and scm.parse_int(out)[1] == v) or out == str(v))
        if expected is not None:
            ok = out == expected
        if not ok:
            nbad += 1
            if nbad <= 20:
                ctx.violation("sort-aux:%s" % form, input=e[:2000], expected=expected if expected is not None else str(v), observed=out,
                              replay=replay_text(SORT_PRELUDE, e))



# ------------------------------------------------------------------------------------------ container histories
# op: (name, argument kinds, weight)   kinds: v version, x element, i index >= 0, m modulus, n small count, s slot
FAMILIES = {
    "set": [("adjoin", "vx", 6), ("adjoin2", "vxx", 2), ("adjoinx", "vx", 2), ("delete", "vx", 4), ("delete2", "vxx", 1), ("deletex", "vx", 1),
            ("union", "vv", 2), ("inter", "vv", 2), ("diff", "vv", 2), ("xor", "vv", 2), ("unionx", "vv", 1), ("interx", "vv", 1), ("diffx", "vv", 1),
            ("xorx", "vv", 1), ("filter", "vm", 1), ("remove", "vm", 1), ("maphalf", "v", 1), ("copy", "v", 1), ("oflist", "xxx", 1),
            ("has", "vx", 4), ("size", "v", 2), ("subset", "vv", 1), ("psubset", "vv", 1), ("equal", "vv", 1), ("disjoint", "vv", 1),
            ("countmod", "vm", 1), ("sum", "v", 1), ("empty", "v", 1)],
    "iset": [("adjoin", "vx", 8), ("adjoin2", "vxx", 2), ("adjoinx", "vx", 2), ("delete", "vx", 5), ("deletex", "vx", 2), ("union", "vv", 2),
             ("inter", "vv", 2), ("diff", "vv", 2), ("unionx", "vv", 1), ("interx", "vv", 1), ("diffx", "vv", 1), ("copy", "v", 1), ("oflist", "xxx", 1),
             ("has", "vx", 5), ("size", "v", 2), ("subset", "vv", 1), ("equal", "vv", 1), ("sum", "v", 1), ("empty", "v", 1)],
    "bag": [("adjoin", "vx", 6), ("incr", "vxn", 3), ("decr", "vxn", 4), ("union", "vv", 2), ("inter", "vv", 2), ("sum", "vv", 2), ("diff", "vv", 2),
            ("copy", "v", 1), ("oflist", "xxx", 1), ("count", "vx", 4), ("size", "v", 2), ("usize", "v", 1), ("has", "vx", 2), ("empty", "v", 1)],
    "map": [("set", "vxx", 8), ("adjoin", "vxx", 2), ("replace", "vxx", 2), ("delete", "vx", 6), ("delete2", "vxx", 1), ("bump", "vxx", 2),
            ("union", "vv", 2), ("inter", "vv", 2), ("diff", "vv", 2), ("xor", "vv", 2), ("filter", "vm", 1), ("setx", "vxx", 2), ("copy", "v", 1),
            ("ref", "vx", 5), ("has", "vx", 2), ("size", "v", 2), ("sumv", "v", 1), ("keys", "v", 1), ("empty", "v", 1)],
    # SRFI 101 inside the Coq model (coq/C18/RaList.v): every constructor route (cons chains, list, make-list, linear->ra, append,
    # reverse, map, list-set, list-tail) and the n-ary map over versions built by different routes; the dump carries the cached tree
    # sizes (inner tie) and marks from equal? / n-ary map / for-each / ref / set against lists of the same length built by other routes
    "ra": [("cons", "vx", 8), ("cdr", "v", 4), ("set", "vix", 5), ("refupd", "vi", 3), ("tail", "vi", 2), ("append", "vv", 2), ("reverse", "v", 1), ("map1", "v", 1),
           ("oflist", "xxx", 1), ("append3", "vvv", 1), ("map2", "vv", 3), ("mklist", "ix", 4), ("listn", "ix", 2), ("ofn", "ix", 1),
           ("car", "v", 2), ("ref", "vi", 5), ("len", "v", 2), ("equal", "vv", 2)],
    # SRFI 134 inside the Coq model (coq/C18/Deque.v): every procedure that builds a deque from another; kinds "qx" = a predicate
    # (harness pred-of: multiple of 2/3, < t, >= t, /= t, = t); the dump carries the record (lenf f lenr r) (inner tie) and a mark for
    # every observer that disagrees with the listing, so every observer runs after every constructor
    "deque": [("addf", "vx", 6), ("addb", "vx", 6), ("remf", "v", 5), ("remb", "v", 5), ("take", "vi", 1), ("drop", "vi", 1), ("taker", "vi", 1),
              ("dropr", "vi", 1), ("splita", "vi", 1), ("splitb", "vi", 1), ("append", "vv", 2), ("append3", "vvv", 1), ("reverse", "v", 2), ("map1", "v", 1),
              ("filter", "vm", 1), ("filterp", "vqx", 2), ("removep", "vqx", 2), ("parta", "vqx", 1), ("partb", "vqx", 1), ("takew", "vqx", 1),
              ("dropw", "vqx", 1), ("takewr", "vqx", 1), ("dropwr", "vqx", 1), ("spana", "vqx", 1), ("spanb", "vqx", 1), ("breaka", "vqx", 1),
              ("breakb", "vqx", 1), ("filtermap", "vqx", 1), ("appendmap", "vqx", 1), ("zip", "vv", 1), ("oflist", "xxx", 1), ("ofn", "ix", 1),
              ("ofgen", "ix", 1), ("tab", "ix", 1), ("unfold", "ix", 1), ("unfoldr", "ix", 1),
              ("front", "v", 3), ("back", "v", 3), ("ref", "vi", 3), ("len", "v", 2), ("sum", "v", 1), ("empty", "v", 1), ("eq", "vv", 1),
              ("anyp", "vqx", 1), ("everyp", "vqx", 1), ("findp", "vqx", 1), ("findrp", "vqx", 1), ("countp", "vqx", 1)],
    "l1": [("cons", "vx", 6), ("take", "vi", 1), ("drop", "vi", 1), ("taker", "vi", 1), ("dropr", "vi", 1), ("appendrev", "vv", 1), ("append", "vv", 2),
           ("delete", "vx", 2), ("dedup", "v", 1), ("filter", "vm", 1), ("remove", "vm", 1), ("takewhile", "vm", 1), ("dropwhile", "vm", 1),
           ("reverse", "v", 1), ("oflist", "xxx", 2), ("iota", "ix", 1), ("partition", "vm", 1), ("splitat", "vi", 1), ("span", "vm", 1),
           ("index", "vm", 1), ("count", "vm", 1), ("last", "v", 1), ("any", "vm", 1), ("every", "vm", 1), ("sum", "v", 1), ("foldr", "v", 1),
           ("foldl", "v", 1), ("len", "v", 1)],
    "v133": [("push", "vx", 6), ("revcopy", "vii", 2), ("subcopy", "vii", 2), ("concat", "vv", 2), ("cumulate", "v", 1), ("map1", "v", 1),
             ("swapx", "vii", 2), ("reversex", "vii", 2), ("fillx", "vxii", 1), ("oflist", "xxx", 2), ("index", "vm", 1), ("skip", "vm", 1),
             ("indexr", "vm", 1), ("count", "vm", 1), ("sum", "v", 1), ("partition", "vm", 1), ("bsearch", "vx", 2), ("len", "v", 1)],
    "lq": [("addf", "sx", 5), ("addb", "sx", 6), ("remf", "s", 5), ("remb", "s", 4), ("copy", "ss", 1), ("append", "sss", 1), ("concat", "sss", 1),
           ("setlist", "sxxx", 1), ("removeall", "s", 1), ("map1x", "s", 1), ("map1", "ss", 1), ("appendx", "sss", 1), ("unf", "six", 1), ("unfq", "six", 1),
           ("unfr", "six", 1), ("unfrq", "six", 1), ("front", "s", 2), ("back", "s", 2), ("empty", "s", 1)],
}
FAMILIES["hmap"] = FAMILIES["map"]
# ordered mappings only: mapping-range*, mapping-catenate (tree-split / tree-catenate of rbtree.scm).  A family of its own because
# of the genuine defect F-C18-14 (notes/C18.md: black-height never counts a node, so tree-catenate builds invalid red-black trees
# and a later delete/union fails with "tree does not match any pattern"); run only when known_findings.json lists OMAP_SIG
FAMILIES["omap"] = [("set", "vxx", 6), ("delete", "vx", 5), ("rlt", "vx", 2), ("rle", "vx", 2), ("rgt", "vx", 2), ("rge", "vx", 2), ("cat", "vxx", 3),
                    ("cat2", "vvxx", 3), ("union", "vv", 1), ("ref", "vx", 3), ("size", "v", 1), ("keys", "v", 1)]
OMAP_SIG = "hist:omap:split-catenate"
# (chibi iset) inside the Coq model (coq/C18/ISet.v): the operations the model mirrors; the dump is the real tree
FAMILIES["isett"] = [("adjoin", "vx", 10), ("adjoin2", "vxx", 2), ("adjoinx", "vx", 2), ("delete", "vx", 6), ("deletex", "vx", 2), ("union", "vv", 2),
                     ("unionx", "vv", 1), ("inter", "vv", 2), ("diff", "vv", 2), ("interx", "vv", 1), ("diffx", "vv", 1), ("copy", "v", 1), ("oflist", "xxx", 1), ("has", "vx", 4), ("size", "v", 2), ("sum", "v", 1), ("empty", "v", 1)]
QUERY_OPS = {"has", "size", "subset", "psubset", "equal", "disjoint", "countmod", "sum", "empty", "count", "usize", "ref", "sumv", "keys", "car",
             "len", "front", "back", "eq", "anyp", "everyp", "findp", "findrp", "countp", "partition", "splitat", "span", "index", "last", "any", "every", "foldr", "foldl", "skip", "indexr", "bsearch"}
BAG_V_SUM = True     # in the bag family "sum" builds a new version


def is_query(fam, op):
    if fam == "bag" and op == "sum":
        return False
    return op in QUERY_OPS


# ---- element universes: one per history, with several scales at once.  W is the width at which the family's
# representation changes shape: 128 = bits-thresh of (chibi iset), 32 = bucket of the SRFI 146 HAMT; the default
# comparator's hash of a fixnum n is basis xor (2n+1) cut to 60 bits, so n + j*32^k share the k lowest trie levels
# and n + j*2^59 collide completely.
NODE_W = {"iset": 128, "isett": 128, "hmap": 32}
ADD_OP = {"set": "adjoin", "iset": "adjoin", "isett": "adjoin", "bag": "adjoin", "map": "set", "hmap": "set", "omap": "set"}
TREE_FAMS = ("set", "iset", "isett", "bag", "map", "hmap", "omap")


def make_universe(rng, fam):
    W = NODE_W.get(fam, 16)
    kind = rng.choice(["small", "dense", "ladder", "ladder", "clusters", "pow2", "mixed", "mixed"] + (["collide", "collide"] if fam == "hmap" else []))
    base = rng.choice([0, 0, 0, -rng.randrange(1, 3000), rng.randrange(1, 3000), 10 ** 6, -10 ** 6, 1 << rng.choice([8, 12, 16, 20, 30])])
    def ladder():
        step = rng.choice([W - 1, W, W + 1, W // 2, 2 * W, W - 28, 3 * W + 5, 100, 7 * W, 1000])
        n = rng.choice([6, 10, 16, 24])
        return [base + i * step + rng.choice([0, 0, 0, 1, -1, 10]) for i in range(n)]
    def clusters():
        out = []
        for _ in range(rng.choice([2, 3, 5])):
            c = base + rng.choice([1, W, 4 * W, 8 * W, 50 * W]) * rng.randrange(-8, 9)
            out += [c + d for d in rng.sample(range(-W - 2, W + 3), rng.choice([3, 6, 12]))] + [c, c + W - 1, c + W, c + W + 1, c - W, c - W + 1]
        return out
    def pow2():
        return [(1 << k) + d + o for k in rng.sample(range(4, 21), 5) for d in (-2, -1, 0, 1, 2) for o in rng.choice([(0,), (0, 64), (0, -64)])]
    def small():
        return list(range(-6, 21))
    def collide():
        xs = [rng.randrange(0, 40) for _ in range(4)]
        out = list(xs)
        for x in xs:
            for k in rng.sample(range(1, 12), 3):
                out += [x + j * 32 ** k for j in (1, 2, rng.randrange(3, 31))]
            out += [x + j * (1 << 59) for j in (1, 2, 3)]
        return out
    if kind == "dense":
        pool = [base + i for i in range(rng.choice([8, 30, 70, 200, 300]))]
    elif kind == "mixed":
        pool = ladder() + clusters()[:20] + small()[:10] + [10 ** 6, 10 ** 6 + 1, 65535, 65536, -1, 0]
    else:
        pool = dict(ladder=ladder, clusters=clusters, pow2=pow2, small=small, collide=collide)[kind]()
    return dict(kind=kind, pool=sorted(set(pool)), used=[], W=W)


def order_by(rng, xs, how):
    xs = sorted(xs)
    n = len(xs)
    if how == "asc":
        return xs
    if how == "desc":
        return xs[::-1]
    if how == "zigzag":                  # lo, hi, lo+1, hi-1, ...
        out, lo, hi = [], 0, n - 1
        while lo <= hi:
            out.append(xs[lo]); lo += 1
            if lo <= hi:
                out.append(xs[hi]); hi -= 1
        return out
    if how == "endsmid":                 # lo, hi, middle, then the rest ascending: a right child with a lower left descendant
        if n < 3:
            return xs
        m = n // 2
        return [xs[0], xs[-1], xs[m]] + xs[1:m] + xs[m + 1:-1]
    if how == "midends":                 # mirror image
        if n < 3:
            return xs
        m = n // 2
        return [xs[-1], xs[0], xs[m]] + xs[m + 1:-1][::-1] + xs[1:m][::-1]
    if how == "bitrev":
        w = max(1, (n - 1).bit_length())
        return [xs[i] for i in sorted(range(n), key=lambda i: int(format(i, "0%db" % w)[::-1], 2))]
    if how == "midout":
        out, lo, hi = [], (n - 1) // 2, (n - 1) // 2 + 1
        while lo >= 0 or hi < n:
            if lo >= 0:
                out.append(xs[lo]); lo -= 1
            if hi < n:
                out.append(xs[hi]); hi += 1
        return out
    xs = list(xs)
    rng.shuffle(xs)
    return xs


ORDERS = ["asc", "desc", "zigzag", "endsmid", "midends", "bitrev", "midout", "random", "random"]


def elem(rng, fam, uni=None):
    if uni is not None:
        r = rng.random()
        if uni["used"] and r < 0.40:
            return rng.choice(uni["used"][-40:])
        if uni["used"] and r < 0.55:
            return rng.choice(uni["used"][-40:]) + rng.choice([-1, 1, -1, 1, uni["W"], -uni["W"], uni["W"] - 1, 1 - uni["W"]])
        return rng.choice(uni["pool"])
    return rng.randrange(-5, 10)


class Hist:
    """a history under construction: emits operations and keeps the version count"""

    def __init__(self, rng, fam, uni=None):
        self.rng, self.fam, self.uni, self.prog, self.nver = rng, fam, uni, [], 1
        self.kinds = {n: (k, w) for (n, k, w) in FAMILIES[fam]}

    def newest(self):
        return self.nver - 1

    def emit(self, name, args):
        self.prog.append((name, list(args)))
        if self.fam != "lq" and not is_query(self.fam, name):
            self.nver += 1

    def add(self, x, v=None):
        """the family's insertion of x into version v (newest by default)"""
        v = self.newest() if v is None else v
        name = ADD_OP[self.fam]
        self.emit(name, [v, x, self.rng.randrange(-5, 10)] if len(self.kinds[name][0]) == 3 else [v, x])
        if self.uni is not None:
            self.uni["used"].append(x)

    def random_op(self, recent=0.7):
        rng, fam = self.rng, self.fam
        ops = FAMILIES[fam]
        name, kinds, _w = rng.choices(ops, [w for (_, _, w) in ops])[0]
        args = []
        for i, k in enumerate(kinds):
            if k == "v":
                # mostly the newest versions, but regularly an old one: persistence
                args.append(self.nver - 1 - min(self.nver - 1, rng.choice([0, 0, 0, 1, 1, 2])) if rng.random() < recent else rng.randrange(self.nver))
            elif k == "x":
                # the value of a mapping association stays small (sums of values must fit the driver's 63-bit integers)
                isval = fam in ("map", "hmap", "omap") and name != "delete2" and i == len(kinds) - 1 and kinds.count("x") >= 2
                x = rng.randrange(-5, 10) if isval else elem(rng, fam, self.uni)
                args.append(x)
                # only the element position of set/bag/map ops enters the pool of used keys (position 1), not values
                if self.uni is not None and i == 1 and not is_query(fam, name) and name in ("adjoin", "adjoin2", "adjoinx", "set", "setx", "incr", "bump"):
                    self.uni["used"].append(x)
            elif k == "i":
                args.append(rng.randrange(0, 40) if rng.random() < 0.8 else rng.randrange(0, 300))
            elif k == "m":
                args.append(rng.choice([2, 3]))
            elif k == "q":
                args.append(rng.randrange(5))
            elif k == "n":
                args.append(rng.choice([1, 1, 2, 3]))
            elif k == "s":
                args.append(rng.randrange(3))
        self.emit(name, args)


def gen_history(rng, fam, length):
    """uniformly mixed operations over a per-history multi-scale universe"""
    h = Hist(rng, fam, make_universe(rng, fam) if fam in TREE_FAMS else None)
    for _ in range(length):
        h.random_op()
    return h.prog


def gen_build_history(rng, fam, length):
    """tree-shaped containers: a long build-up in a chosen insertion order (skeleton), growth walks from existing
    elements in steps below/at/above the node width, a mixed phase, then deletions in a chosen order"""
    uni = make_universe(rng, fam)
    h = Hist(rng, fam, uni)
    W = uni["W"]
    pool = uni["pool"]
    nskel = min(len(pool), rng.choice([3, 4, 6, 10, 20, 40]), max(3, length // 3))
    skel = order_by(rng, rng.sample(pool, nskel), rng.choice(ORDERS))
    for x in skel:
        h.add(x)
    budget = length - len(h.prog)
    for _ in range(rng.choice([0, 1, 1, 2, 3])):
        if budget <= 4:
            break
        x0 = rng.choice(skel)
        d = rng.choice([1, 1, -1, -1])
        step = rng.choice([1, 1, 2, 7, W // 2, W - 28, W - 1, W - 1, W, W + 1])
        n = min(budget // 2, rng.choice([3, 6, 10, 20, 40]))
        for i in range(1, n + 1):
            h.add(x0 + d * i * step)
        budget = length - len(h.prog)
    nmix = max(0, (length - len(h.prog)) // 2)
    for _ in range(nmix):
        h.random_op(recent=0.85)
    # deletions of what was inserted, on the newest version, with membership queries between
    dels = order_by(rng, list(dict.fromkeys(uni["used"])), rng.choice(ORDERS))
    qop = "ref" if fam in ("map", "hmap", "omap") else ("count" if fam == "bag" else "has")
    dop = "decr" if fam == "bag" else "delete"
    for x in dels:
        if len(h.prog) >= length:
            break
        h.emit(dop, [h.newest(), x, 1] if fam == "bag" else [h.newest(), x])
        if rng.random() < 0.2:
            h.emit(qop, [h.newest(), rng.choice(dels)])
        if rng.random() < 0.1:
            h.add(rng.choice(dels))
    return h.prog


def gen_seq_build_history(rng, fam, length):
    """random-access lists / deques: sizes around 2^k-1 (skew-binary digits) and around the ideque rebalancing
    thresholds, then reads/writes at every digit boundary and removal down to empty"""
    h = Hist(rng, fam)
    k = rng.choice([1, 2, 3, 4, 5, 6, 7] if length >= 150 else [1, 2, 3, 4, 5])
    n = max(0, (1 << k) - 1 + rng.choice([-1, 0, 0, 1, 2]))
    n = min(n, max(1, length // 2))
    if fam == "ra":
        for i in range(n):
            h.emit("cons", [h.newest(), i])
        built = h.newest()
        idx = sorted(set([0, n - 1] + [(1 << j) - 1 + d for j in range(0, 8) for d in (-1, 0, 1) if 0 <= (1 << j) - 1 + d < n] + [rng.randrange(n) for _ in range(4)])) if n else []
        for i in idx:
            h.emit("ref", [built, i])
        for i in idx[:: max(1, len(idx) // 8)]:
            h.emit("set", [built, i, 99])
            h.emit("ref", [h.newest(), i])
            h.emit("refupd", [built, i])
            h.emit("tail", [built, i])
        cur = built
        while len(h.prog) < length - 2 and n > 0:
            h.emit("cdr", [cur]); cur = h.newest(); n -= 1
            if rng.random() < 0.3:
                h.emit("ref", [cur, rng.randrange(0, 40)])
            if rng.random() < 0.15:
                h.emit("cons", [cur, 7]); cur = h.newest(); n += 1
    else:
        front = rng.choice(["addf", "addb", "mixed"])
        for i in range(n):
            h.emit("addf" if front == "addf" or (front == "mixed" and rng.random() < 0.5) else "addb", [h.newest(), i])
        built = h.newest()
        for i in sorted(set([0, max(0, n - 1), n // 2, n // 3, (2 * n) // 3])):
            h.emit("ref", [built, i]); h.emit("take", [built, i]); h.emit("dropr", [built, i])
        cur = built
        rem = rng.choice(["remb", "remf", "alt"])
        j = 0
        while len(h.prog) < length - 2 and n > 0:
            op = rem if rem != "alt" else ("remb" if j % 2 else "remf")
            j += 1
            h.emit(op, [cur]); cur = h.newest(); n -= 1
            if rng.random() < 0.3:
                h.emit(rng.choice(["front", "back", "len"]), [cur])
            if rng.random() < 0.2:
                h.emit("ref", [cur, rng.randrange(0, 40)])
    return h.prog


def hist_of(fam, steps):
    """a straight-line history: each step (op, x...) applies to the newest version; ("v", op, args) is literal"""
    h = Hist(None, fam)
    for st in steps:
        if st[0] == "v":
            h.emit(st[1], st[2])
        else:
            h.emit(st[0], [h.newest()] + list(st[1:]))
    return h.prog


def targeted_histories(rng):
    """shape-targeted histories derived from the case splits of the code; every one also under a random translation"""
    out = []
    # ---- (chibi iset): should-merge-left/right with deeper descendants, growth past a descendant, range vs bit
    # nodes, split on delete in the middle of a range, adjoin at node boundaries +-1 and at gaps 127/128/129
    def iset_cases(t, m):
        f = lambda xs: [t + m * x for x in xs]
        cs = []
        cs.append([("adjoin", x) for x in f([0, 1000, 500, 100, 200, 300, 400, 510])])                 # right child's left descendant
        cs.append([("adjoin", x) for x in f([0, 2000, 1000, 500, 750, 100, 200, 300, 400, 510, 600, 700, 760])])  # two levels down
        cs.append([("adjoin", x) for x in f([1000, 0, 500, 900, 800, 700, 600, 490])])                 # mirror: left child's right descendant
        cs.append([("adjoin", x) for x in f([0, 127, 128 + 127, 129 + 127 + 128, 1000, 1000 - 128, 1000 - 255])])     # gaps 127 / 128 / 129
        cs.append([("adjoin", x) for x in f(range(10, 21))] + [("delete", t + m * 15), ("delete", t + m * 10), ("delete", t + m * 20),
                  ("adjoin", t + m * 15), ("delete", t + m * 16), ("delete", t + m * 14), ("adjoin", t + m * 14)])          # range node split
        cs.append([("adjoin", t)] + [("delete", t)] + [("adjoin", t + 500), ("adjoin", t + 1), ("delete", t + 500), ("delete", t + 1), ("adjoin", t - 300)])  # emptied nodes
        # union with ranges / bitmaps straddling a node's boundaries: the node-split general case
        for ab in [((10, 20), (5, 25)), ((10, 20), (15, 25)), ((10, 20), (5, 15)), ((10, 20), (21, 30)), ((10, 20), (0, 9)), ((10, 200), (150, 400))]:
            cs.append(ab)
        return cs
    for (t, m) in [(0, 1), (rng.randrange(-5000, 5000), 1), (10 ** 6, 1), (rng.randrange(-500, 500), -1)]:
        for c in iset_cases(t, m):
            for fam in ("iset", "isett"):
                if isinstance(c, tuple):
                    a, b = c
                    h = Hist(None, fam)
                    for x in range(a[0], a[1] + 1, 1 if a[1] - a[0] < 50 else 37):
                        h.emit("adjoin", [h.newest(), t + x])
                    va = h.newest()
                    vb = 0
                    for x in range(b[0], b[1] + 1, 1 if b[1] - b[0] < 50 else 41):
                        h.emit("adjoin", [vb, t + x]); vb = h.newest()
                    h.emit("union", [va, vb]); h.emit("union", [vb, va]); h.emit("unionx", [va, vb])
                    h.emit("inter", [va, vb]); h.emit("diff", [va, vb]); h.emit("diff", [vb, va]); h.emit("inter", [vb, va])
                    # operate on the results: the trees intersection / difference leave behind must be usable
                    h.emit("adjoin", [h.newest(), t + b[0] - 1]); h.emit("delete", [h.newest() - 2, t + a[0]]); h.emit("union", [h.newest() - 3, va])
                    out.append((fam, h.prog))
                else:
                    out.append((fam, hist_of(fam, c)))
    # ---- SRFI 146 mapping (red-black tree): ascending / descending / zig-zag builds then deletions that meet every
    # rotate / balance / min+delete clause (double-black = "white" nodes come from deleting black leaves)
    for n in (3, 7, 8, 15, 16, 33):
        for ins in ("asc", "desc", "zigzag", "bitrev", "midout"):
            for dele in ("asc", "desc", "midout", "zigzag", "bitrev"):
                if n > 16 and (ins, dele) not in (("asc", "midout"), ("desc", "asc"), ("bitrev", "desc"), ("zigzag", "bitrev")):
                    continue
                keys = order_by(rng, list(range(0, 3 * n, 3)), ins)
                st = [("set", k, k % 7) for k in keys] + [("delete", k) for k in order_by(rng, keys, dele)]
                for fam in ("map", "hmap"):
                    out.append((fam, hist_of(fam, st)))
    # ---- HAMT: keys sharing 1..11 trie levels and complete collisions; deletion compresses the path again
    for x in (0, 5, 31):
        ks = [x] + [x + j * 32 ** k for k in (1, 2, 3, 6, 11) for j in (1, 2)] + [x + (1 << 59), x + (2 << 59), x + (3 << 59)]
        for ordn in ("asc", "desc", "zigzag"):
            keys = order_by(rng, ks, ordn)
            st = [("set", k, i) for i, k in enumerate(keys)] + [("ref", k) for k in keys] + [("delete", k) for k in order_by(rng, keys, "midout")]
            out.append(("hmap", hist_of("hmap", st)))
            out.append(("map", hist_of("map", st)))
    return out

DQ_PRED_OPS = [("filterp", 1), ("filterp", 2), ("removep", 1), ("removep", 2), ("parta", 1), ("partb", 1), ("takew", 1), ("dropw", 1),
               ("takewr", 2), ("dropwr", 2), ("spana", 1), ("spanb", 1), ("breaka", 2), ("breakb", 2), ("filtermap", 1), ("filtermap", 2)]


def deque_targeted(rng, thorough):
    """SRFI 134: a deque whose listing is 0..n-1 in increasing order, built by a route that fixes the internal split (all in
    the rear chain, all in the front chain, halves, ...), then EVERY threshold t = 0..n with the predicates (< y t) / (>= y t):
    among them are the ones that empty one chain and leave 1, 2, 3.. elements in the other, whatever the split is.  The
    observers run in the dump of every version (harness dq-marks)."""
    out = []
    sizes = (list(range(2, 9)) + [10, 13]) if not thorough else list(range(2, 31)) + [40, 64]
    for n in sizes:
        for route in ("addb", "addf", "ofn", "tab", "mixed", "remb", "remf", "rev"):
            h = Hist(None, "deque")
            if route == "addb":
                for i in range(n):
                    h.emit("addb", [h.newest(), i])
            elif route == "addf":
                for i in reversed(range(n)):
                    h.emit("addf", [h.newest(), i])
            elif route == "ofn":
                h.emit("ofn", [n, 0])
            elif route == "tab":
                h.emit("tab", [n, 0])
            elif route == "mixed":
                lo = hi = n // 2
                h.emit("addb", [h.newest(), lo]); hi += 1
                while hi - lo < n:
                    if (rng.random() < 0.5 and lo > 0) or hi >= n:
                        lo -= 1; h.emit("addf", [h.newest(), lo])
                    else:
                        h.emit("addb", [h.newest(), hi]); hi += 1
            elif route == "remb":
                k = rng.choice([1, 2, n])
                h.emit("ofn", [n + k, 0])
                for _ in range(k):
                    h.emit("remb", [h.newest()])
            elif route == "remf":
                k = rng.choice([1, 2, n])
                h.emit("ofn", [n + k, -k])
                for _ in range(k):
                    h.emit("remf", [h.newest()])
            else:
                h.emit("unfoldr", [n, 0]); h.emit("reverse", [h.newest()])
            built = h.newest()
            for t in range(0, n + 1):
                for op, k in DQ_PRED_OPS:
                    h.emit(op, [built, k, t])
            for i in range(0, n + 1):          # every cut position through every index-taking constructor
                for op in ("take", "drop", "taker", "dropr", "splita", "splitb"):
                    h.emit(op, [built, i])
            if n <= 8:
                for t in range(n):
                    h.emit("filterp", [built, 3, t]); h.emit("removep", [built, 4, t])
            h.emit("filterp", [built, 0, 0]); h.emit("removep", [built, 0, 1]); h.emit("appendmap", [built, 1, n // 2]); h.emit("zip", [built, h.newest()])
            out.append(("deque", h.prog))
    return out


def ra_targeted(rng, thorough):
    """SRFI 101: for every length 0-40 and around 2^k-1 one list per construction ROUTE (make-list, list, linear->ra, append of two
    halves, reverse, map, list-tail of a longer make-list, cdr of a longer list, cons onto a shorter make-list, list-set /
    list-ref/update results), then the binary map and equal? over pairs of versions built by DIFFERENT routes (the dump of every
    version adds: equal? / 2- and 3-ary map / 2-ary for-each with a cons chain and a make-list of the same length)."""
    out = []
    lens = list(range(0, 41)) + [62, 63, 64, 126, 127, 128, 255, 256]
    if thorough:
        lens += list(range(41, 140)) + [254, 257, 299]
    for n in lens:
        h = Hist(None, "ra")
        routes = []
        h.emit("mklist", [n, 1]); a = h.newest(); routes.append(a)
        h.emit("listn", [n, 0]); b = h.newest(); routes.append(b)
        h.emit("ofn", [n, 5]); routes.append(h.newest())
        k = n // 2
        h.emit("listn", [k, 0]); p = h.newest()
        h.emit("mklist", [n - k, 2]); q = h.newest()
        h.emit("append", [p, q]); routes.append(h.newest())
        h.emit("append", [q, p]); routes.append(h.newest())
        h.emit("reverse", [b]); routes.append(h.newest())
        h.emit("map1", [a]); routes.append(h.newest())
        j = rng.choice([1, 2, 3])
        if n + j < 300:
            h.emit("mklist", [n + j, 4]); h.emit("tail", [h.newest(), j]); routes.append(h.newest())
            h.emit("listn", [n + 2, 0]); h.emit("cdr", [h.newest()]); h.emit("cdr", [h.newest()]); routes.append(h.newest())
        if n >= 1:
            h.emit("mklist", [n - 1, 7]); h.emit("cons", [h.newest(), 3]); routes.append(h.newest())
            h.emit("set", [a, n - 1, 9]); routes.append(h.newest())
            h.emit("refupd", [a, n // 2]); routes.append(h.newest())
        if n >= 2:
            h.emit("mklist", [n - 2, 7]); h.emit("cons", [h.newest(), 3]); h.emit("cons", [h.newest(), 4]); routes.append(h.newest())
        pairs = [(u, v) for u in routes for v in routes if u != v]
        if n > 12:
            pairs = [(a, b), (b, a)] + rng.sample(pairs, 10)
        elif n > 6:
            pairs = [(a, b), (b, a)] + rng.sample(pairs, 30)
        for (u, v) in pairs:
            h.emit("map2", [u, v])
        for (u, v) in pairs[:12]:
            h.emit("equal", [u, v])
        h.emit("append3", [a, b, routes[-1]])
        out.append(("ra", h.prog))
    return out


def lq_targeted(rng):
    """SRFI 117: the last-pair pointer at its boundaries: queues of 0-4 elements built from either end, emptied from either end (the
    pointer must be reset on the way down and set again by the next add), set-list! / map! / unfold with a queue on empty and
    non-empty queues, append! / concatenate followed by mutation of the sources (no sharing may show)"""
    out = []
    for n in range(0, 5):
        for build in ("addb", "addf"):
            for rem in ("remb", "remf"):
                p = [(build, [0, i]) for i in range(n)]
                for _ in range(n + 1):
                    p += [(rem, [0]), ("back", [0]), ("front", [0])]
                p += [("addb", [0, 7]), ("addb", [0, 8]), ("remb", [0]), ("addf", [0, 9]), ("remb", [0]), ("remb", [0]), ("addb", [0, 5])]
                out.append(("lq", p))
        p = [("addb", [1, i]) for i in range(n)]
        p += [("map1x", [1]), ("addb", [1, 3]), ("unfq", [1, n, 10]), ("remb", [1]), ("addb", [1, 4]), ("unfrq", [1, n + 1, 20]), ("addb", [1, 6]),
              ("copy", [2, 1]), ("remb", [2]), ("addb", [1, 1]), ("appendx", [0, 1, 2]), ("addb", [1, 2]), ("addb", [2, 3]), ("remb", [0]),
              ("addb", [0, 4]), ("concat", [2, 0, 1]), ("remf", [0]), ("remb", [1]), ("addb", [2, 5]), ("removeall", [1]), ("addb", [1, 1]),
              ("setlist", [1, 1, 2, 3]), ("remb", [1]), ("remb", [1]), ("remb", [1]), ("addb", [1, 9]), ("unf", [2, n, 0]), ("addb", [2, 1]),
              ("unfr", [2, n, 0]), ("addb", [2, 1]), ("remb", [2])]
        out.append(("lq", p))
    return out


def hist_scheme(fam, prog):
    body = " ".join("(%s %s)" % (n, " ".join(map(str, a))) for n, a in prog)
    return "(run-lq '(%s))" % body if fam == "lq" else "(run-hist '%s '(%s))" % (fam, body)


def hist_model(fam, prog):
    return ("hist %s " % fam + " ".join(",".join([n] + list(map(str, a))) for n, a in prog)).rstrip()


def slice_history(fam, prog):
    """keep only the operations the last one (transitively) depends on; versions are renumbered"""
    if fam == "lq" or not prog:
        return prog
    kinds = {n: k for (n, k, _w) in FAMILIES[fam]}
    producer = {}                      # version number -> index of the op that made it
    nver = 1
    for i, (n, a) in enumerate(prog):
        if not is_query(fam, n):
            producer[nver] = i
            nver += 1
    need_ops, todo = set(), [len(prog) - 1]
    while todo:
        i = todo.pop()
        if i in need_ops:
            continue
        need_ops.add(i)
        n, a = prog[i]
        for k, v in zip(kinds[n], a):
            if k == "v" and v in producer:
                todo.append(producer[v])
    renum, out, nver, newn = {0: 0}, [], 1, 1
    for i, (n, a) in enumerate(prog):
        isv = not is_query(fam, n)
        if i in need_ops:
            out.append((n, [renum[v] if k == "v" else v for k, v in zip(kinds[n], a)]))
            if isv:
                renum[nver] = newn
                newn += 1
        if isv:
            nver += 1
    return out


def hist_replay(expr, expected):
    return ("(echo '(import (scheme base) (scheme write) (scheme cxr))'; cat /verif/harness/c18_hist.scm; cat <<'EOF'\n(write-string %s)\n(newline)\nEOF\n) "
            "> /tmp/c18-replay.scm; chibi-scheme /tmp/c18-replay.scm   # answers are separated by ';'; expected answer of the last operation: %s" % (expr, expected))


def par_run_cases(d, exprs, prelude, nproc=4):
    """scm.run_cases over interleaved quarters of the cases in 4 processes (results in the original order)"""
    from concurrent.futures import ThreadPoolExecutor
    parts = [list(range(k, len(exprs), nproc)) for k in range(nproc)]
    with ThreadPoolExecutor(nproc) as ex:
        outs = list(ex.map(lambda idx: scm.run_cases(d, [exprs[i] for i in idx], prelude_extra=prelude, chunk=200), parts))
    res = [None] * len(exprs)
    for idx, o in zip(parts, outs):
        for i, r in zip(idx, o):
            res[i] = r
    return res


KEY_FUNCS = {   # the functions whose every clause the shape-targeted histories are meant to reach
    "srfi/146/rbtree.scm": ["balance", "rotate", "min+delete", "tree-search", "redden", "blacken", "white->black", "tree-catenate", "tree-split"],
    "chibi/iset/constructors.scm": ["iset-adjoin-node!", "iset-should-merge-left?", "iset-should-merge-right?", "iset-merge-left!", "iset-merge-right!",
                                    "%iset-delete1!", "iset-delete1!", "iset-insert-left!", "iset-insert-right!", "iset-node-split", "iset-node-extract",
                                    "iset-squash-bits!", "iset-adjoin-node-left!", "iset-adjoin-node-right!", "iset-intersection2!", "iset-difference2!"],
    "chibi/iset/base.scm": ["iset-contains?"],
    "srfi/146/hamt.scm": None, "srfi/101.scm": None, "srfi/134.scm": None, "srfi/146/mapping.scm": None, "srfi/117/queue.scm": None,
}


def check_coverage(ctx, d, exprs, prelude):
    """measure (not judge) which clauses of the container code the histories of this run reach: the same histories are run
    once more against an instrumented copy of the libraries (gen/c18_cov.py)"""
    from gen import c18_cov
    from concurrent.futures import ThreadPoolExecutor
    covdir = os.path.join(B.SCRATCH, "C18-cov-lib")
    try:
        probes = c18_cov.build(os.path.join(d, "lib"), covdir)
    except Exception as e:                                         # a source the instrumenter cannot read: coverage unknown
        ctx.note("clause coverage probe could not instrument the sources: %r" % (e,))
        return
    env = {"CHIBI_MODULE_PATH": covdir + ":" + os.path.join(d, "lib")}
    nproc = 4
    parts = [[exprs[i] for i in range(k, len(exprs), nproc)] + ["(cov-dump)"] for k in range(nproc)]
    with ThreadPoolExecutor(nproc) as ex:
        outs = list(ex.map(lambda es: scm.run_cases(d, es, prelude_extra=prelude + c18_cov.DUMP, chunk=100000, extra_env=env), parts))
    hits = set()
    for o in outs:
        last = o[-1] or ""
        if not last.startswith("("):
            ctx.note("clause coverage probe: an instrumented run did not finish (%s)" % last[:200])
            continue
        hits.update(int(x) for x in last.strip("()").split())
    table, unreached_key = {}, []
    for i, (f, fn, form, k, line) in enumerate(probes):
        t = table.setdefault(f, dict(clauses=0, reached=0))
        t["clauses"] += 1
        t["reached"] += i in hits
        keys = KEY_FUNCS.get(f)
        if keys is not None and fn in keys:
            t2 = table.setdefault(f + ":" + fn, dict(clauses=0, reached=0))
            t2["clauses"] += 1
            t2["reached"] += i in hits
            if i not in hits:
                unreached_key.append("%s:%d %s %s#%d" % (f, line, fn, form, k))
    ctx.cov["clause_coverage"] = dict(rule="one counter per cond/case/tree-match/when/unless clause and per if branch inside the top-level "
                                           "procedures of the listed files; reached = executed at least once by this run's histories",
                                      per_file_and_function=table, unreached_in_key_functions=unreached_key)
    tot = lambda f: "%d/%d" % (table[f]["reached"], table[f]["clauses"]) if f in table else "-"
    ctx.note("measured clause coverage of the history tier: rbtree.scm %s (rotate %s, balance %s, min+delete %s, tree-search %s), iset constructors %s "
             "(iset-adjoin-node! %s), hamt.scm %s, 101.scm %s, 134.scm %s; unreached clauses of the key functions: %s"
             % (tot("srfi/146/rbtree.scm"), tot("srfi/146/rbtree.scm:rotate"), tot("srfi/146/rbtree.scm:balance"), tot("srfi/146/rbtree.scm:min+delete"),
                tot("srfi/146/rbtree.scm:tree-search"), tot("chibi/iset/constructors.scm"), tot("chibi/iset/constructors.scm:iset-adjoin-node!"),
                tot("srfi/146/hamt.scm"), tot("srfi/101.scm"), tot("srfi/134.scm"), "; ".join(unreached_key) or "none"))


def strip_shapes(t):
    """an isett / deque / ra answer is <shape>/<listing><marks>: drop the shape"""
    return re.sub(r"\([^;|/]*/", "", t)


# families whose versions are the Coq MODEL's data structure: name of the broken-correspondence entry, what the shape is, and the
# family name under which the driver runs the same history on the abstract list / set oracle
TIED = {"isett": ("inner:iset-tree-shape", "tree", "coq/C18/ISet.v", "iset"),
        "map": ("inner:rbtree-shape", "red-black tree", "coq/C18/RBTree.v", "mapo"),
        "lq": ("inner:list-queue-record", "record", "coq/C18/LQueue.v", "lqo"),
        "deque": ("inner:ideque-record", "record (lenf:f:lenr:r)", "coq/C18/Deque.v", "dequeo"),
        "ra": ("inner:ralist-tree-sizes", "list of tree sizes", "coq/C18/RaList.v", "rao")}
FOREACH_SIG = "hist:ra:for-each-nary-order"


def check_histories(ctx, d, exe, corpus_hist=()):
    rng = ctx.rng
    prelude = open(os.path.join(HERE, "..", "harness", "c18_hist.scm")).read()
    import json as _json
    try:
        known_sigs = {f.get("sig") for f in _json.load(open(os.path.join(HERE, "..", "known_findings.json"))).get("findings", []) if f.get("property") == "C18"}
    except Exception:
        known_sigs = set()
    # F-C18-15 (notes/C18.md): ra:for-each with two or more lists runs tree-map/n, whose make-node call evaluates its arguments
    # right to left, so the procedure is applied in REVERSE order inside every tree.  Probe it; the order mark of the ra dumps is
    # on when the repair (fixes/C18-ralist-for-each-nary-order.patch) is present
    fe_expr = "(let ((acc '())) (ra:for-each (lambda (x y) (set! acc (cons (+ x y) acc))) (ra:list 1 2 3) (ra:list 10 20 30)) (reverse acc))"
    fe = scm.run_cases(d, [fe_expr], prelude_extra="(import (prefix (srfi 101) ra:))")[0]
    if fe != "(11 22 33)":
        prelude += "\n(set! check-foreach2 #f)\n"
        if FOREACH_SIG in known_sigs or os.environ.get("C18_FOREACH") == "1":
            ctx.violation(FOREACH_SIG, input=fe_expr, expected="(11 22 33)", observed=fe, why="SRFI 101 for-each with several lists must call the procedure "
                          "on the elements in order from the first to the last", replay=replay_text("(import (prefix (srfi 101) ra:))", fe_expr))
        else:
            ctx.assume("the call ORDER of (srfi 101) for-each with two or more lists is NOT checked: on this tree it is reversed inside every tree of the "
                       "skew-binary forest (genuine defect F-C18-15, notes/C18.md; repair fixes/C18-ralist-for-each-nary-order.patch); the mark is "
                       "checked once the repair is present, or reported as a known finding once known_findings.json lists " + FOREACH_SIG)
    per = 30 if not ctx.thorough else 400
    items = list(corpus_hist)
    ntarget = 0
    for it in targeted_histories(rng) + deque_targeted(rng, ctx.thorough) + ra_targeted(rng, ctx.thorough) + lq_targeted(rng):
        items.append(it); ntarget += 1
    import json as _json
    try:
        kf = _json.load(open(os.path.join(HERE, "..", "known_findings.json")))
        omap_on = any(f.get("sig") == OMAP_SIG and f.get("property") == "C18" for f in kf.get("findings", [])) or os.environ.get("C18_OMAP") == "1"
    except Exception:
        omap_on = os.environ.get("C18_OMAP") == "1"
    if not omap_on:
        ctx.assume("mapping-range<,<=,>,>= / mapping-catenate (tree-split, tree-catenate of srfi/146/rbtree.scm) are NOT exercised: they carry the genuine "
                   "defect F-C18-14 (notes/C18.md (e)14; minimal input there); the 'omap' history family runs once known_findings.json lists " + OMAP_SIG +
                   " (or with C18_OMAP=1) and then reports it as a known finding")
    for fam in FAMILIES:
        if fam == "omap" and not omap_on:
            continue
        for k in range(per):
            length = rng.choice([3, 8, 20, 50, 100, 200]) if k % 4 else 200
            items.append((fam, gen_history(rng, fam, length)))
        if fam in TREE_FAMS:
            # iset / isett get the larger share: their node width (128) needs long growth walks
            nb = (per if fam not in ("iset", "isett") else 2 * per)
            for k in range(nb):
                items.append((fam, gen_build_history(rng, fam, rng.choice([30, 60, 120, 200]))))
        if fam in ("ra", "deque"):
            for k in range(per):
                items.append((fam, gen_seq_build_history(rng, fam, rng.choice([40, 100, 200, 300]))))
    ctx.note("container histories: %d shape-targeted, %d in all" % (ntarget, len(items)))
    exprs = [hist_scheme(f, p) for f, p in items]
    reqs = [hist_model(f, p) for f, p in items]
    import time as _t
    t0 = _t.time()
    spec = ctx.run_model(exe, reqs)
    t1 = _t.time()
    # the model's trees (coq/C18/ISet.v) list exactly the set the abstract oracle holds (theorems iset_*_refines_set)
    # likewise the model's deques / skew-binary lists list exactly what the list oracle holds (dq_*_refine_lists, ra_*_canon)
    tre = [i for i, (f, _p) in enumerate(items) if f in TIED]
    orc = ctx.run_model(exe, [hist_model(TIED[items[i][0]][3], items[i][1]) for i in tre])
    bad_orc = set()
    for i, o in zip(tre, orc):
        if strip_shapes(spec[i]) != o and items[i][0] not in bad_orc:
            bad_orc.add(items[i][0])
            ctx.broken("model:%s-vs-oracle" % items[i][0], "the extracted %s model and the abstract oracle differ on %s: %s vs %s"
                       % (TIED[items[i][0]][2], reqs[i][:1500], strip_shapes(spec[i])[:300], o[:300]))
    impl = par_run_cases(d, exprs, prelude)
    ctx.note("history wall time: model %.1f s, implementation %.1f s" % (t1 - t0, _t.time() - t1))
    seen = set()
    nerr = {}
    for (fam, prog), e, s, out in zip(items, exprs, spec, impl):
        ctx.count(len(prog), key=("hist", e), nontrivial=len(prog) >= 3)
        ctx.cov["traces_validated_against_impl"] += 1
        if s.startswith("ERR"):
            ctx.broken("harness:history-model", "the model driver failed on a %s history: %s" % (fam, s[:300]))
            continue
        got = out[1:-1].replace('\\"', '"') if out and out.startswith('"') else out      # run_cases writes the string
        if got == s:
            continue
        if fam in TIED and got is not None and strip_shapes(got) == strip_shapes(s):
            # the listing, every observer mark and every query agree, only the representation differs from the model's: the
            # theorems about the Coq model no longer speak about this code (a harmless rewrite can cause this)
            so, go = s.split("|")[0].split(";"), got.split("|")[0].split(";")
            k = next((i for i in range(min(len(so), len(go))) if so[i] != go[i]), 0)
            bname, what, mfile, _o = TIED[fam]
            if bname not in seen:
                seen.add(bname)
                ctx.broken(bname, "after operation %d %s of %s the real %s is %s but the model's (%s) is %s; contents and observers agree"
                           % (k, prog[k] if k < len(prog) else "?", hist_scheme(fam, prog[:k + 1])[:1500], what, go[k][:400], mfile, so[k][:400]))
            continue
        if got is None or not got.endswith("]") and ("ERR" in got or "CRASH" in got or "TIMEOUT" in got):
            # the history died: find the shortest prefix that dies (an operation only depends on earlier versions)
            nerr[fam] = nerr.get(fam, 0) + 1
            if nerr[fam] > 3 or (fam == "omap" and OMAP_SIG in seen):   # bisecting costs a process per step: only for the first few per library
                if fam == "omap":
                    continue
                if "hist:%s:error" % fam not in seen:
                    seen.add("hist:%s:error" % fam)
                    ctx.violation("hist:%s:error" % fam, input=e[:4000], expected=s[:300], observed=got, why="the history raised an error / crashed",
                                  replay=hist_replay(e, "no error"))
                continue
            lo, hi = 0, len(prog)          # prefix of length lo survives, of length hi dies
            while hi - lo > 1:
                mid = (lo + hi) // 2
                r = scm.run_cases(d, [hist_scheme(fam, prog[:mid])], prelude_extra=prelude)[0]
                if r is not None and r.startswith('"'):
                    lo = mid
                else:
                    hi = mid
            cut = prog[:hi]
            sig = "hist:%s:%s:error" % (fam, cut[-1][0]) if fam != "omap" else OMAP_SIG
            if sig not in seen:
                seen.add(sig)
                ctx.violation(sig, input=hist_scheme(fam, cut)[:4000], expected="answer " + s.split("|")[0].split(";")[hi - 1][:300], observed=got,
                              why="operation %d %s raised an error / crashed" % (hi - 1, cut[-1]), replay=hist_replay(hist_scheme(fam, cut), "no error"))
            continue
        # locate the first operation whose answer differs
        so, go = s.split("|")[0].split(";"), (got or "").split("|")[0].split(";")
        k = next((i for i in range(len(prog)) if i >= len(go) or i >= len(so) or so[i] != go[i]), None)
        if k is None:
            sig, cut, why = "hist:%s:persistence" % fam, prog, "an older version changed: the final re-dump of all versions differs"
            exp_s, got_s = s.split("|")[-1][:400], (got or "").split("|")[-1][:400]
        else:
            sig, cut, why = "hist:%s:%s" % (fam, prog[k][0]), prog[:k + 1], "answer of operation %d %s differs" % (k, prog[k])
            if fam == "omap":
                sig = OMAP_SIG
            exp_s, got_s = so[k][:400], (go[k] if k < len(go) else (got or "")[:300])
        if sig in seen:
            continue
        seen.add(sig)
        if k is not None:
            # minimise: dependency slice of the failing operation, kept only if it still fails the same way
            sl = slice_history(fam, cut)
            if len(sl) < len(cut):
                ms = ctx.run_model(exe, [hist_model(fam, sl)])[0].split("|")[0].split(";")
                r = scm.run_cases(d, [hist_scheme(fam, sl)], prelude_extra=prelude)[0] or ""
                mi = r[1:-1].split("|")[0].split(";") if r.startswith('"') else None
                if mi is not None and len(mi) >= len(sl) and ms[len(sl) - 1] != mi[len(sl) - 1]:
                    cut, exp_s, got_s = sl, ms[len(sl) - 1][:400], mi[len(sl) - 1][:400]
                    why = "answer of the last operation %s differs (history sliced to its dependencies)" % (sl[-1],)
        ce = hist_scheme(fam, cut)
        ctx.violation(sig, input=ce[:4000], expected=exp_s, observed=got_s, why=why, replay=hist_replay(ce, exp_s))
    # the probe re-runs the histories on instrumented libraries: every 6th of the (repetitive) ra / deque histories and two
    # thirds of the random / build histories of the other families (all corpus + targeted ones) are enough for a measurement
    cov_exprs = [e for i, ((f, _p), e) in enumerate(zip(items, exprs)) if (f not in ("ra", "deque") and (i % 3 != 2 or i < 600)) or i % 6 == 0]
    t2 = _t.time()
    check_coverage(ctx, d, cov_exprs if not ctx.thorough else cov_exprs[::5], prelude)   # thorough: every 5th history
    ctx.note("coverage probe wall time: %.1f s" % (_t.time() - t2))
    ctx.sample(dict(kind="history", expr=exprs[1][:300], spec=spec[1][:300], impl=(impl[1] or "")[:300]))


def check_corpus(ctx, d):
    """minimised past disagreements (corpus/C18/cases.json): returns the corpus histories for check_histories"""
    import json
    path = os.path.join(HERE, "..", "corpus", "C18", "cases.json")
    if not os.path.exists(path):
        return []
    c = json.load(open(path))
    ex = c.get("exprs", [])
    outs = scm.run_cases(d, [e["expr"] for e in ex], prelude_extra=SORT_PRELUDE)
    for e, o in zip(ex, outs):
        ctx.count(1, key=("corpus", e["expr"]), nontrivial=True)
        if o != e["expected"]:
            ctx.violation(e["sig"], input=e["expr"], expected=e["expected"], observed=o, replay=replay_text(SORT_PRELUDE, e["expr"]))
    return [(h["family"], [(op[0], list(op[1:])) for op in h["prog"]]) for h in c.get("histories", [])]


def run(ctx):
    ctx.cov["rule"] = ("sorts: (procedure x ordering x container x key pattern) cases; every length 0-40 for every procedure, every ordering at the "
                       "lengths of the hand-written 1/2/3-element cases and first merges, seeded lengths up to 2000; keys drawn with heavy "
                       "duplication in sorted/reversed/organ-pipe/constant/sawtooth/nearly-sorted orders; elements tagged with their position "
                       "(pairs, depth-limited vectors) or distinguishable equal numbers (exact/inexact/ratio/bignum); a case is non-trivial "
                       "when it has >= 2 elements and distinct by (procedure, ordering, container, elements); merges: all size pairs 0-6 x 0-6 "
                       "plus seeded sizes with ties forced across the two inputs; containers: seeded operation histories (3-200 ops, one "
                       "evaluation per operation) per library over earlier versions (70% recent, 30% any older), every answer compared with the "
                       "extracted abstract model and all versions re-dumped at the end; a history is distinct by its text; deques / ra-lists: every "
                       "version's dump also applies every observer (deque) / the n-ary map, for-each and equal? with same-length lists built by "
                       "other routes (ra-list) and carries the real representation; targeted: sorted deques of 2-16 elements built by 8 routes x every "
                       "threshold predicate through every predicate-taking constructor, ra-lists of every length 0-40 and around 2^k-1 by 12 routes")
    from gen import c18_iset
    c18_iset.regen(ctx)            # (G) coq/Gen/C18_ISetGuards.v from lib/chibi/iset/constructors.scm
    from gen import c18_ralist
    c18_ralist.regen(ctx)          # (G) coq/Gen/C18_SeqLeaves.v from lib/srfi/101.scm (largest-skew-binary ...) and 134.scm (check)
    from gen import c18_rbtree
    c18_rbtree.regen(ctx)          # (G) coq/Gen/C18_RBTables.v from lib/srfi/146/rbtree.scm (the tree-match clause tables)
    ctx.coq_obligations("Properties_C18")
    d = ctx.build("default")
    exe = ctx.extract("C18")
    if exe is None:
        return
    corpus_hist = check_corpus(ctx, d)
    check_sorts(ctx, d, exe)
    check_merges(ctx, d, exe)
    check_predicates(ctx, d, exe)
    check_histories(ctx, d, exe, corpus_hist)
    ctx.assume("less/key procedures that raise, capture continuations or mutate the sequence are outside the model")
    ctx.assume("inconsistent orderings (NaN, non-transitive less) are outside the property's premise and are not generated")
    ctx.assume("of the container implementations, (chibi iset) adjoin/delete/union/intersection/difference (coq/C18/ISet.v, ISetInter.v), SRFI 134 "
               "(coq/C18/Deque.v), SRFI 101 (coq/C18/RaList.v), the SRFI 146 red-black tree with the mapping procedures on top (coq/C18/RBTree.v) and SRFI 117 "
               "list queues (coq/C18/LQueue.v, store-passing over a heap of pairs) are modelled and tied operation by operation (real representation / "
               "representation invariant vs the model's); STILL OUTSIDE the Coq model, compared differentially with an abstract oracle whose laws are "
               "proved: SRFI 146 hashmaps (the HAMT, lib/srfi/146/hamt*.scm), SRFI 113 sets/bags (over SRFI 69/125 hash tables: C15 covers the tables), "
               "the SRFI 1/133 subset, mapping-range*/split/catenate (tree-split / tree-catenate: known finding F-C18-14, stated as theorem "
               "rbtree_catenate_keeps_invariant_refuted), iset cursors / rank / select / optimize; operations that 'are an error' per the SRFI (empty "
               "deque front, index out of range, n-ary map over lists of different lengths, mutating queues that share pairs) are not generated")
    ctx.note("container implementations that remain OUTSIDE the Coq model (black boxes with differential ties only): SRFI 146 hashmaps = the HAMT "
             "(lib/srfi/146/hamt.scm, hamt-map.scm, hamt-misc.scm, vector-edit.scm; measured clause coverage in coverage.clause_coverage), SRFI 113 "
             "sets and bags (lib/srfi/113/*.scm over hash tables), the SRFI 1 / SRFI 133 subset, and tree-split / tree-catenate of the red-black tree "
             "(known finding F-C18-14).  Inside the model since round 4: SRFI 146 red-black tree + mapping procedures, SRFI 117 list queues, (chibi iset) "
             "intersection / difference")
    ctx.assume("sexp_object_compare (the built-in ordering) is exercised on numbers, depth-limited vectors and lists of integers but not modelled")
    ctx.trust("harness/c18_hist.scm and the history interpreter in ocaml/C18_driver.ml (one spec call per operation, same index guards on both sides)")
