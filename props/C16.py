"""C16 — weak references and finalizers track reachability exactly.
   (T) coq/Properties_C16.v: the model of the (repaired) collector marks / retains exactly the SPEC's live set;
       ephemeron key/value/broken theorems; descriptor theorems.
   (K-inner) heap dumps around real collections (CHIBI_VERIF_DUMP) replayed through the extracted model:
       same retained set, same weak slots / extra slots / brokenp.
   (K-outer) histories (keys, pairs, ephemerons, file ports, filenos, drops, explicit closes, collections)
       run by harness/c16_hist.scm on the real binary (default and asan variants) and by the extracted
       history machine (coq/C16/History.v): broken flag, key identity, value identity, open descriptors.
   plus a loop dropping unclosed ports under a small RLIMIT_NOFILE.
   round 2: harness/embed_c16.c (bare-context C embedding, address-controlled layouts: layout / frag families, outer + dumps);
   descriptor operations Y U T R Q W XI XO Z in the history language; (G) control skeleton of sexp_mark_weak_extras and the
   binding of close-file-descriptor.
   round 3: immediates as keys / values (I), fresh contexts (N: the gate of the weak pass), ports with the shutdown flag (PS WS) on
   pipes and socket pairs (S), reference-count scenarios, raw-integer closes against the number-level OS model (YN, nhist),
   descriptor exhaustion with every kind of dropped port; (G) whole-body pins of the finalisers, the weak-reset walk, the gate
   and the open-retry loops."""
import os, re, resource, subprocess, tempfile
from vlib import build as B

HERE = os.path.dirname(os.path.abspath(__file__))
HIST_SCM = os.path.join(HERE, "..", "harness", "c16_hist.scm")


# ------------------------------------------------------------------------------------------------ histories
def gen_random(rng, nslots, n):
    ops = []
    for _ in range(n):
        r = rng.random()
        s = lambda: rng.randrange(nslots)
        if r < 0.17:
            ops.append("K,%d" % s())
        elif r < 0.20:
            ops.append("I,%d,%d" % (s(), rng.randrange(1, 6)))      # an immediate other than #f: as key never broken, as value reset with the key
        elif r < 0.30:
            ops.append("C,%d,%d,%d" % (s(), s(), s()))
        elif r < 0.52:
            ops.append("E,%d,%d,%d" % (s(), s(), s()))
        elif r < 0.70:
            ops.append("D,%d" % s())
        elif r < 0.82:
            ops.append("G")
        elif r < 0.86:
            ops.append("O,%d" % s())
        elif r < 0.90:
            ops.append("F,%d" % s())
        elif r < 0.95:
            ops.append("P,%d,%d" % (s(), s()))
        else:
            ops.append("X,%d" % s())
    ops.append("G")
    return ops


def gen_chain(rng, n, reverse):
    """keys k0..kn; ephemeron j: key kj, value k(j+1) (sometimes wrapped in a pair); k1..kn dropped:
    all are alive only through the chain hanging off k0; then k0 is dropped."""
    nslots = n + 3
    ops = ["K,%d" % i for i in range(n + 1)]
    order = list(range(n))
    if reverse:
        order.reverse()
    elif rng.random() < 0.5:
        rng.shuffle(order)
    for j in order:
        if rng.random() < 0.4:
            ops.append("C,%d,%d,%d" % (n + 2, j + 1, rng.choice([j + 1, n + 2])))
            ops.append("E,%d,%d,%d" % (n + 1, j, n + 2))
        else:
            ops.append("E,%d,%d,%d" % (n + 1, j, j + 1))
    ops += ["D,%d" % (n + 1), "D,%d" % (n + 2)]
    if rng.random() < 0.5:
        ops.append("G")
    ops += ["D,%d" % i for i in range(1, n + 1)]
    ops.append("G")
    if rng.random() < 0.5:
        ops.append("G")
    ops.append("D,0")
    ops.append("G")
    return nslots, ops


def gen_selfref(rng):
    """the value references the key (directly or through another ephemeron): must still be broken"""
    ops = ["K,0", "K,1", "C,2,1,0", "E,3,0,2", "D,2", "D,1"]
    if rng.random() < 0.5:
        ops += ["K,4", "E,5,4,0", "E,3,0,4", "D,4"]      # cycle of two ephemerons: each value is the other's key
    if rng.random() < 0.5:
        ops.append("G")
    ops += ["D,0", "G", "G"]
    return 6, ops


def gen_ports(rng):
    """ports / filenos held, dropped, closed explicitly, shared filenos, ports as ephemeron values"""
    nslots = 6
    ops = []
    for _ in range(rng.randrange(6, 30)):
        r = rng.random()
        s = lambda: rng.randrange(nslots)
        if r < 0.18:
            ops.append("O,%d" % s())
        elif r < 0.36:
            ops.append("F,%d" % s())
        elif r < 0.56:
            ops.append("P,%d,%d" % (s(), s()))
        elif r < 0.68:
            ops.append("X,%d" % s())
        elif r < 0.82:
            ops.append("D,%d" % s())
        elif r < 0.86:
            ops.append("K,%d" % s())
        elif r < 0.91:
            ops.append("E,%d,%d,%d" % (s(), s(), s()))
        else:
            ops.append("G")
    ops.append("G")
    ops += ["D,%d" % i for i in range(nslots)]
    ops.append("G")
    return nslots, ops


def gen_fds(rng):
    """every explicit way of closing a descriptor, followed by reuse of its number and collections: filenos from open /
    open-pipe / duplicate-file-descriptor, input and output ports over them (shared, counted), close-port /
    close-input-port / close-output-port, close-file-descriptor on the fileno object, duplicate-file-descriptor-to /
    renumber-file-descriptor, drops and collections; after a close the next opens reuse the number (lowest free), and the
    new owner must survive every later collection.  Operations outside the model's domain (on a fileno that is already
    closed) are removed afterwards by legalise()."""
    nslots = 8
    ops = []
    pipes = []
    s = lambda: rng.randrange(nslots)
    for _ in range(rng.randrange(8, 36)):
        r = rng.random()
        if r < 0.12:
            ops.append("F,%d" % s())
        elif r < 0.24:
            i, j = rng.sample(range(nslots), 2)
            ops.append("Q,%d,%d" % (i, j))
            if rng.random() < 0.5:        # ports on both ends, then talk through the pipe
                a, b = rng.sample([x for x in range(nslots) if x not in (i, j)], 2)
                ops += ["P,%d,%d" % (a, i), "W,%d,%d" % (b, j), "Z,%d,%d" % (a, b)]
                if rng.random() < 0.5:
                    ops += ["D,%d" % i, "D,%d" % j]
                pipes.append((a, b))
        elif r < 0.34:
            ops.append("%s,%d,%d" % (rng.choice("PW"), s(), s()))
        elif r < 0.50:
            ops.append("Y,%d" % s())
        elif r < 0.60:
            ops.append("%s,%d" % (rng.choice(["X", "XI", "XO"]), s()))
        elif r < 0.66:
            ops.append("U,%d,%d" % (s(), s()))
        elif r < 0.70:
            ops.append("%s,%d,%d" % (rng.choice("TR"), s(), s()))
        elif r < 0.84:
            ops.append("D,%d" % s())
        elif r < 0.88:
            ops.append("O,%d" % s())
        elif r < 0.92 and pipes:
            ops.append("Z,%d,%d" % rng.choice(pipes))
        else:
            ops.append("G")
    ops.append("G")
    for a, b in pipes:
        ops.append("Z,%d,%d" % (a, b))
    ops += ["D,%d" % i for i in range(nslots) if rng.random() < 0.7]
    ops.append("G")
    return nslots, ops


def gen_fd_scenarios(rng):
    """scripted: a descriptor closed explicitly in every way, its number reused by a pipe with ports on both ends, the old
    owner dropped, collections, and the pipe must still carry data"""
    hs = []
    closers = [["Y,0", "Y,1"],                                   # close-file-descriptor on the fileno objects
               ["P,2,0", "W,3,1", "X,2", "XO,3"],                # ports over them closed: count -> 0 closes the fileno
               ["P,2,0", "P,3,0", "W,4,1", "XI,2", "Y,0", "X,4"],  # shared fileno closed by hand under a second port
               ["U,2,0", "Y,0", "Y,2", "Y,1"],                   # a duplicate, all closed by hand
               ["P,2,0", "W,3,1", "Y,0", "Y,1", "X,2", "X,3"],   # closed by hand under open ports, the ports closed afterwards
               ["T,0,1", "Y,0", "Y,1"],                          # dup2 over the other end, both closed by hand
               ["R,0,1", "Y,1", "Y,0"]]
    # (before the number is reused, after it has been reused)
    closers = [(c, []) for c in closers] + [
        (["P,2,0", "W,3,1", "Y,0", "Y,1"], ["X,2", "XO,3"]),     # closed by hand under open ports; the ports are closed after the reuse
        (["P,2,0", "W,3,1", "Y,0", "Y,1"], ["D,2", "D,3", "G"]),  # ... or dropped and finalised after the reuse
        (["P,2,0", "P,3,0", "X,2", "Y,0", "Y,1"], ["XI,3"])]
    for c, late in closers:
        for drop_first in (False, True):
            for gcs in (1, 3):
                ops = ["Q,0,1"] + c
                drops = ["D,%d" % i for i in range(5)] if not late else ["D,0", "D,1"]
                if drop_first:
                    ops += drops
                ops += ["Q,5,6", "P,7,5", "W,8,6", "Z,7,8"] + late
                if not drop_first:
                    ops += drops
                ops += ["G", "Z,7,8"] * gcs
                ops += ["D,5", "D,6", "G", "Z,7,8", "X,7", "G", "D,8", "G"]
                hs.append((9, ops, "fdscript"))
    return hs


def flag_ports(rng, ops, prob=0.5):
    """open some of the ports over filenos with the shutdown flag (open-input-file-descriptor f #t, what (chibi net) open-net-io
    does): sexp_finalize_port then calls shutdown(2) too, which must not change who owns the descriptor.  Only used on pipes
    and plain files, where shutdown(2) is a no-op (ENOTSOCK) and the data-transfer observation Z keeps its meaning."""
    return [("PS" + o[1:] if o.startswith("P,") else "WS" + o[1:] if o.startswith("W,") else o) if rng.random() < prob else o for o in ops]


def gen_shutdown_scenarios(rng, embed):
    """scripted: TWO ports on one fileno, both opened with the shutdown flag; one of them is closed explicitly or dropped and
    collected while the other (and the fileno object) stays in use: the survivor must still transfer data, the number must
    still name the same socket / pipe, also after the number would have been reused (F) and after more collections; then the
    survivor is closed too and the descriptor must be released (count reached 0).  Socket pairs (shutdown(2) really shuts one
    direction down: the other direction is the one observed) and pipes (two readers on the read end, two writers on the write end)."""
    hs = []
    close1 = ["X,%d", "D,%d;G"] if embed else ["X,%d", "D,%d;G", "XI,%d", "XO,%d"]
    for c in close1:
        for drop_fileno in (False, True):
            for peer_flag in (False, True):
                pin, pout = ("PS", "WS") if peer_flag else ("P", "W")
                # socket pair: A = R0 with inA = R2, outA = R3 (flagged); B = R1 with inB = R4, outB = R5
                for victim, z in ((3, "Z,2,5"), (2, "Z,4,3")):
                    if ("XI" in c and victim == 3) or ("XO" in c and victim == 2):
                        continue
                    ops = ["S,0,1", "PS,2,0", "WS,3,0", "%s,4,1" % pin, "%s,5,1" % pout, "Z,2,5", "Z,4,3"]
                    if drop_fileno:
                        ops.append("D,0")
                    ops += (c % victim).split(";") + [z, "G", z, "F,6", z, "G", z, "D,6", "G", z]
                    ops += ["X,%d" % (5 - victim), "G", "D,1", "D,4", "D,5", "G"]
                    hs.append((8, ops, "shutdown-socket"))
                # pipe: read end R0 with two flagged readers R2, R3; write end R1 with two flagged writers R4, R5
                for victim, z, other in ((2, "Z,3,4", 3), (4, "Z,2,5", 5)):
                    if ("XI" in c and victim == 4) or ("XO" in c and victim == 2):
                        continue
                    ops = ["Q,0,1", "PS,2,0", "PS,3,0", "WS,4,1", "WS,5,1", "Z,2,4", "Z,3,5"]
                    if drop_fileno:
                        ops += ["D,0", "D,1"]
                    ops += (c % victim).split(";") + [z, "G", z, "F,6", z, "G", z, "D,6", "G", z]
                    ops += ["X,%d" % other, "G"] + ["D,%d" % i for i in range(6)] + ["G"]
                    hs.append((8, ops, "shutdown-pipe"))
    return hs


IMM_CODES = [1, 2, 3, 4, 5]


def gen_imm(rng):
    """bare-context embedding, FRESH context (op N): the history's first ephemerons are the first ephemerons of the context, so
    whatever switches the collector's weak pass on (SEXP_G_WEAK_OBJECTS_PRESENT) has to be switched on by THEM.  Classes:
    A every ephemeron has a heap key and an immediate value (fixnum, #t, char, '(), #f): a dropped key must be reported broken and
      read #f, the value must read #f; a held key keeps key and value;
    B every ephemeron has an immediate key and a heap value: never broken, the value (held by nothing else) must be retained;
    C a mixture, in random order, immediate/immediate included."""
    cls = rng.choice("AAABBC")
    n = rng.randrange(1, 5)
    ns = 3 * n + 2
    ops = ["N"]
    keys, vals = [], []
    for j in range(n):
        k, v, e = 3 * j, 3 * j + 1, 3 * j + 2
        kind = cls if cls != "C" else rng.choice("ABI")
        if kind == "A":
            ops.append("K,%d" % k)
            if rng.random() < 0.8:
                ops.append("I,%d,%d" % (v, rng.choice(IMM_CODES)))
            keys.append(k)
        elif kind == "B":
            if rng.random() < 0.8:
                ops.append("I,%d,%d" % (k, rng.choice(IMM_CODES)))
            ops.append("K,%d" % v if rng.random() < 0.6 else "C,%d,%d,%d" % (v, ns - 1, ns - 1))
            vals.append(v)
        else:
            ops += ["I,%d,%d" % (k, rng.choice(IMM_CODES)), "I,%d,%d" % (v, rng.choice(IMM_CODES))]
        ops.append("E,%d,%d,%d" % (e, k, v))
        if rng.random() < 0.5:
            ops.append("D,%d" % e)           # the ephemeron itself is held by the observer only
    if rng.random() < 0.3:
        ops.append("G")
    drop = [x for x in keys + vals if rng.random() < 0.7]
    ops += ["D,%d" % x for x in drop] + ["G"]
    if rng.random() < 0.5:
        ops.append("G")
    ops += ["D,%d" % x for x in keys + vals if x not in drop] + ["G"]
    return (ns, ops, "imm" + cls)


def gen_auto(rng, j):
    """round 4, bare-context embedding: AUTOMATIC collections -- `AK / AC / AE` = the allocation inside the operation finds no free
    chunk (the harness fills the heap with garbage of the same size first) and sexp_alloc collects there, inside
    sexp_make_ephemeron for AE, with the operands held by the slots only.  Model: AutoGc.run_sched (request ahist), pinned gate
    protocol.  Classes: 0 the collection inside make-ephemeron meets NO live ephemeron (fresh context, or the earlier ones dead /
    already collected), then the key is dropped and collected: must be broken; 1 another ephemeron (live or dead key) is alive at
    that collection, optionally with a dropped stream port (or one held only as an ephemeron's value); 2 random heap histories with a random subset of the allocations triggering a collection."""
    cls = j % 3
    ops = ["N"] if rng.random() < 0.5 else []
    if cls == 0:
        ops += rng.choice([[], ["K,5", "K,6", "E,7,5,6", "D,7", "D,5"], ["K,5", "K,6", "E,7,5,6", "D,7", "D,5", "G"],
                           ["K,5", "I,6,1", "E,7,5,6", "D,5", "G", "D,7"], ["K,5", "AK,6", "AE,7,5,6", "D,7", "D,5", "D,6"]])
        ops += ["K,0", rng.choice(["K,1", "C,1,0,0", "C,1,9,9", "I,1,%d" % rng.choice(IMM_CODES)]), "AE,2,0,1"]
        ops += rng.choice([["D,0", "G"], ["D,0", "G", "G"], ["G", "D,0", "G"], ["D,0", "AK,3", "G"], ["D,0", "D,1", "G"],
                           ["D,2", "D,0", "G"], ["D,0", "AC,3,1,1", "G"]])
    elif cls == 1:
        # ... and a stream port dropped before it (must be finalised by the automatic collection), or held only as the value
        ops += rng.choice([[], ["O,9", "D,9"], ["O,9", "K,10", "E,11,10,9", "D,9", "D,10"], ["O,9", "K,10", "E,11,10,9", "D,9"]])
        ops += ["K,5", "K,6", "E,7,5,6"] + rng.choice([[], ["D,5"], ["D,6"], ["D,7"]]) + ["K,0", "K,1", "AE,2,0,1", "D,0"]
        ops += rng.choice([["G"], ["D,5", "G"], ["AK,8", "G"], ["D,5", "AK,8", "D,7", "AK,8", "G"]])
    else:
        for _ in range(rng.randrange(4, 14)):
            a = "A" if rng.random() < 0.4 else ""
            r = rng.random()
            if r < 0.3:
                ops.append("%sK,%d" % (a, rng.randrange(8)))
            elif r < 0.45:
                ops.append("%sC,%d,%d,%d" % (a, rng.randrange(8), rng.randrange(8), rng.randrange(8)))
            elif r < 0.7:
                ops.append("%sE,%d,%d,%d" % (a, rng.randrange(8), rng.randrange(8), rng.randrange(8)))
            elif r < 0.9:
                ops.append("D,%d" % rng.randrange(8))
            else:
                ops.append("G")
        ops.append("G")
    return (12, ops, "auto%d" % cls)


def gen_raw(rng):
    """number-level histories (coq/C16/NumOs.v): descriptors closed by raw INTEGER (YN,i: the fileno object R[i] is not told and
    goes on believing it owns the number), close / dup / dup2 on fileno objects that are already closed (the operations
    legalise() removes from the other families), followed by opens that reuse the numbers, ports, drops and collections: the
    finaliser of a stale owner then closes whatever the number names by now.  The implementation must do exactly what the
    number-level model does: same number of open descriptors after every collection, owners whose number still names the
    instance opened for them still work (own, Z).  No stream ports, no socket shutdown."""
    nslots = 8
    ops = []
    pipes = []
    s = lambda: rng.randrange(nslots)
    for _ in range(rng.randrange(8, 30)):
        r = rng.random()
        if r < 0.14:
            ops.append("F,%d" % s())
        elif r < 0.26:
            i, j = rng.sample(range(nslots), 2)
            ops.append("Q,%d,%d" % (i, j))
            if rng.random() < 0.5:
                a, b = rng.sample([x for x in range(nslots) if x not in (i, j)], 2)
                ops += ["P,%d,%d" % (a, i), "W,%d,%d" % (b, j), "Z,%d,%d" % (a, b)]
                pipes.append((a, b))
        elif r < 0.36:
            ops.append("%s,%d,%d" % (rng.choice(["P", "W", "PS", "WS"]), s(), s()))
        elif r < 0.50:
            ops.append("YN,%d" % s())
        elif r < 0.60:
            ops.append("Y,%d" % s())
        elif r < 0.68:
            ops.append("%s,%d" % (rng.choice(["X", "XI", "XO"]), s()))
        elif r < 0.74:
            ops.append("U,%d,%d" % (s(), s()))
        elif r < 0.79:
            ops.append("%s,%d,%d" % (rng.choice("TR"), s(), s()))
        elif r < 0.90:
            ops.append("D,%d" % s())
        elif r < 0.93 and pipes:
            ops.append("Z,%d,%d" % rng.choice(pipes))
        else:
            ops.append("G")
    ops.append("G")
    for a, b in pipes:
        ops.append("Z,%d,%d" % (a, b))
    ops += ["D,%d" % i for i in range(nslots) if rng.random() < 0.7]
    ops.append("G")
    return (nslots, ops, "raw")


RAW_SCRIPTED = [
    "6 F,0;YN,0;F,1;G;D,0;G;D,1;G",                                   # the stale owner's finaliser closes the new owner's descriptor
    "6 F,0;P,1,0;YN,0;Q,2,3;G;D,1;G;D,0;G",
    "6 Q,0,1;Y,0;Y,0;Q,2,3;Y,0;G;U,4,0;G",                            # second and third close by hand of a closed fileno; dup of it
    "6 F,0;Y,0;F,1;U,2,0;G;T,0,1;G;T,1,0;G",                          # dup / dup2 of a closed fileno whose number was reused
    "6 Q,0,1;P,2,0;W,3,1;YN,0;Q,4,5;P,2,4;Z,2,3;G;D,0;G;Z,2,3;G",
    "8 Q,0,1;P,2,0;W,3,1;Z,2,3;YN,1;Q,4,5;W,6,5;P,7,4;Z,7,6;X,3;Z,7,6;G;Z,7,6",   # closing the stale writer closes the new pipe's write end
    "6 Q,0,1;T,0,1;Y,0;T,0,1;G;Y,1;T,1,0;F,2;G",                      # dup2 from / onto closed filenos
]


def gen_refcount_scenarios(rng, embed):
    """scripted: the fileno's reference count.  2 or 3 ports on the read end of a pipe (some with the shutdown flag), one writer; the
    readers go away one after the other, each in one of the ways a port can end — closed by hand and then collected (the
    finaliser meets an already closed port), collected while open, closed twice, closed / collected with collections in
    between — and after each the remaining readers must still receive data; after the last one the descriptor must be gone
    (count reached 0) even though the fileno object may still be held."""
    ways = [["X,%d", "D,%d", "G"], ["D,%d", "G"], ["X,%d", "X,%d"], ["X,%d", "G", "D,%d", "G"], ["X,%d", "D,%d"]]
    hs = []
    for nread in (2, 3):
        for w1 in range(len(ways)):
            for w2 in range(len(ways)):
                for keep_fileno in (True, False):
                    if nread == 3 and (w1 + w2 + keep_fileno) % 3:
                        continue                       # a third of the 3-reader combinations
                    readers = list(range(2, 2 + nread))
                    ops = ["Q,0,1"] + ["%s,%d,0" % (rng.choice(["P", "PS"]), r) for r in readers] + ["W,8,1"]
                    ops += ["Z,%d,8" % r for r in readers]
                    if not keep_fileno:
                        ops.append("D,0")
                    order = list(readers)
                    rng.shuffle(order)
                    for k, r in enumerate(order):
                        w = ways[w1 if k == 0 else w2 if k == 1 else rng.randrange(len(ways))]
                        ops += [x % r if "%" in x else x for x in w]
                        ops += ["Z,%d,8" % q for q in order[k + 1:]]
                        ops.append("G")
                        ops += ["Z,%d,8" % q for q in order[k + 1:]]
                    ops += ["F,9", "G", "D,0", "D,9", "G", "X,8", "D,1", "D,8", "G"]
                    hs.append((10, ops, "refcount"))
    return hs


def cross_models(ctx, exe, hists):
    """History.v (descriptors named by instance) against NumOs.v (numbers, lowest-free reuse) on the disciplined histories: the
    two machines must give the same ephemeron observations, the same number of open descriptors and the same owner states at
    every collection, and on the number level no close may ever hit a number that is not open (ebadf = 0): every close call the
    model's finalisers and explicit closes issue names the descriptor its owner opened.  This is the executable form of the
    argument that naming descriptors by instance is sound as long as every close goes through the owner object."""
    hs = [h for h in hists if not h[2].startswith("raw")]
    a = ctx.run_model(exe, ["hist %d 20000 %s" % (h[0], ";".join(h[1])) for h in hs])
    b = ctx.run_model(exe, ["nhist %d 20000 %s" % (h[0], ";".join(h[1])) for h in hs])

    def key(o):
        if o.startswith("Z"):
            return o
        p = o.split("|")
        return (p[0], [x for x in p if x.startswith("fds=")], [x for x in p if x.startswith("own=")])
    n = 0
    for h, x, y in zip(hs, a, b):
        if not x.startswith("OK"):
            continue
        n += 1
        kx = [key(o) for o in x[3:].split("/")] if x[3:] else []
        ky = [key(o) for o in y[3:].split("/")] if y.startswith("OK") and y[3:] else []
        eb = [o for o in y.split("/") if "ebadf=" in o and "ebadf=0" not in o]
        if kx != ky or eb:
            ctx.broken("model-consistency:C16:NumOs-vs-History", "on the disciplined history %s the number-level machine answers %s, the instance-level machine %s"
                       % (hist_line(h), y[:300], x[:300]))
            break
    ctx.cov["histories_cross_checked_instance_vs_number_level"] = n


def legalise(ctx, exe, hists, rounds=12):
    """remove the operations the model places outside its domain (DOMAIN k: operation k works on the number of a fileno
    object that is already closed), until the model accepts the history"""
    hists = list(hists)
    for _ in range(rounds):
        reqs = ["hist %d %d %s" % (h[0], 20000, ";".join(h[1])) for h in hists]
        outs = ctx.run_model(exe, reqs)
        again = False
        for i, o in enumerate(outs):
            if o.startswith("DOMAIN "):
                k = int(o.split()[1])
                hists[i] = (hists[i][0], hists[i][1][:k] + hists[i][1][k + 1:]) + tuple(hists[i][2:])
                again = True
        if not again:
            break
    return hists


def gen_histories(rng, n):
    hs = []
    for i in range(n):
        r = rng.random()
        if r < 0.45:
            ns = rng.randrange(3, 9)
            hs.append((ns, gen_random(rng, ns, rng.randrange(8, 50)), "random"))
        elif r < 0.65:
            k = rng.randrange(1, 7)
            ns, ops = gen_chain(rng, k, rng.random() < 0.6)
            hs.append((ns, ops, "chain%d" % k))
        elif r < 0.72:
            ns, ops = gen_selfref(rng)
            hs.append((ns, ops, "selfref"))
        elif r < 0.86:
            ns, ops = gen_ports(rng)
            if rng.random() < 0.5:
                ops = flag_ports(rng, ops)
            hs.append((ns, ops, "ports"))
        else:
            ns, ops = gen_fds(rng)
            r2 = rng.random()
            if r2 < 0.4:
                ops = flag_ports(rng, ops)                     # pipes and files, ports with the shutdown flag
            elif r2 < 0.6:
                ops = ["S" + o[1:] if o.startswith("Q,") else o for o in ops]      # socket pairs instead of pipes (no flags)
            hs.append((ns, ops, "fds"))
    return hs


# ------------------------------------------------------------------------------------------------ address layouts
def layout_objects(n, ms):
    """objects of an ephemeron chain of length n: keys K0..Kn, ephemerons E0..E(n-1) (Ej: key Kj, value Vj), and the
    ordinary objects through which Vj reaches K(j+1): pairs P(j,1)..P(j,ms[j]) (P(j,1) holds K(j+1), P(j,t) holds
    P(j,t-1); Vj = P(j,ms[j]), or K(j+1) itself when ms[j] = 0).  Returns (names, deps: name -> names created before)."""
    names, deps = [], {}
    for j in range(n + 1):
        names.append("K%d" % j)
        deps["K%d" % j] = []
    for j in range(n):
        prev = "K%d" % (j + 1)
        for t in range(1, ms[j] + 1):
            nm = "P%d_%d" % (j, t)
            names.append(nm)
            deps[nm] = [prev]
            prev = nm
        names.append("E%d" % j)
        deps["E%d" % j] = ["K%d" % j, prev]
    return names, deps


def value_of(j, ms):
    return "P%d_%d" % (j, ms[j]) if ms[j] > 0 else "K%d" % (j + 1)


def gen_layout(rng, n, ms, order, retain=(0,)):
    """a history that builds the chain with its objects at the relative ADDRESSES given by `order` (a permutation of
    layout_objects' names, lowest address first), whatever the creation order has to be: first one placeholder per
    object is allocated in address order; then, in a random creation order compatible with the dependencies, the
    placeholder of the next object is dropped and collected and the object is created into the hole (first fit: the
    hole is the lowest free chunk).  Then every key except those in `retain` and every pair is dropped: the rest of
    the chain is alive only through ephemeron values; collect; drop the retained keys; collect.
    Returns (nslots, ops, expected: name -> allocation id)."""
    names, deps = layout_objects(n, ms)
    N = len(names)
    idx = {nm: i for i, nm in enumerate(names)}
    ops = []
    for nm in order:
        ops.append("H,%d" % (N + idx[nm]))
    ids = {}
    nid = N
    done, todo = set(), list(names)
    while todo:
        ready = [nm for nm in todo if all(x in done for x in deps[nm])]
        nm = rng.choice(ready)
        todo.remove(nm)
        done.add(nm)
        ops += ["D,%d" % (N + idx[nm]), "G"]
        if nm[0] == "K":
            ops.append("K,%d" % idx[nm])
        elif nm[0] == "P":
            tgt = idx[deps[nm][0]]
            ops.append("C,%d,%d,%d" % (idx[nm], tgt, tgt) if rng.random() < 0.5 else "C,%d,%d,%d" % (idx[nm], 2 * N, tgt))
        else:
            ops.append("E,%d,%d,%d" % (idx[nm], idx[deps[nm][0]], idx[deps[nm][1]]))
        nid += 1
        ids[nm] = nid
    for nm in names:
        if not (nm[0] == "K" and int(nm[1:]) in retain):
            ops.append("D,%d" % idx[nm])
    ops.append("G")
    if rng.random() < 0.3:
        ops.append("G")
    for j in retain:
        ops.append("D,%d" % idx["K%d" % j])
    ops.append("G")
    return 2 * N + 1, ops, ids


QUAD_PERMS = None


def gen_layouts(rng, thorough):
    """the layout family: for chains of length 2 every relative order of {E0, V0, E1, K1} (24 orders; 6 when the value
    IS the next key) with values reaching the next key directly, through 1 and through 3 ordinary objects, the other
    objects placed at random; plus random address orders of chains of length 3-5"""
    import itertools
    hs = []
    reps = 1 if not thorough else 12
    for _ in range(reps):
        for m0 in (0, 1, 3):
            ms = [m0, rng.choice([0, 1, 2])]
            quad = ["E0", value_of(0, ms), "E1", "K1"]
            quad = list(dict.fromkeys(quad))
            names, _ = layout_objects(2, ms)
            others = [x for x in names if x not in quad]
            for perm in itertools.permutations(quad):
                order = list(perm)
                for x in others:
                    order.insert(rng.randrange(len(order) + 1), x)
                hs.append(_layout_hist(rng, 2, ms, order))
    for _ in range(40 if not thorough else 1500):
        n = rng.randrange(3, 6)
        ms = [rng.choice([0, 0, 1, 2, 3]) for _ in range(n)]
        names, _ = layout_objects(n, ms)
        order = list(names)
        r = rng.random()
        if r < 0.35:            # ephemerons by decreasing chain position below everything else: the worst case for a scan by address
            eph = ["E%d" % j for j in reversed(range(n))]
            rest = [x for x in names if x[0] != "E"]
            rng.shuffle(rest)
            order = eph + rest
        else:
            rng.shuffle(order)
        hs.append(_layout_hist(rng, n, ms, order))
    return hs


def _layout_hist(rng, n, ms, order):
    retain = (0,) if rng.random() < 0.7 else tuple(sorted(rng.sample(range(n + 1), rng.randrange(1, 3))))
    ns, ops, ids = gen_layout(rng, n, ms, order, retain)
    return (ns, ops, "layout%d" % n, dict(order=order, ids=ids, n=n, ms=ms))


def layout_achieved(h, addrs):
    """the address order the implementation really gave the named objects (lowest first)"""
    ids = h[3]["ids"]
    if addrs is None or any(i not in addrs for i in ids.values()):
        return None
    return sorted(ids, key=lambda nm: addrs[ids[nm]])


def quad_class(order, j, ms):
    """relative address order of the four objects the ephemeron scan's re-run condition depends on: ephemeron E, its
    value V, the dependent ephemeron E' whose key K' is reached from V (V = K' when the value is the key itself)"""
    roles = {"E%d" % (j + 1): "E'", "K%d" % (j + 1): "K'"}
    roles.setdefault(value_of(j, ms), "V")
    roles["E%d" % j] = "E"
    pos = {nm: order.index(nm) for nm in roles}
    return (len(roles), tuple(roles[nm] for nm in sorted(roles, key=lambda nm: pos[nm])))


def gen_frag(rng):
    """descriptor owners and ephemerons placed BEHIND a large free chunk: a big block is allocated first and dropped and
    collected before the objects behind it become garbage, so every heap walk of the following collections (ephemeron
    scan, weak reset, finalisers) has to step over a large hole and go on"""
    ops = []
    ns = 12
    ops.append("B,0,%d" % rng.choice([9000, 20000, 70000, 150000]))
    k = rng.randrange(1, 5)
    for i in range(k):
        ops.append("O,%d" % (1 + i))
    ops += ["K,6", "K,7", "E,8,6,7"]
    if rng.random() < 0.5:
        ops += ["O,9", "E,10,7,9", "D,9"]
    if rng.random() < 0.5:
        ops.append("B,11,%d" % rng.choice([9000, 70000]))
    ops += ["D,0", "G"]
    ops += ["D,7", "G"]
    ops += ["D,%d" % (1 + i) for i in range(k) if rng.random() < 0.8]
    ops += ["G", "D,11", "G", "D,6", "G"]
    return (ns, ops, "frag")


def layout_family(ctx, exe, d, thorough, corpus=()):
    """K-outer on the C embedding (bare context: only the history allocates), with the achieved addresses checked"""
    emb = B.cc_embed(d, os.path.join(HERE, "..", "harness", "embed_c16.c"), os.path.join(d, "embed_c16"))
    lay = list(corpus) + gen_layouts(ctx.rng, thorough) + [gen_frag(ctx.rng) for _ in range(12 if not thorough else 400)]
    # round 3: fresh contexts whose first ephemerons have immediate values / keys; two flagged ports on one socket / pipe end
    lay += [gen_imm(ctx.rng) for _ in range(60 if not thorough else 3000)] + gen_shutdown_scenarios(ctx.rng, True) + gen_refcount_scenarios(ctx.rng, True)
    # round 4: automatic collections inside operations (inside make-ephemeron's own allocation in particular)
    lay += [gen_auto(ctx.rng, j) for j in range(90 if not thorough else 3000)]
    addrs = {}
    outer(ctx, exe, d, "embed", lay, cmd=[emb], addrs=addrs)
    areq = aok = ahist = 0
    for i, h in enumerate(lay):
        if h[2].startswith("auto") and "T" in addrs.get(i, {}):
            ahist += 1
            aok += addrs[i]["T"][0]
            areq += addrs[i]["T"][1]
    ctx.cov["auto_gc_inside_operation"] = "%d of %d requested automatic collections happened exactly inside the operation (%d histories)" % (aok, areq, ahist)
    if areq == 0 or aok < areq:
        ctx.broken("auto-gc-generator:C16", "the embedding harness no longer places an automatic collection exactly inside the prefixed "
                   "operation (%d of %d): the allocator's fit rule or object sizes changed?" % (aok, areq))
    hit, classes = 0, set()
    for i, h in enumerate(lay):
        if len(h) < 4:
            continue
        got = layout_achieved(h, addrs.get(i))
        if got is None:
            continue
        if got == h[3]["order"]:
            hit += 1
        for j in range(h[3]["n"] - 1):
            classes.add(quad_class(got, j, h[3]["ms"]))
    n4 = len([c for c in classes if c[0] == 4])
    n3 = len([c for c in classes if c[0] == 3])
    ctx.cov["layout_histories"] = len([h for h in lay if len(h) == 4])
    ctx.cov["layout_address_order_as_requested"] = hit
    ctx.cov["layout_quad_orders_achieved"] = "%d/24 orders of (E,V,E',K'), %d/6 orders of (E,V=K',E')" % (n4, n3)
    ctx.note("layout family: %d histories (with the frag family and the embed corpus) on the bare-context embedding; requested address order achieved in %d; achieved relative "
             "orders of (ephemeron, value, dependent ephemeron, its key): %d of 24 (+ %d of 6 with value = key), read from the "
             "addresses the harness reports" % (len(lay), hit, n4, n3))
    if n4 < 24 or n3 < 6:
        ctx.broken("layout-generator:C16", "the generator no longer reaches every relative address order of (E, V, E', K'): %d/24, %d/6 "
                   "(the allocator's placement changed?)" % (n4, n3))
    return emb, lay, addrs


def hist_line(h):
    return "%d %s" % (h[0], ";".join(h[1]))


def run_impl(d, hists, timeout=900, extra_env=None, pre=None, cmd=None, addrs=None, chunk=1500):
    """run_impl_chunk over slices of at most `chunk` histories (one process each, `timeout` per process): the thorough tier's
    12 000 histories must not share one time limit"""
    res = []
    for k in range(0, max(1, len(hists)), chunk):
        part = hists[k:k + chunk]
        sub = {} if addrs is not None else None
        res += run_impl_chunk(d, part, timeout=timeout, extra_env=extra_env, pre=pre, cmd=cmd, addrs=sub)
        if addrs is not None:
            for i, v in sub.items():
                addrs[k + i] = v
    return res


def run_impl_chunk(d, hists, timeout=900, extra_env=None, pre=None, cmd=None, addrs=None):
    """returns list (per history) of observation lists, or a string describing a crash for the history that died.
    cmd: the interpreter of the history language (default: chibi-scheme harness/c16_hist.scm; the layout family uses
    the C embedding harness/embed_c16.c); addrs: dict filled with history index -> {id: (heap, offset)} from its 'A' lines"""
    res = [None] * len(hists)
    start = 0
    while start < len(hists):
        inp = "\n".join(hist_line(h) for h in hists[start:]) + "\n"
        try:
            r = subprocess.run(cmd or [os.path.join(d, "chibi-scheme"), HIST_SCM], input=inp, capture_output=True, text=True,
                               timeout=timeout, env=B.chibi_env(d, extra_env), preexec_fn=pre,
                               restore_signals=False)      # SIGPIPE stays ignored: writing to a pipe whose read end is closed is an error, not a death
            out, rc, err = r.stdout, r.returncode, r.stderr
        except subprocess.TimeoutExpired as e:
            out = e.stdout.decode() if isinstance(e.stdout, bytes) else (e.stdout or "")
            rc, err = "TIMEOUT", ""
        done = 0
        finished = False
        for line in out.split("\n"):
            if line.startswith("H "):
                _, n, obs = (line.split(" ", 2) + [""])[:3]
                res[start + int(n)] = obs.split("/") if obs else []
                done = int(n) + 1
            elif line.startswith("A ") and addrs is not None:
                _, n, body = (line.split(" ", 2) + [""])[:3]
                addrs[start + int(n)] = {int(e.split(":")[0], 16): (int(e.split(":")[1]), int(e.split(":")[2]))
                                         for e in body.split(",") if e}
            elif line.startswith("T ") and addrs is not None:
                _, n, body = line.split(" ", 2)
                addrs.setdefault(start + int(n), {})["T"] = tuple(int(x) for x in body.split("/"))
            elif line == "DONE":
                finished = True
        if finished:
            break
        bad = start + done
        if bad >= len(hists):
            break
        res[bad] = "CRASH rc=%s %s" % (rc, (err or "")[-400:].replace("\n", " | "))
        start = bad + 1
    return res


def split_obs(o):
    """'e3=0,k1,k2;e4=..|fds=2|gc=7' -> (dict id -> (broken,key,val), fds)"""
    parts = o.split("|")
    ephs = {}
    if parts[0]:
        for e in parts[0].split(";"):
            name, v = e.split("=", 1)
            b, rest = v.split(",", 1)
            # key fingerprint never contains a comma at depth 0 before the value: key is '#f', 'kN', 'eN', 'p', 'f' or a pair
            k, val = _split_kv(rest)
            ephs[name] = (b, k, val)
    fds = None
    for p in parts[1:]:
        if p.startswith("fds="):
            fds = int(p[4:])
    return ephs, fds


def _split_kv(s):
    depth = 0
    for i, c in enumerate(s):
        if c == "(":
            depth += 1
        elif c == ")":
            depth -= 1
        elif c == "," and depth == 0:
            return s[:i], s[i + 1:]
    return s, ""


def classify(mo, io):
    """compare one model observation with one implementation observation; returns list of (sig, text)"""
    bad = []
    if mo.startswith("Z") or io.startswith("Z"):
        # data written through the output port must arrive at the input port when the model says both descriptors are open
        if mo == "Zoo" and io not in ("Zok", "Zskip"):
            bad.append(("fd:new-owner-broken", "both ends of the pipe are open in the model, the implementation answers %s" % io))
        return bad
    mown = dict(e.split(":") for e in (re.search(r"\|own=([^|]*)", mo).group(1).split(",") if "|own=" in mo else []) if e)
    iown = dict(e.split(":") for e in (re.search(r"\|own=([^|]*)", io).group(1).split(",") if "|own=" in io else []) if e)
    for slot_, st_ in mown.items():
        if st_ == "o" and iown.get(slot_, "ok") != "ok":
            bad.append(("fd:number-no-longer-names-owners-file", "slot %s: the owner is open in the model but /proc/self/fd/<its number> "
                        "no longer names the file it was opened on" % slot_))
    me, mf = split_obs(mo)
    ie, if_ = split_obs(io)
    for name, (mb, mk, mv) in me.items():
        if name not in ie:
            bad.append(("ephemeron:missing", name))
            continue
        ib, ik, iv = ie[name]
        if (mb, mk, mv) == (ib, ik, iv):
            continue
        if mb == "0" and ib == "1":
            bad.append(("ephemeron:broken-while-key-live", "%s model %s impl %s" % (name, me[name], ie[name])))
        elif mb == "1" and ib == "0":
            bad.append(("ephemeron:dead-key-not-broken", "%s model %s impl %s" % (name, me[name], ie[name])))
        elif mk != ik:
            bad.append(("ephemeron:key-identity", "%s model %s impl %s" % (name, me[name], ie[name])))
        else:
            bad.append(("ephemeron:value-not-retained" if mb == "0" else "ephemeron:value-after-break",
                        "%s model %s impl %s" % (name, me[name], ie[name])))
    if mf is not None and if_ is not None and mf != if_:
        bad.append(("fd:leaked-after-collection" if if_ > mf else "fd:closed-while-owner-live", "open descriptors: model %d impl %d" % (mf, if_)))
    return bad


def model_hist(ctx, exe, hists, fuel=20000):
    # the raw family runs on the number-level machine (coq/C16/NumOs.v: request nhist), everything else on History.v
    reqs = ["%s %d %d %s" % ("nhist" if h[2].startswith("raw") else "ahist" if h[2].startswith("auto") else "hist", h[0], fuel, ";".join(h[1])) for h in hists]
    outs = ctx.run_model(exe, reqs)
    res = []
    for o in outs:
        if not o.startswith("OK"):
            res.append(None if not o.startswith("DOMAIN") else "DOMAIN")
        else:
            body = o[3:]
            res.append(body.split("/") if body else [])
    return res


def first_mismatch(mobs, iobs):
    if isinstance(iobs, str):
        return [("history:crash", iobs)]          # outer() renames it when a forced-gc schedule was active
    if iobs is None:
        return [("history:no-output", "")]
    if mobs is None or mobs == "DOMAIN":
        return None
    if len(mobs) != len(iobs):
        return [("history:observation-count", "model %d impl %d" % (len(mobs), len(iobs)))]
    for j, (m, i) in enumerate(zip(mobs, iobs)):
        b = classify(m, i)
        if b:
            return [(s, "at collection #%d: %s" % (j, t)) for s, t in b]
    return []


def shrink(ctx, exe, d, h, sig, env, budget=40, cmd=None):
    """drop ops one at a time while the same signature still shows"""
    ns, ops, kind = h[0], h[1], h[2]
    i = 0
    while i < len(ops) and budget > 0:
        cand = ops[:i] + ops[i + 1:]
        if "G" not in cand:
            i += 1
            continue
        budget -= 1
        hh = (ns, cand, kind)
        mo = model_hist(ctx, exe, [hh])[0]
        io = run_impl(d, [hh], timeout=120, extra_env=env, cmd=cmd)[0]
        mm = first_mismatch(mo, io)
        if mm and any(s == ("history:crash" if sig.startswith("history:crash") else sig) for s, _ in mm):
            ops = cand
        else:
            i += 1
    return (ns, ops, kind)


def explained_by_one_extra_collection(ctx, exe, h, io):
    """A forced collection (CHIBI_VERIF_GC) at an arbitrary allocation is, for the property, a collection the history did not ask
    for.  Most histories cannot tell; some can: the descriptor of a fileno object is released when its LAST PORT is finalised
    (count reaches 0) even while the fileno object itself is still held, so a history that goes on using such a fileno (dup, dup2,
    a new port) after dropping the port sees a different world depending on whether the collector has run in between.  Such
    an outcome is not a violation if the MODEL produces exactly it for the same history with one more collection inserted at
    some point; the number-level machine (NumOs.v, request nhist) is used because it also covers what the extra collection
    may turn into an operation on a closed fileno.  Returns True when some insertion point explains the observations."""
    ops = h[1]
    reqs, drop = [], []
    for k in range(len(ops) + 1):
        reqs.append("nhist %d 20000 %s" % (h[0], ";".join(ops[:k] + ["G"] + ops[k:])))
        drop.append(sum(1 for o in ops[:k] if o == "G" or o.startswith("Z,")))
    for o, j in zip(ctx.run_model(exe, reqs), drop):
        if not o.startswith("OK"):
            continue
        obs = o[3:].split("/") if o[3:] else []
        if len(obs) != len(io) + 1:
            continue
        if first_mismatch(obs[:j] + obs[j + 1:], io) == []:
            return True
    return False


def outer(ctx, exe, d, variant, hists, env=None, cmd=None, addrs=None):
    mobs = model_hist(ctx, exe, hists)
    iobs = run_impl(d, hists, extra_env=env, cmd=cmd, addrs=addrs)
    reported = set()
    for h, mo, io in zip(hists, mobs, iobs):
        if mo is None:
            ctx.broken("model-history", "the model ran out of fuel on %s" % hist_line(h))
            continue
        if mo == "DOMAIN":
            continue                       # outside the modelled domain (not legalised): not compared
        nontriv = any(o.startswith("E") for o in h[1]) or any(o[0] in "OFPQWUS" for o in h[1])
        if h[2].startswith("raw"):
            ctx.cov["raw_number_level_histories"] = ctx.cov.get("raw_number_level_histories", 0) + 1
        ctx.count(1, key=(variant, hist_line(h), str(env)), nontrivial=nontriv)
        ctx.cov["traces_validated_against_impl"] += 1
        mm = first_mismatch(mo, io)
        if mm and env and "CHIBI_VERIF_GC" in env and isinstance(io, list) and explained_by_one_extra_collection(ctx, exe, h, io):
            ctx.cov["forced_gc_histories_explained_by_one_extra_collection"] = ctx.cov.get("forced_gc_histories_explained_by_one_extra_collection", 0) + 1
            ctx.note("forced-gc: the outcome of %s under %s is the model's outcome with one more collection inserted (schedule-sensitive "
                     "history: a fileno used after its last port was dropped)" % (hist_line(h)[:160], env["CHIBI_VERIF_GC"]))
            continue
        if mm:
            for sig, text in mm:
                if sig == "history:crash" and env and "CHIBI_VERIF_GC" in env:
                    sig = "history:crash-under-forced-gc"
                if sig in reported:
                    continue
                reported.add(sig)
                hs = shrink(ctx, exe, d, h, sig, env, cmd=cmd) if not ctx.cov.get("_noshrink") else h
                mo2 = model_hist(ctx, exe, [hs])[0]
                io2 = run_impl(d, [hs], timeout=120, extra_env=env, cmd=cmd)[0]
                envs = " ".join("%s=%s" % kv for kv in (env or {}).items())
                prog = " ".join(cmd) if cmd else "%s/chibi-scheme %s" % (d, os.path.abspath(HIST_SCM))
                ctx.violation(sig, input=hist_line(hs), kind=h[2], variant=variant, expected_model=mo2, observed=io2, why=text,
                              replay="echo '%s' | %s LD_LIBRARY_PATH=%s CHIBI_MODULE_PATH=%s/lib CHIBI_IGNORE_SYSTEM_PATH=1 %s"
                                     % (hist_line(hs), envs, d, d, prog))
    return mobs, iobs


# ------------------------------------------------------------------------------------------------ heap dumps
def parse_dumps(path, wanted):
    """returns {gc: {phase: dump}} with dump = dict(root=addr, objs=[(addr, tag, marked, broken, S, W, X)], hasW)"""
    res = {}
    cur = None
    with open(path) as fh:
        for line in fh:
            c = line[0]
            if c == "O":
                if cur is None:
                    continue
                f = line.split()
                # O off size tag marked broken S .. W .. X .. C ..
                off, tag, mk, br = int(f[1]), int(f[3]), f[4] == "1", f[5] == "1"
                sec = {"S": [], "W": [], "X": [], "C": []}
                k = None
                weakp = False
                for t in f[6:]:
                    if t in ("S", "W", "X", "C"):
                        k = t
                        if k == "X":          # " X" is only printed for types with a weak range (weak_base > 0)
                            weakp = True
                    else:
                        sec[k].append(t)
                cur["objs"].append((cur["hi"], off, tag, mk, br, sec["S"] + sec["C"], sec["W"] if weakp else None, sec["X"]))
            elif c == "K":
                if cur is None or not cur["objs"]:
                    continue
                f = line.split()
                last = cur["objs"][-1]
                if last[1] == int(f[1]):
                    cur["kinds"][(last[0], last[1])] = f[2:]
            elif c == "D":
                f = line.split()
                phase, g = f[1], int(f[2][3:])
                if g in wanted:
                    cur = dict(root=None, objs=[], hi=0, kinds={})
                    res.setdefault(g, {})[phase] = cur
                else:
                    cur = None
            elif c == "R" and cur is not None:
                cur["root"] = line.split()[1]
            elif c == "H" and cur is not None:
                cur["hi"] = int(line.split()[1])
            elif c == "E":
                cur = None
    return res


def addr_of(hi, off):
    return (hi << 40) + off + 1


def ref_of(t):
    if t in ("i", "x"):
        return "i"
    hi, off = t.split(":")
    return "%x" % addr_of(int(hi), int(off))


def kind_string(dump, hi, off):
    k = dump["kinds"].get((hi, off))
    if not k:
        return "p"
    if k[0] == "P":       # P openp no_closep streamfd(-1 none, -2 closed stream)
        stream = "-" if int(k[3]) == -1 else "%x" % addr_of(hi, off)      # the FILE* descriptor is named by its port
        return "P%s%s:%s" % (k[1], k[2], stream)
    fd, cnt = int(k[3]), int(k[4])                                        # N openp no_closep fd count
    hx = lambda v: ("-%x" % -v) if v < 0 else ("%x" % v)
    return "F%s%s:%s:%s" % (k[1], k[2], hx(fd), hx(cnt))


def heap_string(dump, fin_tags):
    objs, nslots = [], 0
    for (hi, off, tag, mk, br, S, W, X) in dump["objs"]:
        nslots += len(S) + (len(W) if W else 0) + len(X)
        objs.append("%x|%s|%s|%s|%s|%s|%s" % (addr_of(hi, off), ",".join(ref_of(t) for t in S), "1" if W is not None else "0",
                                            ",".join(ref_of(t) for t in (W or [])), ",".join(ref_of(t) for t in X), "1" if br else "0",
                                            kind_string(dump, hi, off)))
    return ";".join(objs), nslots


def impl_kinds(dump):
    res = {}
    for (hi, off), k in dump["kinds"].items():
        a = "%x" % addr_of(hi, off)
        if k[0] == "P":
            res[a] = "P%s%s" % (k[1], k[2])
        else:
            hx = lambda v: ("-%x" % -v) if v < 0 else ("%x" % v)
            res[a] = "F%s%s:%s:%s" % (k[1], k[2], hx(int(k[3])), hx(int(k[4])))
    return res


def inner(ctx, exe, d, hists, ngc, cmd=None, label="inner"):
    """two runs: the first learns the gc counts at the history's collections, the second dumps those"""
    first = run_impl(d, hists, timeout=300, cmd=cmd)
    gcs, must = [], []
    for h, obs in zip(hists, first):
        if isinstance(obs, list):
            mine = []
            for o in obs:
                m = re.search(r"\|gc=(\d+)", o)
                if m and int(m.group(1)) > 0:
                    mine.append(int(m.group(1)))
            if h[2] == "ports-shared-fileno":
                must += mine
            elif h[2].startswith("layout"):
                must += mine[-3:-1]          # the collections at which the chain is alive only through ephemeron values
            else:
                gcs += mine
    step = max(1, len(gcs) // ngc) if ngc else 1
    wanted = sorted(set(gcs[::step][:ngc] + must))[:60]      # the hook accepts at most 64 collection numbers
    if not wanted:
        ctx.broken("inner-correspondence:C16", "no collection to dump")
        return
    os.makedirs(B.SCRATCH, exist_ok=True)
    tr = tempfile.NamedTemporaryFile(prefix="c16-trace-", dir=B.SCRATCH, delete=False).name
    try:
        second = run_impl(d, hists, timeout=600, cmd=cmd, extra_env=dict(CHIBI_VERIF_TRACE=tr, CHIBI_VERIF_DUMP=",".join(map(str, wanted)), CHIBI_VERIF_DUMP_KINDS="1"))
        dumps = parse_dumps(tr, set(wanted))
    finally:
        try:
            os.unlink(tr)
        except OSError:
            pass
    nweak_total = 0
    nfin_total = [0]
    replayed = 0
    for g in wanted:
        ph = dumps.get(g, {})
        if not all(k in ph for k in ("pre", "marked", "weak", "post")):
            continue
        replayed += 1
        pre, marked, weak, post = ph["pre"], ph["marked"], ph["weak"], ph["post"]
        hs, nslots = heap_string(pre, None)
        fuel = nslots + len(pre["objs"]) + 16
        root = ref_of(pre["root"])
        m0 = ",".join("%x" % addr_of(o[0], o[1]) for o in marked["objs"] if o[3]) or "-"
        hs_m, _ = heap_string(marked, None)
        outs = ctx.run_model(exe, ["gc %d %s %s" % (fuel, hs, root), "after %d %s %s" % (fuel, hs_m, m0)])
        # what the implementation did
        impl_marked = set("%x" % addr_of(o[0], o[1]) for o in weak["objs"] if o[3])
        impl_post = set("%x" % addr_of(o[0], o[1]) for o in post["objs"])
        impl_weak = {}
        for o in post["objs"]:
            if o[6] is not None:
                impl_weak["%x" % addr_of(o[0], o[1])] = (",".join(ref_of(t) for t in o[6]), ",".join(ref_of(t) for t in o[7]), "1" if o[4] else "0")
        nweak = len(impl_weak)
        nweak_total += nweak
        pre_weak = {"%x" % addr_of(o[0], o[1]): o for o in pre["objs"] if o[6] is not None}
        for name, out in zip(("gc", "after"), outs):
            ctx.count(1, key=("dump", g, name, nweak), nontrivial=nweak > 0)
            ctx.cov["traces_validated_against_impl"] += 1
            if not out.startswith("OK "):
                ctx.broken("inner-correspondence:C16:" + name, "model answered %s on the dump of collection %d" % (out[:80], g))
                continue
            _, ret, wk, _log, mk = out.split(" ")
            mkinds = {}
            if mk != "-":
                for e in mk.split(";"):
                    a, v = e.split(":", 1)
                    mkinds[a] = v
            ik = impl_kinds(post)
            nfin_total[0] += len(ik)
            if ik and mkinds != ik:
                diff = [a for a in sorted(set(mkinds) | set(ik)) if mkinds.get(a) != ik.get(a)][:3]
                prek = impl_kinds(pre)
                ctx.violation("dump:port-fileno-state", input="collection %d" % g,
                              expected="model: " + "; ".join("%s %s" % (a, mkinds.get(a)) for a in diff),
                              observed="impl: " + "; ".join("%s %s (before the collection %s)" % (a, ik.get(a), prek.get(a)) for a in diff),
                              replay=_dump_replay(d, hists, g, cmd))
            ret = set(ret.split(",")) if ret != "-" else set()
            mw = {}
            if wk != "-":
                for e in wk.split(";"):
                    a, w, x, b = e.split(":")
                    mw[a] = (w, x, b)
            if ret != impl_post or ret != impl_marked:
                only_m = sorted(ret - impl_post)[:5]
                only_i = sorted(impl_post - ret)[:5]
                # judge with the SPEC: an ephemeron whose key survived but whose value did not, or a swept object
                # that the model (= live set, theorem gc_retains_exactly_live) keeps, is a violation of the property
                if only_m:
                    ctx.violation("dump:live-object-swept", input="collection %d of %s" % (g, hist_line(hists[0])[:200]),
                                  expected="retained (live by the SPEC): %s" % only_m, observed="absent from the post dump",
                                  replay=_dump_replay(d, hists, g, cmd))
                else:
                    ctx.broken("inner-correspondence:C16:%s:retained" % name,
                               "collection %d: implementation keeps %d objects the model frees, e.g. %s" % (g, len(impl_post - ret), only_i))
            if mw != impl_weak:
                diff = [a for a in sorted(set(mw) | set(impl_weak)) if mw.get(a) != impl_weak.get(a)][:3]
                detail = "; ".join("%s model %s impl %s pre %s" % (a, mw.get(a), impl_weak.get(a),
                                                                   (pre_weak[a][6], pre_weak[a][7], pre_weak[a][4]) if a in pre_weak else None) for a in diff)
                ctx.violation("dump:weak-object-state", input="collection %d" % g, expected="model (= SPEC by key_broken_iff_unreachable): see why",
                              observed="see why", why=detail, replay=_dump_replay(d, hists, g, cmd))
    ctx.note("%s: %d collections replayed (%s), %d weak objects and %d port/fileno states compared" % (label, len(wanted), wanted, nweak_total, nfin_total[0]))
    if nfin_total[0] == 0 and cmd is None:
        ctx.note("inner: the build prints no port/fileno state (fixes/hook-C16-dump-port-state.patch not applied): finaliser effects are tied by the outer histories only")
    if replayed < (len(wanted) + 1) // 2:
        ctx.broken("inner-correspondence:C16", "only %d of the %d requested collections were found complete in the trace" % (replayed, len(wanted)))
    if nweak_total == 0:
        ctx.broken("inner-correspondence:C16", "no weak object in any dumped collection")


def _dump_replay(d, hists, g, cmd=None):
    return ("printf '%s\\n' | CHIBI_VERIF_TRACE=/dev/stdout CHIBI_VERIF_DUMP=%d CHIBI_VERIF_DUMP_KINDS=1 LD_LIBRARY_PATH=%s CHIBI_MODULE_PATH=%s/lib CHIBI_IGNORE_SYSTEM_PATH=1 %s"
            % ("\\n".join(hist_line(h) for h in hists), g, d, d, " ".join(cmd) if cmd else "%s/chibi-scheme %s" % (d, os.path.abspath(HIST_SCM))))


# ------------------------------------------------------------------------------------------------ descriptor loop
LOOP = r"""
(import (scheme base) (scheme write) (scheme file) (chibi filesystem) (chibi io))
(define (fd-count) (length (directory-files "/proc/self/fd")))
(define base (fd-count))
(define peak 0)
(define kinds (vector %s))
(define nkinds (vector-length kinds))
(define made (make-vector 16 0))
(define (note! k) (vector-set! made k (+ 1 (vector-ref made k))))
;; every kind of port a program can drop unclosed.  The ones made by open-input-file / open-output-file must always be
;; obtainable (collect-and-retry on EMFILE); the raw (open ...) of (chibi filesystem) has no retry, so the kinds built on it
;; give up quietly when the table is full.
(define (drop-one! k)
  (case k
    ((0) (let ((p (open-input-file "/dev/null"))) (read-char p) (note! 0)))
    ((1) (let ((p (open-output-file "/dev/null"))) (write-string "pending" p) (note! 1)))            ; unflushed data
    ((2) (let ((p (open-output-file "/dev/full"))) (write-string "pending" p) (note! 2)))            ; the finaliser's flush FAILS (ENOSPC)
    ((3) (let ((f (guard (e (#t #f)) (open "/dev/null" open/read))))                                ; a port on a fileno closed by hand
           (if (fileno? f) (let ((p (open-input-file-descriptor f))) (close-file-descriptor f) (note! 3)))))
    ((4) (let ((p (make-custom-input-port (lambda (str start end) 0)))) (note! 4)))                   ; custom ports: finalised, own nothing
    ((5) (let ((p (make-custom-output-port (lambda (str start end) (- end start))))) (write-string "pending" p) (note! 5)))
    ((6) (let ((f (guard (e (#t #f)) (open "/dev/zero" open/read))))                                ; a counted port over a dropped fileno
           (if (fileno? f) (let ((p (open-input-file-descriptor f))) (read-u8 p) (note! 6)))))
    ((7) (let ((f (guard (e (#t #f)) (open "/dev/full" open/write))))                               ; fd-backed output port, flush fails
           (if (fileno? f) (let ((p (open-output-file-descriptor f))) (write-string "pending" p) (note! 7)))))
    ((8) (let ((p (open-binary-input-file "/dev/zero"))) (read-u8 p) (note! 8)))
    ((9) (let ((p (open-binary-output-file "/dev/full"))) (write-u8 1 p) (note! 9)))
    (else #f)))
(define (fileno? x) (and x (not (boolean? x)) (not (number? x))))
(let lp ((i 0))
  (if (< i %d)
      (begin
        (drop-one! (vector-ref kinds (modulo i nkinds)))
        (if (= 0 (modulo i 97)) (let ((n (fd-count))) (if (> n peak) (set! peak n))))
        (lp (+ i 1)))))
;; and after all that, ordinary opens must still succeed
(let lp ((i 0) (keep '()))
  (if (< i 8)
      (lp (+ i 1) (cons (if (even? i) (open-input-file "/dev/null") (open-output-file "/dev/null")) keep))
      (for-each close-port keep)))
(write (list 'ok base peak made)) (newline)
"""

# the mixes of dropped ports (kinds of LOOP); the first is the round-1 loop
LOOP_MIXES = [("input+output", [0, 1]), ("all kinds", list(range(10))), ("input + /dev/full output", [0, 0, 0, 0, 2]),
              ("fd-backed", [0, 3, 6, 7]), ("custom + /dev/full", [4, 5, 9, 8, 0])]


def _limit_fds(n=128):
    def f():
        resource.setrlimit(resource.RLIMIT_NOFILE, (n, n))
    return f


def fd_loop(ctx, d, variant, n, mix=0, limit=128):
    """descriptor exhaustion: n ports of the kinds of LOOP_MIXES[mix] are opened and dropped unclosed under RLIMIT_NOFILE=limit;
    every open-input-file / open-output-file on the way and 8 more at the end must succeed"""
    os.makedirs(B.SCRATCH, exist_ok=True)
    label, kinds = LOOP_MIXES[mix]
    with tempfile.NamedTemporaryFile("w", suffix=".scm", prefix="c16-loop-", dir=B.SCRATCH, delete=False) as fh:
        fh.write(LOOP % (" ".join(map(str, kinds)), n))
        path = fh.name
    keep = False
    try:
        try:
            r = subprocess.run([os.path.join(d, "chibi-scheme"), path], capture_output=True, text=True, timeout=600,
                               env=B.chibi_env(d), preexec_fn=_limit_fds(limit))
            out, rc, err = r.stdout.strip(), r.returncode, r.stderr
        except subprocess.TimeoutExpired:
            out, rc, err = "", "TIMEOUT", ""
        ctx.count(1, key=("fd-loop", variant, n, label, limit), nontrivial=True)
        m = re.match(r"\(ok (\d+) (\d+) (#\([\d ]*\))\)", out)
        if not m or rc != 0:
            keep = True
            ctx.violation("fd:dropped-ports-exhaust-descriptors",
                          input="%d ports (%s: kinds %s of LOOP in props/C16.py) opened and dropped, RLIMIT_NOFILE=%d (%s)" % (n, label, kinds, limit, variant),
                          expected="(ok base peak made) with peak <= %d: every open-input-file / open-output-file succeeds after the forced collection" % limit,
                          observed="rc=%s out=%s err=%s" % (rc, out[-200:], err[-300:]),
                          replay="(ulimit -n %d; LD_LIBRARY_PATH=%s CHIBI_MODULE_PATH=%s/lib CHIBI_IGNORE_SYSTEM_PATH=1 %s/chibi-scheme %s)" % (limit, d, d, d, path))
        else:
            ctx.sample(dict(kind="fd-loop", variant=variant, mix=label, iterations=n, limit=limit, base=int(m.group(1)), peak=int(m.group(2)), made=m.group(3)))
    finally:
        if not keep:
            os.unlink(path)


# ------------------------------------------------------------------------------------------------ entry
def run(ctx):
    thorough = ctx.thorough
    ctx.cov["rule"] = ("outer: histories over numbered variable slots (keys, pairs, ephemerons, stream ports, filenos, ports on filenos, "
                       "drops, explicit closes, collections) of four families — random (45%), ephemeron chains of length 1-6 created in "
                       "adverse address order whose inner keys are alive only through other ephemerons' values (20%), values that "
                       "reference their own key incl. 2-cycles of ephemerons (10%), port/fileno lifecycles (25%) — run on the default "
                       "and asan builds and by the extracted history machine; every collection compares, for every ephemeron ever "
                       "made, broken?, key identity and a depth-6 fingerprint of the value, and the number of open descriptors; a "
                       "history is non-trivial when it makes an ephemeron or opens a descriptor, distinct by (variant, text, gc schedule). "
                       "inner: whole-heap dumps before/after the phases of real collections replayed through the extracted gc model. "
                       "round 2: descriptor family (fds 14% of the random stream + 40 scripted scenarios): every explicit close "
                       "(close-port/-input-/-output-port over shared filenos, close-file-descriptor on the fileno object, dup, dup2/renumber), "
                       "reuse of the number by a new pipe, collections, with per-owner /proc/self/fd identity and a write/read through the "
                       "new pipe; layout family on a bare-context C embedding: ephemeron chains of length 2-5 whose objects are placed at "
                       "every relative ADDRESS order of (ephemeron, value, dependent ephemeron, its key) via placeholders and recycled holes, "
                       "values reaching the next key through 0-3 ordinary objects, achieved order read back from the harness and the heap "
                       "dumps; frag family: descriptor owners and ephemerons behind a large free chunk. "
                       "round 4: auto family (90 histories on the embedding): NATURAL automatic collections placed exactly inside chosen "
                       "allocating operations (AK/AC/AE: heap filled with same-size garbage first, so sexp_alloc collects inside the operation; "
                       "achieved count read back from the harness): inside make-ephemeron with no / another ephemeron alive, with dropped ports, "
                       "random heap histories with 40% of the allocations collecting; model = AutoGc.run_sched (gated, scheduled machine). "
                       "round 3: immediates (17 #t #\\a '() 0) as keys and values (3% of the random stream; imm family: 60 histories each in a "
                       "FRESH bare context whose first ephemerons have a heap key + immediate value / an immediate key + heap value / mixtures); "
                       "ports opened with the shutdown flag on pipes, files and socket pairs (48+32 scripted: two flagged ports on one fileno, "
                       "one closed or collected, the survivor must transfer data; half of the ports and 40% of the fds histories flagged); "
                       "66 reference-count scenarios (2-3 readers each ending in one of 5 ways); raw family (7 scripted + 60 random): closes by "
                       "raw integer, closes/dups/dup2s of closed filenos, against the number-level OS model; every disciplined history is also "
                       "cross-checked instance-level vs number-level model; descriptor exhaustion: 5 mixes of 10 kinds of dropped port "
                       "(unflushed /dev/full output, ports on closed filenos, custom ports, ...) under RLIMIT_NOFILE 40-128.")
    d = ctx.build("default")
    from gen import c16_layout
    try:
        c16_layout.regen(ctx, d)        # (G) type table + phase order -> coq/Gen/C16_Layout.v
    except Exception as e:
        ctx.broken("regen:C16_Layout", str(e)[-600:])
    ctx.coq_obligations("Properties_C16")
    exe = ctx.extract("C16")
    if exe is None:
        return
    rng = ctx.rng
    # corpus first
    corpus_dir = os.path.join(HERE, "..", "corpus", "C16")
    corpus, corpus_embed = [], []
    if os.path.isdir(corpus_dir):
        for f in sorted(os.listdir(corpus_dir)):
            for line in open(os.path.join(corpus_dir, f)):
                line = line.strip()
                if line and not line.startswith("#"):
                    ns, ops = line.split(" ", 1)
                    (corpus_embed if f.startswith("embed") else corpus).append((int(ns), ops.split(";"), "corpus:" + f))
    n_def, n_asan, n_sched = (160, 40, 30) if not thorough else (8000, 2000, 2000)
    hists = legalise(ctx, exe, corpus + gen_fd_scenarios(rng) + gen_shutdown_scenarios(rng, False) + gen_refcount_scenarios(rng, False) + gen_histories(rng, n_def))
    cross_models(ctx, exe, hists)
    # round 3: raw-integer closes and operations on closed filenos, against the number-level OS model (not legalised)
    raw = [(int(l.split(" ")[0]), l.split(" ")[1].split(";"), "raw-scripted") for l in RAW_SCRIPTED] + \
          [gen_raw(rng) for _ in range(60 if not thorough else 4000)]
    hists += raw
    mobs, iobs = outer(ctx, exe, d, "default", hists)
    for h, m, i in list(zip(hists, mobs, iobs))[len(corpus):len(corpus) + 3]:
        ctx.sample(dict(kind="outer", history=hist_line(h), family=h[2], model=m, impl=i))
    # every relative address order of the objects the ephemeron scan depends on
    try:
        emb, lay, lay_addrs = layout_family(ctx, exe, d, thorough, corpus_embed)
    except B.BuildError as e:
        ctx.broken("build:embed_c16", str(e)[-800:])
        emb = None
    # sparse forced collections at arbitrary allocation points must not change any observation
    hs2 = legalise(ctx, exe, gen_histories(rng, n_sched))
    # Forcing collections can crash the pinned compiler while the driver script itself is being compiled (a context
    # object swept in use: triaged under C02, nothing to do with weak references).  The allocation numbering of the
    # start-up is the same for every input, so a schedule is usable iff the empty history survives it.
    sched = None
    for _ in range(8):
        cand = dict(CHIBI_VERIF_GC="seed:%d:%d" % (rng.randrange(1, 1000), 4000))
        if isinstance(run_impl(d, [(1, ["G"], "probe")], timeout=120, extra_env=cand)[0], list):
            sched = cand
            break
        ctx.note("forced-gc schedule %s crashes the start-up of the driver (C02's compiler issue); trying another" % cand["CHIBI_VERIF_GC"])
    if sched is None:
        ctx.note("no usable forced-gc schedule found; the forced-schedule histories were skipped")
    else:
        outer(ctx, exe, d, "default+forced-gc", corpus + hs2, env=sched)
    # inner correspondence on dumps
    hd = []
    for k in (3, 5):
        hd.append((k + 3,) + (gen_chain(rng, k, True)[1], "chain%d" % k))
    hd.append(gen_selfref(rng) + ("selfref",))
    hd.append((4, "F,0;P,1,0;P,2,0;O,3;G;D,1;D,3;G;X,2;G;D,0;D,2;G".split(";"), "ports-shared-fileno"))
    hd.append(gen_ports(rng) + ("ports",))
    hd += [(h[0], h[1], h[2]) for h in legalise(ctx, exe, gen_histories(rng, 4 if not thorough else 30))]
    inner(ctx, exe, d, hd, 12 if not thorough else 80)
    # the same on the bare-context embedding, at the collections where the address order of the chain matters
    if emb:
        k = 28 if not thorough else 30
        sel = [h for h in lay if h[2] == "layout2"][::max(1, len([h for h in lay if h[2] == "layout2"]) // (k - 8))][:k - 8] \
            + [h for h in lay if h[2] != "layout2"][:8]
        inner(ctx, exe, d, sel, 0, cmd=[emb], label="inner (embedding, layout family)")
    # asan: touching a swept value traps
    try:
        da = ctx.build("asan")
    except B.BuildError as e:
        ctx.broken("build:asan", str(e)[-800:])
        da = None
    if da:
        outer(ctx, exe, da, "asan", legalise(ctx, exe, corpus + gen_fd_scenarios(rng)[::3] + gen_shutdown_scenarios(rng, False)[::3] + gen_refcount_scenarios(rng, False)[::3] + gen_histories(rng, n_asan)) + raw[:20])
        fd_loop(ctx, da, "asan", 2000 if not thorough else 20000)
        fd_loop(ctx, da, "asan", 600 if not thorough else 6000, mix=1, limit=48)
    fd_loop(ctx, d, "default", 20000)
    # round 3: every kind of dropped port, among them ports whose finaliser FAILS (unflushed data on /dev/full), low limit
    for mix in range(1, len(LOOP_MIXES)):
        fd_loop(ctx, d, "default", 3000 if not thorough else 30000, mix=mix, limit=rng.choice([40, 48, 64]))
    ctx.assume("objects outside the heaps (static, printed 'x' in dumps) are treated as immediates; immediates other than #f are one value (Imm) in the Coq model and told apart beside it by the driver (key: never reset; value: reset iff broken)")
    ctx.assume("the collector is the precise one (SEXP_USE_CONSERVATIVE_GC=0): C stack and registers are not roots; the history driver "
               "collects from a call that holds no references and collects twice")
    ctx.assume("descriptors are named by instance in History.v (compared on the number of open descriptors in /proc/self/fd and per-owner "
               "/proc/self/fd identity); the raw family uses the number-level model NumOs.v (lowest-free numbers; stream ports opened after "
               "a raw close are outside it); shutdown(2) is modelled as releasing nothing (pinned by finalize_port_as_modelled)")
    ctx.assume("SEXP_USE_UNIFY_FILENOS_BY_NUMBER = 0 (the probe of gen/c16_layout.py fails closed otherwise): sexp_make_fileno never returns an existing object")
    ctx.trust("harness/c16_hist.scm (history interpreter on the real binary) and the dump parser in props/C16.py")


def replay(ctx, data):
    """./check C16 --replay evidence/replay/C16-n.json : re-run the recorded histories on the current tree and the model"""
    d = ctx.build("default")
    exe = ctx.extract("C16")
    rc = 0
    for case in data.get("failing_cases", []):
        inp = case.get("input", "")
        m = re.match(r"^(\d+) ([A-Z0-9,;]+)$", inp)
        if not m or exe is None:
            print("not a history (see its 'replay' field):", inp[:200])
            continue
        h = (int(m.group(1)), m.group(2).split(";"), case.get("kind") or "replay")
        dd, cmd = d, None
        if case.get("variant") == "asan":
            dd = ctx.build("asan")
        if case.get("variant") == "embed":       # the bare-context C embedding (a fresh process = a fresh context)
            cmd = [B.cc_embed(d, os.path.join(HERE, "..", "harness", "embed_c16.c"), os.path.join(d, "embed_c16"))]
        mo = model_hist(ctx, exe, [h])[0]
        io = run_impl(dd, [h], timeout=300, cmd=cmd)[0]
        mm = first_mismatch(mo, io)
        print("history:", inp)
        print("  model:", mo)
        print("  impl :", io)
        print("  =>", mm if mm else "agree")
        if mm:
            rc = 1
    return rc
