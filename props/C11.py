"""C11 — green threads: mutual exclusion, no lost wake-ups, schedule independence.
   (T) coq/Properties_C11.v  — invariants of the scheduler model coq/C11/Model.v over all reachable states
   (K-inner) hook H4 trace (CHIBI_VERIF_SCHED_TRACE): every primitive / scheduler call of the real
       lib/srfi/18/threads.c logs the state it leaves; the extracted model is fed the same operations
       (and the logged clock readings) and must be in the same state after every line.
   (K-outer) Scheme programs (harness/c11_progs.scm) with in-program assertions run under injected
       slice lists (CHIBI_VERIF_SCHED): systematic short slices around the lock/unlock/signal windows
       and seeded random slices; every schedule must print the schedule-independent result."""
import os, re, subprocess, json, time
from concurrent.futures import ThreadPoolExecutor
from vlib import build as B

import importlib.util

HERE = os.path.dirname(os.path.abspath(__file__))
PROGS = os.path.join(HERE, "..", "harness", "c11_progs.scm")
EMBED = os.path.join(HERE, "..", "harness", "embed_c11.c")
_spec = importlib.util.spec_from_file_location("c11_rand", os.path.join(HERE, "..", "harness", "c11_rand.py"))
R = importlib.util.module_from_spec(_spec)
_spec.loader.exec_module(R)

PTR = re.compile(r"0x[0-9a-f]+")


# --------------------------------------------------------------------------- trace -> requests
class TraceError(Exception):
    pass


def parse_trace(text, maxlines=20000):
    """returns list of (request, expected) ; expected = dict(res, C, F, B, P, T{tid:(flags,ev,time)}, M)"""
    threads, mutexes, conds = {}, {}, {}
    out = []

    def tid(p, create=True):
        if p not in threads:
            if not create:
                raise TraceError("unknown thread " + p)
            threads[p] = len(threads)
        return threads[p]

    def mid(p):
        return mutexes.setdefault(p, len(mutexes))

    def cid(p):
        return conds.setdefault(p, len(conds))

    def ev(p):
        if p == "-":
            return "-"
        if p in threads:
            return "T%d" % threads[p]
        if p in mutexes:
            return "M%d" % mutexes[p]
        if p in conds:
            return "C%d" % conds[p]
        return "?" + p

    lines = text.split("\n")
    if lines and lines[-1] != "":
        lines = lines[:-1]            # no final newline: the process was killed while writing its last line
    first = True
    dead = set()
    for ln in lines[:maxlines]:
        if not ln or ln.startswith("q "):
            continue
        if " | " not in ln:
            continue                  # truncated
        head, state = ln.split(" | ", 1)
        h = head.split(" ")
        sm = re.match(r"C (\S+) F(.*) B (\S+) P(.*) T(.*?)(?: M (\S+))?$", state)
        if not sm:
            if ln is lines[-1] or not any(x for x in lines[lines.index(ln) + 1:]):
                break                 # the process was killed while writing its last line
            raise TraceError("bad state: " + state[:200])
        if first:
            # the root thread is the current one at the first event unless that is a scheduler line
            root = h[1] if h[0] == "sched" else sm.group(1)
            tid(root)
            first = False
        op = h[0]
        res = h[-1]
        pre = []
        if op == "start":
            req = "start %d" % tid(h[1])
        elif op == "term":
            req = "term %d" % tid(h[1])
        elif op == "join":
            req = "join %d %s %s" % (tid(h[1]), h[2], h[3])
        elif op == "sleep":
            req = "sleep %s %s %s" % ("1" if h[1] == "t" else "0", "n" if h[1] == "t" else h[1], h[2])
        elif op == "lock":
            req = "lock %d %s %s self" % (mid(h[1]), h[2], h[3])
        elif op == "unlock":
            req = "unlock %d %s %s %s" % (mid(h[1]), "-" if h[2] == "-" else str(cid(h[2])), h[3], h[4])
        elif op == "signal":
            req = "signal %d" % cid(h[1])
        elif op == "sched":
            req = "sched %s %s" % (h[2], h[3])
        else:
            raise TraceError("unknown op " + op)
        exp = dict(res=res, C=tid(sm.group(1)), F=[tid(x) for x in sm.group(2).split()],
                   B=sm.group(3), P=[tid(x) for x in sm.group(4).split()], T={}, M=None)
        b = sm.group(3)
        exp["B"] = "-" if b == "-" else ("%d%s" % (tid(b.rstrip("+")), "+" if b.endswith("+") else ""))
        for item in sm.group(5).split():
            p, fl, e, tm = item.split(":")
            exp["T"][tid(p)] = (fl, ev(e), tm)
        if sm.group(6):
            p, l, o = sm.group(6).split(":")
            exp["M"] = (mid(p), l, "-" if o == "-" else str(tid(o)))
        if op == "sched":
            old = tid(h[1])
            exp["old"] = old
        if op == "lock":
            # the owner recorded by the real code tells whether the default (#t = caller) was used
            pass
        out.append((req, exp))
    return out, dict(threads=len(threads), mutexes=len(mutexes), conds=len(conds))


def replay_trace(ctx, exe, text, fixed=True, name=""):
    """feeds the trace's operations to the extracted model; returns (n_lines_checked, mismatch or None)"""
    items, dims = parse_trace(text)
    if not items:
        return 0, None
    # the model needs an explicit exit operation when a thread's thunk returns: visible in the trace
    # as a scheduler call by a thread that is not live any more and was not terminated by an op
    reqs = ["reset %d" % (1 if fixed else 0), "dims %d %d" % (max(1, dims["threads"]), max(1, dims["mutexes"]))]
    plan = []
    dead = set()
    for req, exp in items:
        if req.startswith("sched"):
            old = exp["old"]
            fl = exp["T"].get(old)
            if fl and fl[0][2] == "0" and old not in dead:
                reqs.append("exit")
                plan.append(None)
                dead.add(old)
        if req.startswith("term"):
            dead.add(int(req.split()[1]))
        reqs.append(req)
        plan.append((req, exp))
    outs = ctx.run_model(exe, reqs)[2:]
    n = 0
    for (pl, o) in zip(plan, outs):
        if pl is None:
            continue
        req, exp = pl
        n += 1
        why = compare_state(o, exp)
        if why:
            return n, dict(line=n, request=req, why=why, model=o, impl=exp, trace=name)
    return n, None


def compare_state(model_line, exp):
    m = re.match(r"(E[01]) (#[tf]) \| C (\d+) F (\S*) B (\S+) P (\S*) T(.*) M(.*)$", model_line)
    if not m:
        return "model answer unparsable: " + model_line[:100]
    if m.group(1) != "E1":
        return "operation not enabled in the model (a primitive ran in a waiting or dead thread)"
    if exp["res"] in ("#t", "#f") and m.group(2) != exp["res"]:
        return "result %s vs %s" % (m.group(2), exp["res"])
    if int(m.group(3)) != exp["C"]:
        return "current thread %s vs %s" % (m.group(3), exp["C"])
    F = [int(x) for x in m.group(4).split(",") if x]
    P = [int(x) for x in m.group(6).split(",") if x]
    if F != exp["F"]:
        return "run queue %s vs %s" % (F, exp["F"])
    if P != exp["P"]:
        return "paused list %s vs %s" % (P, exp["P"])
    if exp["B"].endswith("+"):
        return "BACK is not the last cell of the run queue (%s)" % exp["B"]
    if m.group(5) != exp["B"]:
        return "back %s vs %s" % (m.group(5), exp["B"])
    T = {}
    for item in m.group(7).split():
        t, fl, e, tm = item.split(":")
        T[int(t)] = (fl, e, tm)
    for t, v in exp["T"].items():
        if t in T and T[t] != v:
            return "thread %d: %s vs %s" % (t, T[t], v)
    if exp["M"]:
        mm = {}
        for item in m.group(8).split():
            i, l, o = item.split(":")
            mm[int(i)] = (l, o)
        i, l, o = exp["M"]
        if i in mm and mm[i] != (l, o):
            return "mutex %d: %s vs %s" % (i, mm[i], (l, o))
    return None


def check_state_invariant(exp):
    """the statements of queues_wellformed / waiting_is_paused evaluated on one dumped state of the
    real implementation (spec oracle, independent of the model); returns None or what is violated"""
    F, P, C = exp["F"], exp["P"], exp["C"]
    if len(set(F)) != len(F):
        return "run queue has a duplicate: %s" % F
    if len(set(P)) != len(P):
        return "paused list has a duplicate: %s" % P
    if set(F) & set(P):
        return "thread in run queue and paused list: %s / %s" % (F, P)
    if C in F:
        return "running thread %d is in the run queue %s" % (C, F)
    if exp["B"].endswith("+"):
        return "BACK is not the last cell"
    if (exp["B"] == "-") != (not F) or (F and exp["B"] != str(F[-1])):
        return "BACK %s is not the last cell of %s" % (exp["B"], F)
    for t, (fl, e, tm) in exp["T"].items():
        if fl[0] == "1" and fl[2] == "1" and t != C and t not in P:
            return "thread %d is waiting but neither running nor paused (unreachable by wake-ups)" % t
        if t in P and fl[0] != "1":
            return "paused thread %d is not marked waiting" % t
        if fl[2] == "0" and (fl[0] == "1" or t in P):
            # round 4, dead_threads_do_not_wait evaluated on the real state
            return "ended thread is %s: thread %d" % ("in the paused list" if t in P else "marked waiting", t)
    return None


# --------------------------------------------------------------------------- random programs (round 2)
def squeeze_trace(text):
    """drops the interior of every run of scheduler lines that leave exactly the same state and differ only in the
    clock readings (a lone runnable thread re-scheduled at every slice end, or an ended thread spinning until the next
    timeout): the first and the last line of a run are kept, so the model is still asked at the earliest and at the
    latest clock reading at which the real scheduler changed nothing"""
    out = []
    keys = []
    for ln in text.split("\n"):
        if ln.startswith("q "):
            continue
        key = None
        if ln.startswith("sched ") and " | " in ln:
            h, st = ln.split(" | ", 1)
            hh = h.split(" ")
            key = (hh[1], hh[-1], st)
        if key is not None and len(keys) >= 2 and keys[-1] == key and keys[-2] == key:
            out[-1] = ln          # extend the run: replace its last line
            continue
        out.append(ln)
        keys.append(key)
    return "\n".join(out)


def model_answers(ctx, exe, traces, fixed=True):
    """traces: list of parse_trace items lists.  One model process for all.  Returns per trace a list of answers
    aligned with its items (the inserted exit operations removed); an answer list is cut at the first line the
    model does not answer."""
    reqs, plan = [], []
    for ti, (items, dims) in enumerate(traces):
        reqs += ["reset %d" % (1 if fixed else 0), "dims %d %d" % (max(1, dims["threads"]), max(1, dims["mutexes"]))]
        plan += [None, None]
        dead = set()
        for k, (req, exp) in enumerate(items):
            if req.startswith("sched"):
                old = exp["old"]
                fl = exp["T"].get(old)
                if fl and fl[0][2] == "0" and old not in dead:
                    reqs.append("exit")
                    plan.append(None)
                    dead.add(old)
            if req.startswith("term"):
                dead.add(int(req.split()[1]))
            reqs.append(req)
            plan.append((ti, k))
    outs = ctx.run_model(exe, reqs)
    res = [[None] * len(items) for items, _ in traces]
    for pl, o in zip(plan, outs):
        if pl is not None:
            res[pl[0]][pl[1]] = o
    return res


def seed_schedules(rng, n):
    out = []
    for _ in range(n):
        x = rng.random()
        if x < 0.15:
            out.append("-")
        elif x < 0.8:
            out.append("seed:%d:%d" % (rng.randrange(1, 10 ** 6), rng.choice([2, 5, 8, 13, 30, 30, 60, 60, 120, 200, 400])))
        else:
            k = rng.choice([1, 3, 9, 17, 33, 65])
            out.append("list:" + ",".join([str(k)] * rng.choice([30, 100])))
    return out


def run_random(ctx, d, emb, exe, tdir, replay_base, nprog, nsched):
    """random thread programs x slice schedules on the virtual clock, every run traced: (1) the property's clauses
    evaluated on the real scheduler's states (R.trace_oracle) and on the program's logged outcomes (R.spec_outcome),
    (2) every traced state compared with the extracted model, (3) the logged outcomes compared with the outcomes
    predicted from the model's answers through the wrapper semantics of interface.scm."""
    rng = ctx.rng
    acc = dict(feats={}, found={}, diverge=None, outcome_diff=None, n_lines=0, n_traces=0, n_outside=0, n_pred=0, n_gap=0,
               n_df=0, runs=0, first=None, hangs=0, nondf_hangs=0)
    # corpus first: programs that reach the situations missed in round 1 (corpus/C11/*.json)
    cdir = os.path.join(HERE, "..", "corpus", "C11")
    cps, csc = [], []
    for f in sorted(os.listdir(cdir)) if os.path.isdir(cdir) else []:
        if f.endswith(".json"):
            c = json.load(open(os.path.join(cdir, f)))
            cps.append(c["prog"])
            csc.append(c["schedules"])
    if cps:
        _random_chunk(ctx, d, emb, exe, tdir, replay_base, cps, 0, acc, scheds=csc)
    ctx.cov["corpus_programs"] = len(cps)
    done = 0
    while done < nprog and acc["hangs"] < 6:
        k = min(100, nprog - done)           # bounded memory: 100 programs (x schedules) per round
        ps = [R.gen_program(rng) for _ in range(k)]
        ps = [R.shift_clock(rng, p) if i % 8 == 3 else p for i, p in enumerate(ps)]     # round 4: 1 in 8 straddles a full second
        _random_chunk(ctx, d, emb, exe, tdir, replay_base, ps, nsched, acc)
        done += k
    # round 4: timed waits with EQUAL wake times and wake times 1 us apart (boundaries of the strict comparison in
    # sexp_insert_timed's scan and in the scheduler's timeout splice; never reached by the random programs because every clock
    # reading moves the virtual clock): first run -> wake times from the trace -> timeouts adjusted -> second run, same schedule
    neq = 12 if nprog <= 300 else 120
    eqs = [R.eq_program(rng) for _ in range(neq)]
    escs = [rng.choice(["-", "-", "list:200,200,200", "seed:%d:60" % rng.randrange(1, 10 ** 6)]) for _ in eqs]
    ereqs = [(sc, "1000", os.path.join(tdir, "e%d.txt" % i), p["expr"]) for i, (p, sc) in enumerate(zip(eqs, escs))]
    parallel_batches(d, emb, ereqs, jobs=4, limit=4)
    adj, adjs = [], []
    for p, sc, r in zip(eqs, escs, ereqs):
        try:
            items, _ = parse_trace(squeeze_trace(open(r[2]).read()))
            q = R.eq_adjust(rng, p, items)
        except Exception:
            q = None
        if q:
            adj.append(q)
            adjs.append([sc])
    if eqs:
        _random_chunk(ctx, d, emb, exe, tdir, replay_base, eqs + adj, 0, acc, scheds=[[sc] for sc in escs] + adjs)
    ctx.cov["equal_wake_time_programs"] = dict(generated=len(eqs), adjusted=len(adj))
    if acc["diverge"] and not [c for c in acc["found"] if acc["found"][c] is not None]:
        # model and code disagree but no clause of the property failed: targeted search for a failing input —
        # the diverging program under 40 more schedules, all oracles on
        _random_chunk(ctx, d, emb, exe, tdir, replay_base, [acc["diverge"][1]], 40, acc)
    feats, found, diverge, outcome_diff = acc["feats"], acc["found"], acc["diverge"], acc["outcome_diff"]
    ctx.cov["random_programs"] = dict(programs=done, runs=acc["runs"], traces=acc["n_traces"], trace_lines_vs_model=acc["n_lines"],
                                      outcomes_predicted=acc["n_pred"], traces_with_terminate_of_timed_waiter=acc["n_outside"],
                                      cut_at_untraced_scheduler_call=acc["n_gap"], deadlock_free=acc["n_df"],
                                      hangs_of_programs_that_terminate_threads=acc["nondf_hangs"])
    ctx.cov["random_situations_reached"] = dict(sorted(feats.items()))
    ctx.cov["traces_validated_against_impl"] += acc["n_traces"]
    for cls, det in found.items():
        if det is not None:
            ctx.violation(cls, **det)
    if diverge:
        mm, p, sc, rp = diverge
        msg = "model and threads.c disagree at event %s (%s): %s; program %s schedule %s" % (mm["line"], mm["request"], mm["why"], p["expr"], sc[:200])
        if [c for c in found if found[c] is not None]:
            ctx.note("random programs: " + msg)
        else:
            ctx.broken("correspondence:scheduler-trace", msg, model=mm["model"], impl=mm["impl"], replay=rp)
    if outcome_diff:
        (i, a, b), p, sc, rp = outcome_diff
        msg = ("thread %s: outcomes predicted from the model %s, logged by the program %s" % (i, a, b)) if i is not None else a
        if [c for c in found if found[c] is not None]:
            ctx.note("random programs: outcome prediction: " + msg)
        else:
            ctx.broken("correspondence:wrapper-outcome", msg + "; program %s schedule %s" % (p["expr"], sc[:200]), replay=rp)
    if acc["first"]:
        ctx.sample(acc["first"])
    # regression of the harness itself: on this request batch the result of request 9 used to be swept while it was written,
    # because embed_c11.c held it in an unregistered C local (round 2, found by C02's triage); it is gc-preserved now
    gb = os.path.join(cdir, "gc-live-value-swept.batch")
    if os.path.exists(gb):
        outs = run_batch(d, emb, [tuple(r) for r in json.load(open(gb))], limit=6)
        if any(o and "#<" in o for o in outs):
            ctx.broken("harness:embed_c11-result-not-rooted", "a request of corpus/C11/gc-live-value-swept.batch printed a swept value: %s" % [o[:200] for o in outs if o and "#<" in o][:1])
    return acc["n_lines"]


def _random_chunk(ctx, d, emb, exe, tdir, replay_base, progs, nsched, acc, scheds=None):
    rng = ctx.rng
    reqs, meta = [], []
    for pi, p in enumerate(progs):
        for si, sc in enumerate(scheds[pi] if scheds else seed_schedules(rng, nsched)):
            tr = os.path.join(tdir, "r%d_%d.txt" % (pi, si))
            reqs.append((sc, "1000", tr, p["expr"]))
            meta.append((p, sc, tr))
    outs = parallel_batches(d, emb, reqs, jobs=4, limit=4)
    feats, found = acc["feats"], acc["found"]
    diverge, outcome_diff = acc["diverge"], acc["outcome_diff"]
    n_lines = n_traces = n_outside = n_pred = n_gap = 0
    acc["runs"] += len(reqs)
    acc["n_df"] += sum(1 for p in progs if p["df"])
    acc["hangs"] += sum(1 for o in outs if o in (None, "TIMEOUT"))
    if acc["first"] is None and progs:
        acc["first"] = dict(kind="random", program=progs[0]["expr"][:400], schedule=meta[0][1], impl=(outs[0] or "")[:300])
    parsed = []
    for (p, sc, tr), o in zip(meta, outs):
        text = ""
        if os.path.exists(tr):
            text = squeeze_trace(open(tr).read())
        try:
            items, dims = parse_trace(text)
        except (TraceError, ValueError, IndexError) as e:
            items, dims = [], dict(threads=1, mutexes=1, conds=1)
            if "trace-format" not in found:
                found["trace-format"] = None
                ctx.broken("correspondence:trace-format", "cannot parse the H4 trace of %s under %s: %s" % (p["expr"], sc[:80], e))
        parsed.append((items, dims))
    try:
        answers = model_answers(ctx, exe, parsed)
    except Exception as e:
        ctx.broken("correspondence:model-driver", "the extracted model driver failed on the random-program traces: %s" % str(e)[-500:])
        answers = [[None] * len(it) for it, _ in parsed]
    for (p, sc, tr), o, (items, dims), ans in zip(meta, outs, parsed, answers):
        ctx.count(1, key=(p["expr"], sc), nontrivial=True)
        if o == "SKIPPED":
            continue
        rp = "printf '%s\\t1000\\t/dev/stderr\\t%s\\n' | %s   # result on stdout, H4 trace on stderr" % (sc, p["expr"].replace("'", "'\\''"), replay_base)
        inp = dict(program=p["expr"], schedule=sc[:300], clock="1000", deadlock_free_by_construction=p["df"])

        def hit(cls, **kw):
            if cls not in found:
                found[cls] = dict(input=inp, replay=rp, **kw)
        # ---- outcome: schedule-independent clauses
        if o is None or o == "TIMEOUT" or (o or "").startswith("CRASH"):
            if p["df"] or (o or "").startswith("CRASH"):
                hit("random-program:" + ("hang" if o in (None, "TIMEOUT") else "crash"), expected="the program ends (deadlock-free by construction, virtual clock)", observed=str(o))
            else:
                acc["nondf_hangs"] += 1      # a program that terminates threads may deadlock by design; its trace is still judged
            res = None
        else:
            try:
                res = R.read_sexp(o)
            except Exception:
                res = None
            if res is None or o.startswith("EXC"):
                hit("random-program:exception", expected="a result list", observed=o[:300])
                res = None
            else:
                for cls, msg in R.spec_outcome(p, res):
                    hit("random-program:" + cls, expected="outcome allowed by SRFI-18 for every schedule", observed=msg, result=o[:600])
        if not items:
            continue
        n_traces += 1
        # ---- the property's clauses on the real scheduler's states
        cut = len(items)
        for k in range(1, len(items)):
            # round 4: thread-terminate! of a paused thread with a pending timeout is an enabled operation of the model
            # (no cut any more); counted to show that the generator reaches it
            if items[k][0].startswith("term"):
                v = int(items[k][0].split()[1])
                pe = items[k - 1][1]
                tv = pe["T"].get(v)
                if v in pe["P"] and tv and tv[2] not in ("0.000000", "0.0"):
                    n_outside += 1
                    break
        for k in range(1, cut):
            pe = items[k - 1][1]
            if (not items[k][0].startswith("sched") and not pe["F"] and set(pe["P"]) <= {pe["C"]}
                    and pe["T"].get(pe["C"], ("0",))[0][0] == "1" and items[k][1]["C"] == pe["C"]):
                cut = k          # the hook prints no line for a scheduler call that leaves a single runnable thread and empty
                n_gap += 1       # lists (the only thread's own timeout ended): nothing to compare from here on
                break
        f = set()
        for cls, msg, k in R.trace_oracle(items[:cut], f):
            hit("sched-trace:" + cls, expected="C11 clause holds in every state of the real scheduler", observed=msg, trace_event=k, operation=items[k][0])
        for k, (req, exp) in enumerate(items[:cut]):
            w = check_state_invariant(exp)
            if w:
                hit("scheduler-state:" + re.sub(r"[^a-zA-Z ]", "", w).strip().replace(" ", "-")[:50], expected="queues_wellformed / waiting_is_paused hold in every state of the real scheduler",
                    observed=w, trace_event=k, operation=req)
                break
        for x in f:
            feats[x] = feats.get(x, 0) + 1
        # ---- every traced state against the extracted model
        mm = None
        for k in range(cut):
            if ans[k] is None:
                break
            n_lines += 1
            why = compare_state(ans[k], items[k][1])
            if why:
                mm = dict(line=k, request=items[k][0], why=why, model=ans[k], impl=str(items[k][1])[:600])
                break
        if mm and diverge is None:
            diverge = (mm, p, sc, rp)
        # ---- outcomes predicted from the model's answers
        if mm is None and res is not None and cut == len(items) and len(items) < 19000:
            try:
                logs, complete = R.predict(p, items, ans)
                n_pred += 1
                if complete and logs != res[1:] and outcome_diff is None:
                    victims = set(o[1] for ops in p["specs"] for o in R.walk(ops) if o[0] == "k")
                    bad = [(i, a, b) for i, (a, b) in enumerate(zip(logs, res[1:])) if a != b and not any(isinstance(x, list) and x[1] == "exc?" for x in a)
                           and not (i in victims and (a[:len(b)] == b or b[:len(a)] == a))]
                    if bad:
                        outcome_diff = (bad[0], p, sc, rp)
            except R.Mismatch as e:
                if outcome_diff is None:
                    outcome_diff = ((None, str(e), None), p, sc, rp)
    acc["diverge"], acc["outcome_diff"] = diverge, outcome_diff
    for k_, v_ in (("n_lines", n_lines), ("n_traces", n_traces), ("n_outside", n_outside), ("n_pred", n_pred), ("n_gap", n_gap)):
        acc[k_] += v_
    for f in os.listdir(tdir):
        if f.startswith("r"):
            os.unlink(os.path.join(tdir, f))


# --------------------------------------------------------------------------- round 3: schedule independence of properly locked programs
def run_sv(ctx, d, emb, exe, replay_base, nprog, nsched, nneg):
    """programs of coq/C11/Prog.v (round-2 random programs translated, with read-modify-write accesses to shared variables
    inside the critical sections of the variable's mutex).  Class membership is decided by the extracted checker
    `properly_locked`; the expected store and thread results come from the extracted `run` on ONE canonical schedule
    (theorem schedule_independence_locked_partial: every finishing run of a program of the class has that outcome); the
    real binary must print exactly that under every injected schedule.  Negative control: programs that update a shared
    variable without its mutex must be rejected by the checker and must show different results on the real binary for
    some pair of schedules (the class is not vacuous, the hook pre-empts inside unprotected sections)."""
    rng = ctx.rng
    progs = [R.to_sv(rng) for _ in range(nprog)] + [R.to_sv(rng, True) for _ in range(max(2, nprog // 10))]
    negs = [R.neg_program(rng) for _ in range(nneg)]
    allp = progs + negs
    try:
        ans = ctx.run_model(exe, ["prog 400000 - " + p["tokens"] for p in allp])
    except Exception as e:
        ctx.broken("correspondence:model-driver", "the extracted model driver failed on the Prog.v programs: %s" % str(e)[-500:])
        return
    reqs, meta = [], []
    for pi, p in enumerate(allp):
        if p["kind"] == "unlocked":
            scs = ["-", "seed:%d:2" % rng.randrange(1, 10 ** 6), "seed:%d:3" % rng.randrange(1, 10 ** 6), "seed:%d:5" % rng.randrange(1, 10 ** 6),
                   "seed:%d:13" % rng.randrange(1, 10 ** 6), "seed:%d:40" % rng.randrange(1, 10 ** 6), "list:" + ",".join(["7"] * 200), "list:" + ",".join(["2"] * 400)]
        else:
            scs = ["-", "seed:%d:%d" % (rng.randrange(1, 10 ** 6), rng.choice([2, 3, 5]))] + seed_schedules(rng, max(0, nsched - 2))
        for sc in scs:
            reqs.append((sc, "1000", "-", p["expr"]))
            meta.append((pi, sc))
    outs = parallel_batches(d, emb, reqs, jobs=4, limit=6)
    by = {}
    for (pi, sc), o in zip(meta, outs):
        by.setdefault(pi, []).append((sc, o))
    stats = dict(in_class=0, outside_class=0, runs=len(reqs), in_class_runs=0, negative_programs=len(negs), negative_schedule_dependent=0,
                 unlocked_mixed=0, unlocked_mixed_schedule_dependent=0, canonical_not_finished=0)
    found = {}

    def hit(cls, **kw):
        if cls not in found:
            found[cls] = kw
    first = None
    for pi, p in enumerate(allp):
        a = ans[pi]
        m = re.match(r"PL([01]) (?:F (\S*) \| (\S*)|(\w+))$", a or "")
        if not m:
            ctx.broken("correspondence:model-driver", "unparsable answer to a prog request: %r" % (a,))
            return
        pl = m.group(1) == "1"
        rp = lambda sc: "printf '%s\\t1000\\t-\\t%s\\n' | %s" % (sc, p["expr"].replace("'", "'\\''"), replay_base)
        res = by.get(pi, [])
        for sc, o in res:
            ctx.count(1, key=(p["expr"], sc), nontrivial=(sc != "-"))
        distinct = sorted(set(o for sc, o in res if o not in ("SKIPPED",)))
        if p["kind"] == "locked":
            if not pl:
                stats["outside_class"] += 1
                continue
            stats["in_class"] += 1
            if m.group(4):
                stats["canonical_not_finished"] += 1
                if "canon" not in found:
                    found["canon"] = None
                    ctx.broken("model:canonical-run-not-finished", "Prog.run on the canonical schedule ends with %s for a properly locked, deadlock-free program (liveness is not proved, "
                               "this is its check): %s" % (m.group(4), p["expr"]))
                continue
            expected = "(0 0 (%s) (%s))" % (m.group(2).replace(",", " "), m.group(3).replace(",", " "))
            if first is None:
                first = dict(kind="properly-locked", program=p["expr"][:500], expected_from_model_canonical_run=expected, impl=[(sc[:30], o) for sc, o in res][:4])
            for sc, o in res:
                if o == "SKIPPED":
                    continue
                stats["in_class_runs"] += 1
                if o == expected:
                    continue
                inp = dict(program=p["expr"], schedule=sc[:300], clock="1000", properly_locked=True)
                if o in (None, "TIMEOUT"):
                    hit("schedule-independence:hang", input=inp, expected=expected, observed=str(o), replay=rp(sc))
                elif (o or "").startswith("CRASH") or (o or "").startswith("EXC"):
                    hit("schedule-independence:" + ("crash" if o.startswith("CRASH") else "exception"), input=inp, expected=expected, observed=o[:300], replay=rp(sc))
                else:
                    try:
                        r = R.read_sexp(o)
                        e = R.read_sexp(expected)
                        what = ("mutual-exclusion" if r[0] != 0 else "untimed-lock-failed" if r[1] != 0 else "final-store" if r[2] != e[2] else "thread-result")
                    except Exception:
                        what = "result-shape"
                    hit("schedule-independence:" + what, input=inp, expected=expected + "   (Prog.run on the canonical schedule; the same for every schedule by schedule_independence_locked_partial)",
                        observed=o[:300], other_schedules=[(s2[:40], o2) for s2, o2 in res if s2 != sc][:3], replay=rp(sc))
        else:
            if pl:
                ctx.broken("checker:properly_locked-accepts-unlocked-access", "the extracted checker accepts a program with an access outside its mutex: %s" % p["expr"])
                continue
            dep = len(distinct) >= 2
            if p["kind"] == "unlocked":
                stats["negative_schedule_dependent"] += dep
            else:
                stats["unlocked_mixed"] += 1
                stats["unlocked_mixed_schedule_dependent"] += dep
    ctx.cov["locked_programs"] = stats
    for cls, det in found.items():
        if det is not None:
            ctx.violation(cls, **det)
    if negs and stats["negative_schedule_dependent"] * 2 < len(negs):
        ctx.broken("negative-control:unlocked-programs-look-schedule-independent",
                   "only %d of %d programs that increment a shared variable without its mutex printed different results under 8 schedules: the slice hook does not "
                   "pre-empt inside unprotected sections (or the harness ignores CHIBI_VERIF_SCHED)" % (stats["negative_schedule_dependent"], len(negs)))
    if first:
        ctx.sample(first)
    ctx.assume("Prog.v micro-steps: each instruction of harness/c11_progs.scm prog-sv makes at most one access to shared state (one primitive call, one vector-ref or one "
               "vector-set! of the store), so every pre-emption point of the VM corresponds to a boundary between two micro-steps of Prog.run")


# --------------------------------------------------------------------------- round 3: standalone replays of repaired defects (corpus/C11/*.scm)
CORPUS_SCM = [
    # file, signature, expected stdout lines (None: every line ends with (raised "thread terminated"))
    ("terminate-timed-waiter-joiner.scm", "terminate:timed-waiter:joiner-not-woken", ["p-done", "j-done"]),
    ("terminate-timed-waiter-sleeper-loses-timeout.scm", "terminate:timed-waiter:sleeper-loses-timeout", ["p-done"]),
    ("terminate-timed-waiter-steals-unlock.scm", "terminate:timed-waiter:steals-unlock", ["w-done"]),
    ("join-terminated-thread.scm", "join:terminated-thread-result", None),
    ("terminate-after-normal-end.scm", "terminate:finished-thread-result", ["body-result", "(returned body-result)"]),
]


def run_corpus_scm(ctx, d):
    cdir = os.path.join(HERE, "..", "corpus", "C11")
    for f, sig, expected in CORPUS_SCM:
        path = os.path.abspath(os.path.join(cdir, f))
        if not os.path.exists(path):
            continue
        try:
            r = B.run_chibi(d, [path], timeout=20, extra_env={"CHIBI_VERIF_SCHED_CLOCK": "1000"})
            got = [l.strip() for l in r.stdout.split("\n") if l.strip()]
        except subprocess.TimeoutExpired:
            got = ["HANG"]
        ctx.count(1, key=("corpus-scm", f), nontrivial=True)
        ok = (got == expected) if expected is not None else (len(got) >= 5 and all(l.endswith('(raised "thread terminated")') for l in got))
        if not ok:
            ctx.violation(sig, input=open(path).read(), expected=" / ".join(expected) if expected else 'every line: (raised "thread terminated")',
                          observed=" / ".join(got)[:600], clock="1000",
                          replay="CHIBI_VERIF_SCHED_CLOCK=1000 LD_LIBRARY_PATH=%s CHIBI_MODULE_PATH=%s/lib CHIBI_IGNORE_SYSTEM_PATH=1 %s/chibi-scheme %s" % (d, d, d, path))


# --------------------------------------------------------------------------- harness driving
def run_batch(d, emb, reqs, limit=5, timeout=120):
    """reqs: list of (sched, clock, trace, expr); returns list of answers ('TIMEOUT'/'CRASH..' per hung request)"""
    res = [None] * len(reqs)
    lo = 0
    nbad = 0
    while lo < len(reqs):
        text = "".join("%s\t%s\t%s\t%s\n" % r for r in reqs[lo:])
        try:
            r = subprocess.run([emb, PROGS, str(limit)], input=text, capture_output=True, text=True,
                               env=B.chibi_env(d), timeout=timeout + limit * 3)
            out, rc, err = r.stdout, r.returncode, r.stderr
        except subprocess.TimeoutExpired as e:
            out = e.stdout.decode() if isinstance(e.stdout, bytes) else (e.stdout or "")
            rc, err = "TIMEOUT", ""
        lines = out.split("\n")
        if lines and lines[-1] == "":
            lines.pop()
        for k, l in enumerate(lines[:len(reqs) - lo]):
            res[lo + k] = l
        done = lo + min(len(lines), len(reqs) - lo)
        if done >= len(reqs):
            break
        # the request after the last answer killed or hung the harness
        res[done] = "TIMEOUT" if rc in ("TIMEOUT", -14) else "CRASH rc=%s %s" % (rc, (err or "")[-200:].replace("\n", " | "))
        lo = done + 1
        nbad += 1
        if nbad >= 3:       # a broken scheduler hangs on most schedules: three witnesses per batch are enough
            for k in range(lo, len(reqs)):
                res[k] = "SKIPPED"
            break
    return res


def parallel_batches(d, emb, reqs, jobs=4, limit=5):
    if not reqs:
        return []
    n = max(1, (len(reqs) + jobs - 1) // jobs)
    chunks = [reqs[i:i + n] for i in range(0, len(reqs), n)]
    with ThreadPoolExecutor(max_workers=jobs) as ex:
        outs = list(ex.map(lambda c: run_batch(d, emb, c, limit), chunks))
    return [o for c in outs for o in c]


# --------------------------------------------------------------------------- programs and their spec results
def lst(xs):
    return "(" + " ".join(str(x) for x in xs) + ")"


def programs(thorough):
    """(name, expr, expected written result, needs virtual clock)"""
    ps = []
    for n, k in [(2, 2), (3, 2), (3, 3)] + ([(4, 3), (2, 6)] if thorough else []):
        ps.append(("counter", "(prog-counter %d %d)" % (n, k), "(0 %d %s)" % (n * k, lst(range(n))), False))
    for n, k in [(2, 2), (3, 1)] + ([(3, 2)] if thorough else []):
        nk = n * k
        ps.append(("two-mutexes", "(prog-two-mutexes %d %d)" % (n, k), "(0 %d %d %s)" % (nk, nk * (nk + 1) // 2, lst(range(n))), False))
    for k in [2, 4] + ([7] if thorough else []):
        ps.append(("pingpong", "(prog-pingpong %d)" % k, "(0 %d produced consumed)" % (k * (k + 1) // 2), False))
    for n in [2, 3] + ([5] if thorough else []):
        ps.append(("barrier", "(prog-barrier %d)" % n, "(0 %d %d %s)" % (n, n, lst(i * i for i in range(n))), False))
    for n in [3, 4]:
        ps.append(("join-chain", "(prog-join-chain %d)" % n, "(0 %d %d)" % (n * (n - 1) // 2, n - 1), False))
    ps.append(("timed", "(prog-timed)", "(0 #f #f flag-seen set #f)", True))
    ps.append(("terminate", "(prog-terminate)", "(0 timed-out u-done joined #t)", True))
    for n, k in [(2, 2), (3, 2)]:
        ps.append(("stale-timeout", "(prog-stale-timeout %d %d)" % (n, k), "(0 %d %s)" % (n * k, lst(["#f"] * n)), True))
    for n, k in [(2, 2), (3, 2)]:
        ps.append(("wind", "(prog-wind %d %d)" % (n, k), "(0 %d %s root)" % (n * k, lst(range(n))), False))
    return ps


def schedules(rng, thorough):
    """slice-list specifications: systematic short slices (every instruction offset of the first
    pre-emptions), all-k prefixes (a context switch every k instructions), seeded random slices"""
    out = ["-"]
    K = 48 if not thorough else 90
    for i in range(1, K + 1):                       # one pre-emption at every offset, then default quantum
        out.append("list:%d" % i)
    pairs = [(i, j) for i in range(1, K + 1) for j in range(1, 25)]
    rng.shuffle(pairs)
    for i, j in pairs[:(70 if not thorough else 900)]:   # two pre-emptions
        out.append("list:%d,%d" % (i, j))
    trip = [(i, j, k) for i in range(1, 30) for j in range(1, 14) for k in range(1, 14)]
    rng.shuffle(trip)
    for t in trip[:(50 if not thorough else 1500)]:      # three pre-emptions
        out.append("list:%d,%d,%d" % t)
    for k in (1, 2, 3, 4, 5, 7):                    # a switch every k instructions for a long prefix
        for n in ((40, 400) if not thorough else (20, 100, 400, 2000)):
            out.append("list:" + ",".join([str(k)] * n))
    for _ in range(12 if not thorough else 150):    # an offset, then single-instruction slices through a window
        i, n = rng.randrange(1, 120), rng.randrange(3, 60)
        out.append("list:%d,%s" % (i, ",".join(["1"] * n)))
    for _ in range(40 if not thorough else 1500):
        out.append("seed:%d:%d" % (rng.randrange(1, 10 ** 6), rng.choice([1, 2, 3, 5, 8, 13, 30, 100])))
    return out


def shrink(d, emb, expr, clock, sched, is_bad):
    """minimise a failing list: schedule (shortest prefix, then smaller slices)"""
    if not sched.startswith("list:"):
        return sched
    xs = [int(x) for x in sched[5:].split(",")]

    def bad(ys):
        r = run_batch(d, emb, [("list:" + ",".join(map(str, ys)) if ys else "-", clock, "-", expr)], limit=3)[0]
        return is_bad(r)
    budget = 14
    while len(xs) > 1 and budget > 0:
        budget -= 1
        if len(xs) > 8 and bad(xs[:len(xs) // 2]):
            xs = xs[:len(xs) // 2]
        elif bad(xs[:-1]):
            xs = xs[:-1]
        else:
            break
    for i in range(len(xs)):
        while xs[i] > 1 and budget > 0:
            budget -= 1
            ys = xs[:i] + [xs[i] // 2] + xs[i + 1:]
            if bad(ys):
                xs = ys
            else:
                break
    return "list:" + ",".join(map(str, xs))


KNOWN_HANG = r"""(import (chibi) (srfi 18))
(define m (make-mutex))
(define (spin n) (let lp ((i 0)) (if (< i n) (begin (thread-yield!) (lp (+ i 1))) i)))
(define t (make-thread (lambda () (mutex-lock! m) (spin 50) 'done)))
(thread-start! t) (thread-yield!)
(thread-sleep! 0)
(write (mutex-lock! m 0.05)) (newline)
(write (thread-join! t)) (newline)
"""


def run(ctx):
    ctx.cov["rule"] = ("outer: each program of harness/c11_progs.scm (mutex counters, two mutexes, condvar ping-pong, "
                       "broadcast barrier, join chain, timed waits on a virtual clock, terminate, dynamic-wind+parameterize) "
                       "is run once per slice-list schedule (CHIBI_VERIF_SCHED): one/two/three pre-emptions at every "
                       "instruction offset, a switch every k instructions, windows of single-instruction slices, seeded random "
                       "slices; a case = (program instance, schedule), non-trivial when the schedule forces at least one "
                       "pre-emption; it must print the schedule-independent result computed from the program's specification "
                       "with 0 in-program assertion failures.  inner: for a sample of those runs the H4 trace (every primitive and "
                       "scheduler call with the state it leaves) is replayed on the extracted Coq model (same operations and "
                       "clock readings) and compared state by state; every dumped state is also checked against the statements "
                       "of queues_wellformed / waiting_is_paused directly.  random (round 2): generated thread programs (2-5 threads + root, "
                       "1-3 mutexes, 1-2 condvars; lock/timed lock/unlock/condvar wait timed+untimed/signal/broadcast/yield/sleep/join "
                       "timed+untimed/terminate/start/local steps; weights aimed at several waiters of one mutex / condvar / thread, timed "
                       "mixed with untimed waiters, stale wait fields, sleepers among waiters; deadlock-free by construction unless they "
                       "terminate threads) x 3-4 slice schedules on the virtual clock, every run traced; a case = (program, schedule); "
                       "checked: the property's clauses on every state of the real scheduler (lost / spurious wake-up, thread lost, "
                       "timeouts incl. wake time = clock reading + timeout and no wake-up before it, lock exclusion), the schedule-independent part of the logged outcomes, every traced state against the "
                       "extracted model, and the logged outcomes against the outcomes predicted from the model through the wrappers")
    ctx.coq_obligations("Properties_C11")
    d = ctx.build("default")
    exe = ctx.extract("C11")
    if exe is None:
        return
    try:
        emb = B.cc_embed(d, EMBED, os.path.join(d, "embed_c11"))
    except B.BuildError as e:
        ctx.broken("harness:embed_c11", str(e)[-1500:])
        return
    rng = ctx.rng
    tdir = os.path.join(B.SCRATCH, "c11-traces")
    os.makedirs(tdir, exist_ok=True)
    for f in os.listdir(tdir):
        os.unlink(os.path.join(tdir, f))
    replay_base = "LD_LIBRARY_PATH=%s CHIBI_MODULE_PATH=%s/lib CHIBI_IGNORE_SYSTEM_PATH=1 %s %s" % (d, d, emb, os.path.abspath(PROGS))

    # ---------------------------------------------------------------- corpus: the F-C11-1 replay, standalone
    kpath = os.path.join(B.SCRATCH, "c11_known_hang.scm")
    open(kpath, "w").write(KNOWN_HANG)
    for clock in ("1000", None):
        try:
            r = B.run_chibi(d, [kpath], timeout=8, extra_env=({"CHIBI_VERIF_SCHED_CLOCK": clock} if clock else None))
            got = r.stdout.split()
        except subprocess.TimeoutExpired:
            got = ["HANG"]
        ctx.count(1, key=("corpus-hang", clock), nontrivial=True)
        if got != ["#f", "done"]:
            ctx.violation("scheduler:timeout-of-running-thread", input=KNOWN_HANG, expected="#f done", observed=" ".join(got),
                          clock=clock or "real",
                          replay="%s LD_LIBRARY_PATH=%s CHIBI_MODULE_PATH=%s/lib %s/chibi-scheme %s" % (
                              ("CHIBI_VERIF_SCHED_CLOCK=" + clock) if clock else "", d, d, d, kpath))
            break

    run_corpus_scm(ctx, d)

    # ---------------------------------------------------------------- outer: programs x schedules
    progs = programs(ctx.thorough)
    scheds = schedules(rng, ctx.thorough)
    reqs, meta = [], []
    for pi, (name, expr, expected, vclock) in enumerate(progs):
        for si, sc in enumerate(scheds):
            trace = "-"
            if si % (6 if not ctx.thorough else 25) == 0 or si < 4:
                trace = os.path.join(tdir, "t%d_%d.txt" % (pi, si))
            # the virtual clock makes timed programs deterministic; the others run on it half of the time
            clock = "1000" if (vclock or si % 2 == 0) else "-"
            reqs.append((sc, clock, trace, expr))
            meta.append((name, expr, expected, sc, clock, trace))
    outs = parallel_batches(d, emb, reqs, jobs=4, limit=6)
    dist = {}
    failures = {}
    for (name, expr, expected, sc, clock, trace), o in zip(meta, outs):
        ctx.count(1, key=(expr, sc), nontrivial=(sc != "-"))
        kind = sc.split(":")[0] + (":%d" % (sc.count(",") + 1) if sc.startswith("list:") and sc.count(",") < 3 else "")
        dist[kind] = dist.get(kind, 0) + 1
        if o != expected and o != "SKIPPED":
            failures.setdefault(name, []).append((expr, expected, sc, clock, o))
    ctx.cov["schedule_kinds"] = dist
    ctx.cov["program_names"] = [p[1] for p in progs]
    ctx.cov["programs"] = len(progs)
    nshrunk = 0
    for name, fl in failures.items():
        expr, expected, sc, clock, o = fl[0]
        o = o or ""
        why = ("hang" if o == "TIMEOUT" else "crash" if o.startswith("CRASH") else
               "assertion" if o.startswith("(") and not o.startswith("(0 ") else "result")
        nshrunk += 1
        sc2 = shrink(d, emb, expr, clock, sc, lambda r: r != expected) if nshrunk <= 2 else sc
        o2 = run_batch(d, emb, [(sc2, clock, "-", expr)], limit=3)[0]
        ctx.violation("schedule:%s:%s" % (name, why), input=dict(program=expr, schedule=sc2, clock=clock, original_schedule=sc[:200]),
                      expected=expected, observed=o2, failing_schedules=len(fl),
                      replay="printf '%s\\t%s\\t-\\t%s\\n' | %s" % (sc2, clock, expr, replay_base))
    for m, o in [(m, o) for m, o in zip(meta, outs) if m[3] != "-"][:3]:
        ctx.sample(dict(kind="outer", program=m[1], schedule=m[3][:60], clock=m[4], expected=m[2], impl=o))

    # ---------------------------------------------------------------- inner: traces vs extracted model, states vs the invariant
    n_lines = 0
    first_mismatch = None
    state_viol = None
    for (name, expr, expected, sc, clock, trace), o in zip(meta, outs):
        if trace == "-" or not os.path.exists(trace):
            continue
        text = open(trace).read(3_000_000)
        try:
            items, dims = parse_trace(text)
        except TraceError as e:
            ctx.broken("correspondence:trace-format", "cannot parse the H4 trace of %s under %s: %s" % (expr, sc[:80], e))
            break
        for k, (req, exp) in enumerate(items):
            w = check_state_invariant(exp)
            if w and state_viol is None:
                state_viol = (w, expr, sc, clock, k, req)
        try:
            n, mm = replay_trace(ctx, exe, text, True, expr)
        except Exception as e:       # model driver died
            n, mm = 0, dict(why="model driver failed: %s" % e, request="", line=0)
        n_lines += n
        ctx.cov["traces_validated_against_impl"] += 1
        if mm and first_mismatch is None:
            first_mismatch = (mm, expr, sc, clock)
    ctx.cov["trace_lines_compared"] = n_lines
    if state_viol:
        w, expr, sc, clock, k, req = state_viol
        ctx.violation("scheduler-state:" + re.sub(r"[^a-zA-Z ]", "", w).strip().replace(" ", "-")[:50],
                      input=dict(program=expr, schedule=sc[:300], clock=clock, trace_event=k, operation=req),
                      expected="queues_wellformed / waiting_is_paused hold in every state of the real scheduler", observed=w,
                      replay="printf '%s\\t%s\\t/dev/stderr\\t%s\\n' | %s   # trace on stderr" % (sc, clock, expr, replay_base))
    if first_mismatch:
        mm, expr, sc, clock = first_mismatch
        # model and implementation disagree; if neither an in-program assertion, a result nor a state invariant failed
        # there is no failing input for the property itself: report the correspondence as broken
        if not failures and not state_viol:
            ctx.broken("correspondence:scheduler-trace", "model and threads.c disagree at event %s (%s): %s; program %s schedule %s clock %s" % (
                mm.get("line"), mm.get("request"), mm.get("why"), expr, sc[:200], clock), model=mm.get("model"), impl=str(mm.get("impl"))[:600])
        else:
            ctx.note("model/implementation trace divergence: event %s (%s): %s" % (mm.get("line"), mm.get("request"), mm.get("why")))
    for f in os.listdir(tdir):
        os.unlink(os.path.join(tdir, f))

    # ---------------------------------------------------------------- round 2: random thread programs
    n_lines += run_random(ctx, d, emb, exe, tdir, replay_base, nprog=(300 if not ctx.thorough else 2000),
                          nsched=(3 if not ctx.thorough else 4))
    ctx.cov["trace_lines_compared"] = n_lines
    ctx.sample(dict(kind="inner", traces=ctx.cov["traces_validated_against_impl"], lines=n_lines))
    # ---------------------------------------------------------------- round 3: properly locked programs, expected outcome from Prog.run
    run_sv(ctx, d, emb, exe, replay_base, nprog=(150 if not ctx.thorough else 2500), nsched=(4 if not ctx.thorough else 8),
           nneg=(12 if not ctx.thorough else 60))
    for f in os.listdir(tdir):
        os.unlink(os.path.join(tdir, f))

    ctx.assume("each SRFI-18 primitive is one VM instruction (FCALL), so pre-emption inside a primitive does not exist; H4 injects slice lengths only at vm.c's refuel point")
    ctx.assume("wrappers of lib/srfi/18/interface.scm call yield! right after a primitive returned #f (enabled: primitives run only in a live non-waiting thread); checked on every replayed trace line (E1)")
    ctx.assume("not modelled: signals, fd polling / blocking I/O (sexp_blocker), child contexts of thread-terminate!, overflow of the microsecond arithmetic")
    ctx.assume("random programs: wake times in microseconds (virtual clock, +1 us per reading); round 4: 1 program in 8 first sleeps until just before a full second "
               "(the > 1000000 carry of the microsecond field is reached; a sum of exactly 1000000 only by chance), and the equal-wake-time family reaches equal wake "
               "times and wake times 1 us apart (counts in random_situations_reached: carry:*, P:equal-wake-times, P:wake-times-1us-apart)")
    ctx.trust("harness/c11_rand.py: trace oracle (ghost 'what a thread waits for' = the primitive that blocked it), Python mirror of the interface.scm wrappers used for "
              "the outcome prediction, trace squeeze (interior of runs of identical scheduler lines dropped)")
    ctx.trust("hook H4 (fixes/hook-C11-sched.patch): slice injection in vm.c, trace and virtual clock in lib/srfi/18/threads.c")
