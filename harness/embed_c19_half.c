/* C19 inner correspondence for the mini-float conversions of sexp.c: calls the REAL sexp_half_to_double,
   sexp_double_to_half, sexp_quarter_to_double, sexp_double_to_quarter of the scratch build's libchibi-scheme on bit
   patterns given in hex, one request per line, one answer line per request (same line protocol as the model driver):
     h2d <hex16>   -> hex64      d2h <hex64> -> hex16      q2d <hex8> -> hex64      d2q <hex64> -> hex8
     allh2d / allq2d -> all 65536 / 256 results on one line, space separated
   NaN results are printed as "nan" (payload and sign of a NaN are not compared). */
#include <stdio.h>
#include <string.h>
#include <stdint.h>
#include <math.h>
#include <chibi/sexp.h>

static double of_bits(uint64_t b) { double d; memcpy(&d, &b, 8); return d; }
static void show(double d) {
  uint64_t b; memcpy(&b, &d, 8);
  if (isnan(d)) printf("nan"); else printf("%llx", (unsigned long long)b);
}

int main(void) {
  char line[256], op[32];
  unsigned long long v;
  while (fgets(line, sizeof line, stdin)) {
    int n = sscanf(line, "%31s %llx", op, &v);
    if (n < 1) { printf("ERR empty\n"); continue; }
    if (!strcmp(op, "allh2d")) {
      for (unsigned i = 0; i < 65536; i++) { if (i) putchar(' '); show(sexp_half_to_double((unsigned short)i)); }
    } else if (!strcmp(op, "allq2d")) {
      for (unsigned i = 0; i < 256; i++) { if (i) putchar(' '); show(sexp_quarter_to_double((unsigned char)i)); }
    } else if (n < 2) { printf("ERR argument");
    } else if (!strcmp(op, "h2d")) { show(sexp_half_to_double((unsigned short)v));
    } else if (!strcmp(op, "q2d")) { show(sexp_quarter_to_double((unsigned char)v));
    } else if (!strcmp(op, "d2h")) { printf("%x", (unsigned)sexp_double_to_half(of_bits(v)));
    } else if (!strcmp(op, "d2q")) { printf("%x", (unsigned)sexp_double_to_quarter(of_bits(v)));
    } else printf("ERR unknown %s", op);
    putchar('\n');
    fflush(stdout);
  }
  return 0;
}
