;; C07 (K-mid): prints the binding structure chibi's analyze computes for each form of a case file, in the
;; canonical notation props/C07.py also derives from the extracted model's output:
;;   (lam (K ...) body)  binder numbers K in order of appearance (pre-order)
;;   (l K)               reference to binder K          (g name)   reference to a global / unbound name
;;   (lit n)  (quote datum)  (if a b c)  (set r v)  (app f a ...)
;; case file lines:  (defmac name (pv ...) template)   |   (case N form)
(import (scheme base) (scheme read) (scheme write) (scheme eval) (scheme repl) (scheme file) (scheme process-context)
        (chibi ast) (only (chibi) identifier->symbol strip-syntactic-closures))

(define env (interaction-environment))
(define counter 0)

;; chibi evaluates operands right to left: number binders with an explicit left-to-right map
(define (map-lr f ls)
  (if (null? ls) '() (let* ((a (f (car ls))) (d (map-lr f (cdr ls)))) (cons a d))))

(define (canon x binders)
  ;; binders: list of (lambda-object identifier-object . K)
  (cond
   ((lambda? x)
    (let* ((ps (lambda-params x))
           (ks (map-lr (lambda (p) (set! counter (+ counter 1)) counter) ps))
           (bs (append (map (lambda (p k) (cons x (cons p k))) ps ks) binders)))
      (let ((b (canon (lambda-body x) bs))) (list 'lam ks b))))
   ((ref? x)
    (let* ((cell (ref-cell x))
           (loc (and (pair? cell) (cdr cell)))
           (name (ref-name x)))
      (let lp ((b binders))
        (cond ((null? b) (list 'g (identifier->symbol name)))
              ((and (eq? (car (car b)) loc) (eq? (cadr (car b)) name)) (list 'l (cddr (car b))))
              (else (lp (cdr b)))))))
   ((cnd? x) (cons 'if (map-lr (lambda (y) (canon y binders)) (list (cnd-test x) (cnd-pass x) (cnd-fail x)))))
   ((set? x) (cons 'set (map-lr (lambda (y) (canon y binders)) (list (set-var x) (set-value x)))))
   ((lit? x) (list 'quote (lit-value x)))
   ((seq? x) (cons 'seq (map-lr (lambda (y) (canon y binders)) (seq-ls x))))
   ((opcode? x) (list 'g (string->symbol (opcode-name x))))
   ;; (scheme base) let-syntax / letrec-syntax = (let () (let-syntax/splicing ...)): a parameterless lambda applied
   ;; to nothing adds an empty frame only; the generated forms never contain one themselves
   ((and (pair? x) (null? (cdr x)) (lambda? (car x)) (null? (lambda-params (car x))))
    (canon (lambda-body (car x)) binders))
   ((pair? x) (cons 'app (map-lr (lambda (y) (canon y binders)) x)))
   ((number? x) (list 'lit x))
   ((eq? x (if #f #f)) (list 'void))
   (else (list 'other x))))

(define (run-case n form)
  (write n) (write-string " ")
  (let ((res (guard (e (#t 'ERR))
               (let ((ast (analyze form env)))
                 (if (exception? ast) 'ERR (begin (set! counter 0) (canon ast '())))))))
    (write res) (newline)))

(define (main file)
  (call-with-input-file file
    (lambda (in)
      (let lp ()
        (let ((x (read in)))
          (cond
           ((eof-object? x) (write-string "DONE") (newline))
           ((eq? (car x) 'defmac)
            (eval `(define-syntax ,(cadr x) (syntax-rules () ((_ ,@(car (cddr x))) ,(cadr (cddr x))))) env)
            (lp))
           (else (run-case (cadr x) (car (cddr x))) (lp))))))))

(main (cadr (command-line)))
